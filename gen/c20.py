"""C20 layers are transparent, honour Tower readiness; listeners only observe:
generator, model-input translation, independent monitor."""
PROP = "C20"
DRIVER = "c20"
MODEL = "C20"
MODEL_QUALID = "Model.LayerSem.run_script"
FORMAT = (
    "first integer = mode. Real layer ids: 0 bulkhead 1 ratelimiter 2 circuitbreaker 3 retry 4 timelimiter "
    "5 cache 6 fallback 7 hedge 8 reconnect 9 adaptive 10 coalesce 11 executor 12 chaos(rates 0) "
    "13 circuitbreaker.with_fallback 14 timelimiter(cancel_running_future=false) 15 retry with zero backoff "
    "16 circuitbreaker that has been OPEN (force_open() at construction, wait_duration_in_open 5 ms, the harness "
    "advances 6 ms before the first request: the first call reaching the breaker is the half-open trial call, a "
    "successful trial closes it) 17 the same for with_fallback 18 circuitbreaker that is Open at every client "
    "poll_ready and is force_closed() between the client's poll_ready and call (force_open() again after the "
    "request) 19 the same for with_fallback using reset() 20 hedge in latency mode (delay 1 ms; every call of the "
    "strict service then takes 10 ms so that all k hedges fire through the timer branch) 21 bulkhead at its gate "
    "(max_concurrent_calls 1, max_wait_duration 1 s) 22 rate limiter at its gate (1 permit per 10 ms window, "
    "timeout 30 ms) 23 adaptive limiter at its gate (AIMD, limit fixed to 1) 24 retry with the crate's DEFAULT "
    "policy (every error is retried; ids 3 / 15 use retry_on(kind == TRANSIENT)) 25 reconnect with the crate's DEFAULT "
    "predicate (id 8: only errors whose text starts with 'E kind=1 ') 26 hedge in latency mode with a delay (10 ms) "
    "longer than a call of the strict service (2 ms): the next hedge starts only after every earlier attempt failed. "
    "K field of modes 1 and 3: K = k + 16*E + 2^20*F; k <= 6 further attempts of every retrying / hedging layer; E: "
    "bit j-1 = every call for request j fails with an APPLICATION error; F = 0: default failure schedule (with a hedge "
    "layer nothing fails, otherwise the first (k+1)^m - 1 calls of every request fail with a TRANSIENT error, m = number "
    "of retry / reconnect layers), F > 0: the first F - 1 calls of every request fail. "
    "mode 1 (readiness protocol, strict contract-checking wrapped service, one handle, one request after the other): "
    "[1; n; layer ids outermost first; K; nreq; shared oracle of the wrapped poll_ready: 0 Ready 1 Pending 2 Err...] "
    "-> per request 0 answered Ok(10*request) / 1 readiness error at poll_ready, in the pass-through wrapping of all n "
    "layers / 2 the same inside the call / 3 never ready / 6 an error made up by a layer / 10 the wrapped service's "
    "application error in pass-through wrapping / 11 its transient error (never produced by the model: 4 poll_ready "
    "failed with anything else, 5 an error of the wrapped service in a wrong wrapping, 7 panic, 9 never completed), "
    "then the wrapped service's log, instances renamed by first use: [1; inst; r; 0] poll, [2; inst; was-ready + "
    "2*result (0 Ok 1 transient 2 application); request] call, then [violations]. The model sees the discipline code of "
    "each layer instead of its id (model_input): 0 Swap 1 Direct 2 Retry 3 Hedge 4 Reconnect 5 Retry/default policy "
    "6 Reconnect/default predicate 7 HedgeSeq. "
    "mode 3 (client programs over the same service): [3; n; layer ids; K; nops; (opcode; a; b)*nops; per-instance "
    "oracle: the answers of the instance used first, -1, those of the instance used second, -1, ...]; opcodes 0 poll "
    "handle a until Ready (at most 8 Pending) / 1 call on handle a, b=1: the wrapped service's calls for this request "
    "are held until released / 2 clone handle a (handles are numbered in order of creation, 0 = the stack) / "
    "3 release request a / 4 one poll_ready on handle a while its layer's gate is closed / 5 call on handle a, future "
    "left un-polled / 6 drive the future of request a -> one code per operation (poll: as in mode 1; call and clone: "
    "0 done, 8 refused because the handle is unknown or was not polled ready; gate: 3 Pending; others 0), one "
    "outcome code per issued request (every held call is released at the end), log and [violations] as in mode 1. "
    "mode 0 (transparency): [0; n; layer ids; inner kind 0 direct / 1 tower Buffer(4) / 2 tower ConcurrencyLimit(2) / "
    "3 tower ConcurrencyLimit(1); nreq; "
    "(req; okind 0 Ok 1 Err; oval)*] -> per request [inner calls; request seen by the wrapped service; 0 Ok / "
    "1 inner error wrapped only in pass-through variants / 2 anything else; payload]. "
    "mode 2 (listeners, one layer in a triggering configuration): [2; layer id; nlisteners; panic mask; nreq; okind* "
    "(0 ok 1 error 2 transient-then-ok 3 slow 4 transient)] -> per request [outcome equals the run with well-behaved "
    "listeners; every listener counted, per event kind, exactly the events the reference listeners counted]. "
    "mode 4 (listeners on every layer of a stack, non-triggering configuration): [4; n; layer ids; nlisteners; panic "
    "mask; nreq; (req; okind; oval)*] -> per request the four integers of mode 0, then for every layer position, every "
    "listener and every event kind 0..5 the number of invocations, then the same counts of the reference run (same "
    "script, well-behaved listeners). Panic mask (modes 2, 4): bit i = listener i panics with a String payload, bit "
    "i+4 = it panics with a payload whose Drop panics (std::panic::panic_any), bit i+8 = with a payload whose Drop "
    "panics with such a payload again, three levels deep"
)
RULE = (
    "mode 1: every layer alone x k 0..3 x 1..2(3) requests x a Pending, an Err, Pending+Pending/Err at every poll "
    "position including the polls before extra attempts; runs of up to 11 Pending answers before a further attempt; "
    "random oracles; stacks of 2..4 layers (k = 0; k > 0 with one retry/hedge/reconnect layer, or with two of retry / "
    "retry-zero-backoff / reconnect-on-top, the wrapped service failing every attempt but the last possible one); the "
    "guide's stacks; hedge in latency mode (20) alone and in stacks with Pending and Err answers on the hedge clones; "
    "rate limiter at its gate (22). mode 3: the sequential client, a clone of the stack per request, re-polls of a "
    "ready handle, overlapping requests (held calls, released in any order) over every layer and random stacks with "
    "per-instance oracles; bulkhead at its gate (21: a second request queues for the permit while the first is held, "
    "then the first is released) and adaptive limiter at its limit (23) at every depth of random stacks; parallel "
    "hedges with Pending answers on the hedge clones; futures left un-polled while the handle is polled and called "
    "again. mode 0: every layer x inner kinds (direct, Buffer(4), ConcurrencyLimit(2), ConcurrencyLimit(1)) x ok/err, "
    "random stacks of 2..5 layers, the composition guide's stacks. "
    "mode 2: every layer with a listener API x 1..4 listeners x every panic mask, plus masks with payloads whose Drop "
    "panics. mode 4: every layer alone, the guide's stacks and random stacks with 1..3 listeners on every layer x every "
    "panic mask, both payload styles. Default predicates (24, 25): alone and as the single retrying layer of random "
    "stacks with Err answers before further attempts; any two retrying layers (default predicates included) with the "
    "default failure schedule or any number of failing calls (exhausted attempts). Attempts failing under a hedge "
    "(7, 20, 26; 0..k+2 failing calls). Application errors of the wrapped service for any subset of the requests, every "
    "layer and random stacks (modes 1, 3). thorough adds all "
    "oracles over {Ready,Pending,Err} up to length 4 per layer and all two-layer stacks. Circuit breakers that have "
    "been OPEN (ids 16..19, both Service impls): alone and at every depth of random stacks in modes 1 and 0 (all inner "
    "kinds). Non-trivial = some Pending/Err or k > 0 (mode 1), more than one handle / a held or un-polled call / a "
    "gated layer / some Pending/Err (mode 3), depth >= 2 or Buffer/ConcurrencyLimit (mode 0), some listener panics "
    "(modes 2, 4)"
)
TRUSTED = [
    "harness/src/bin/c20.rs: the strict wrapped service (per-instance ready flag, shared or per-instance oracle, "
    "calls that can be held), the scripted wrapped service, the clients (mode 1: poll_ready until Ready on one "
    "long-lived instance, then call; mode 3: the program interpreter, which refuses a call on a handle it has not "
    "polled ready)",
    "each layer sits under tower::util::MapErr + tower::util::BoxCloneService (uniform error/type for run-time "
    "stacks); both forward poll_ready/call to the instance they hold",
    "the layer -> discipline table DISC below (read off each crate's call())",
    "the per-layer event tables pre_events / post_events of coq/Model/LayerSem.v (which events a non-triggered call "
    "emits), checked by the mode-4 correspondence",
    "reconnect's listener API are the on_state_change / on_reconnect callbacks of the crate's `tracing` feature "
    "(enabled in harness/Cargo.toml): ONE callback per kind, so listener 0 is on_state_change (event kind 0), "
    "listener 1 is on_reconnect (kind 1) and further listeners are not registered; adaptive, coalesce and executor "
    "have no listener API: mode 2 answers [1; 1] for them without running anything",
    "the predicates of the retrying layers: ids 3, 15: retry_on(|e| e.kind == TRANSIENT); id 8: reconnect_predicate("
    "error text starts with 'E kind=1 '); ids 24, 25: none (the crates' defaults: every error is retried); one "
    "configuration per layer otherwise (count-based breaker, fixed window, fixed 1 ms / zero backoff, LRU, fallback "
    "value strategy with handle(|_| false), chaos without error injection)",
    "mode 2 uses triggering configurations (small breaker window, rate limit 2, cache of 2, 20 ms time limit, "
    "10 ms hedge delay, chaos error rate 0.5 with a fixed seed) so that every event kind is emitted; its model is "
    "the constant [1; 1] per request (the comparison is between two runs of the same binary)",
]
ASSUMPTIONS = [
    "a call is atomic in the model: what a layer defers into its future (waiting for a bulkhead permit, a rate "
    "limiter window, a spawned task) is not modelled; mode-3 scripts are generated so that the wrapped service's log "
    "does not depend on it (a call that queues behind a held request is followed at once by the release of that "
    "request; held requests only with k = 0); scripts with un-polled futures (opcode 5) are compared on the codes, "
    "the violation count and the multiset of calls only",
    "hedge in parallel mode (7): the real hedge tasks interleave, the model runs them one after the other; in mode 1 "
    "Pending answers are only scripted where no parallel hedge tasks run; in mode 3 (per-instance oracle) they are, "
    "and the logs are compared instance by instance; below a hedge with k > 0: no second retrying layer, no layer "
    "that spawns a task (executor, non-cancelling time limiter), no layer at its gate, no adaptive limiter when "
    "attempts fail (failures lower its limit and concurrent attempts then find its gate closed)",
    "NOT a property of the code (DESIGN 3.1, 'noticed, outside the quantifiers'; second review C3): hedge is not "
    "transparent for ERROR outcomes. It treats every failure of its attempts, an inner error answered at once "
    "included, as its trigger: it waits for / sends the hedges and reports HedgeError::AllAttemptsFailed; "
    "HedgeError::Inner is never produced. Transparency scripts (modes 0, 4) containing hedge therefore use Ok inner "
    "outcomes only, and in modes 1 / 3 a request all of whose calls failed under a hedge may end with the layer's own "
    "error (code 6). A readiness error met by a hedge ATTEMPT on its clone fails that attempt only and is not "
    "required to surface (tolerated: Err answers given to an instance that is never used again)",
    "which predicates (second review C2): 'readiness errors surface as readiness errors, none swallowed' is claimed "
    "for retry / reconnect layers whose predicate REFUSES readiness errors -- ids 3, 15 (retry_on(kind == TRANSIENT)) "
    "and 8 (reconnect_predicate: error text starts with 'E kind=1 ') -- and for a layer with the crate's DEFAULT "
    "predicate (ids 24, 25: every error is retried) only as far as its OWN failed readiness check before a further "
    "attempt goes (it ends the request). A default-predicate retrying layer ABOVE another retrying layer cannot tell "
    "that layer's in-call readiness error from a call error and retries it: its protective condition is triggered, "
    "the monitor accepts it (and only there), the model reproduces it (Retry _ true / Reconnect _ true)",
    "a breaker that starts Open (16/17) is scripted so that its half-open trial call succeeds (mode 0: first inner "
    "outcome Ok; mode 1: no retrying layer above it when k > 0), otherwise it re-opens and rejects, which is not a "
    "non-triggering configuration (the monitor accepts a rejection only after an earlier request has failed)",
    "ids 24, 25, 26 are protocol-mode variants (modes 1, 3); they are not used in modes 0, 2, 4",
]
# scripts on which the REAL code violates the property (none known)
KNOWN_DEFECT = []

NAMES = ["bulkhead", "ratelimiter", "circuitbreaker", "retry", "timelimiter", "cache", "fallback", "hedge",
         "reconnect", "adaptive", "coalesce", "executor", "chaos", "cb_with_fallback", "timelimiter_nocancel",
         "retry_zero_backoff", "cb_was_open", "cb_fallback_was_open", "cb_closed_between_poll_and_call",
         "cb_fallback_reset_between_poll_and_call", "hedge_latency_mode", "bulkhead_at_gate", "ratelimiter_at_gate",
         "adaptive_at_gate", "retry_default_policy", "reconnect_default_predicate", "hedge_latency_sequential"]
# the layers that can go anywhere; 16/17 (breaker that starts Open) need their half-open trial call to
# succeed and are generated separately (OPENED); 20..23 are generated separately too
ALL = list(range(16)) + [18, 19]
OPENED = (16, 17)
CB_VARIANTS = (16, 17, 18, 19)
# discipline codes of Model/Layers.v: 0 Swap 1 Direct 2 Retry 3 Hedge 4 Reconnect (2, 4: predicates accepting
# transient errors only) 5 Retry with the default policy 6 Reconnect with the default predicate 7 HedgeSeq
DISC = {0: 0, 1: 0, 2: 0, 3: 2, 4: 0, 5: 1, 6: 0, 7: 3, 8: 4, 9: 1, 10: 1, 11: 0, 12: 0, 13: 0, 14: 0, 15: 2,
        16: 0, 17: 0, 18: 0, 19: 0, 20: 3, 21: 0, 22: 0, 23: 1, 24: 5, 25: 6, 26: 7}
SPECIAL = (3, 7, 8, 15, 20, 24, 25, 26)
HEDGES = (7, 20, 26)
RETRYING = (3, 8, 15, 24, 25)        # retry / reconnect layers
DEFAULT_PRED = (24, 25)              # ... configured with the crate's default predicate
RECONNECTS = (8, 25)
LISTENER_LAYERS = [0, 1, 2, 3, 4, 5, 6, 7, 8, 12, 13, 14, 15]
NO_LISTENER_LAYERS = [9, 10, 11]
# layers usable in client programs (mode 3): no harness hooks around the client's steps (18, 19)
PROG = list(range(16))

# the composition guide's stacks (crates/tower-resilience/src/composition.rs, tower_primer.rs), outermost first
GUIDE = [
    [4, 3], [4, 3, 2, 4], [6, 4, 3, 2, 4], [4, 3, 2, 7, 4], [4, 3, 0], [4, 2, 0], [4, 3, 2], [4, 9, 3], [4, 7],
    [6, 4, 2], [4, 10, 2], [6, 5, 4, 2, 3, 4], [1, 0, 4], [2, 3], [3, 2], [6, 2], [3, 4], [0, 1],
    [6, 4, 2, 3, 8], [5, 2, 4], [5, 2, 3], [5, 3, 4],
]


def kf(k, emask=0, fail=None):
    """the K field of modes 1 and 3: k further attempts; emask: bit j-1 = request j gets an application error;
    fail: None = the default failure schedule, else the number of leading calls of every request that fail"""
    return k + 16 * emask + (0 if fail is None else (fail + 1) << 20)


def kdec(K):
    K = max(0, K)
    return min(6, K % 16), (K // 16) % 65536, K >> 20


def proto(ids, k, nreq, orc):
    return [1, len(ids)] + list(ids) + [k, nreq] + list(orc)


def transp(ids, ik, reqs):
    out = [0, len(ids)] + list(ids) + [ik, len(reqs)]
    for r in reqs:
        out += list(r)
    return out


def lis(lid, nl, mask, okinds):
    return [2, lid, nl, mask, len(okinds)] + list(okinds)


def lis4(ids, nl, mask, reqs):
    out = [4, len(ids)] + list(ids) + [nl, mask, len(reqs)]
    for r in reqs:
        out += list(r)
    return out


# client programs (mode 3)
POLL, CALL, CLONE, RELEASE, GATE, LAZY, DRIVE = 0, 1, 2, 3, 4, 5, 6


def prog(ids, k, ops, segs=()):
    out = [3, len(ids)] + list(ids) + [k, len(ops)]
    for o in ops:
        out += list(o)
    for s in segs:
        out += list(s) + [-1]
    return out


def seq_ops(nreq):
    ops = []
    for _ in range(nreq):
        ops += [(POLL, 0, 0), (CALL, 0, 0)]
    return ops


def clone_ops(nreq):
    """a clone of the stack per request"""
    ops = []
    for j in range(nreq):
        ops += [(CLONE, 0, 0), (POLL, j + 1, 0), (CALL, j + 1, 0)]
    return ops


def gate_ops(second_held):
    """the first request is held inside the wrapped service; the second one is polled ready, called (it queues at
    the gate) and the first is released at once"""
    ops = [(POLL, 0, 0), (CALL, 0, 1), (POLL, 0, 0), (CALL, 0, 1 if second_held else 0), (RELEASE, 1, 0)]
    if second_held:
        ops.append((RELEASE, 2, 0))
    return ops + [(POLL, 0, 0), (CALL, 0, 0)]


def corpus():
    out = []
    for st in GUIDE:
        hedge = 7 in st
        for ik in (0, 1, 2, 3):
            out.append(transp(st, ik, [(5, 0, 11), (6, 0 if hedge else 1, 12), (5, 0, 13)]))
        out.append(proto(st, 0, 2, [1, 0, 2, 1, 1, 0]))
        out.append(proto(st, 0, 3, [0, 2, 0]))
        out.append(prog(st, 0, clone_ops(2), [[0], [1, 0]]))
        out.append(lis4(st, 2, 1, [(5, 0, 11), (6, 0 if hedge else 1, 12)]))
    # the upstream defect: a layer calling a fresh clone instead of the instance it polled ready
    for lid in ALL + [20, 21, 22, 23]:
        out.append(transp([lid], 2, [(1, 0, 2)]))
        out.append(transp([lid], 1, [(1, 0, 2)]))
        # one unit of inner capacity: a reservation made by poll_ready and not used by call() blocks the request
        out.append(transp([lid], 3, [(1, 0, 2), (2, 0, 3)]))
        out.append(proto([lid], 1 if lid in SPECIAL else 0, 2, []))
    out.append(lis(2, 3, 5, [0, 1, 1, 1, 0, 0]))
    out.append(lis(3, 2, 3, [2, 1, 4, 0]))
    # reconnect's on_state_change / on_reconnect callbacks (fix 484f229: they were called without catch_unwind; a
    # panicking on_state_change turned every successful call into a panic, a panicking on_reconnect every retry)
    out.append(lis4([8], 1, 1, [(5, 0, 11)]))
    out.append(lis4([4, 8, 0], 2, 3, [(5, 0, 11), (6, 1, 12)]))
    out.append(lis(8, 1, 1, [0]))
    out.append(lis(8, 2, 2, [2, 0]))
    out.append(lis(8, 2, 3, [0, 1, 2, 4, 0]))
    # a breaker that has been open: the half-open trial call / the call after force_closed() or reset()
    # must go to an instance that was polled ready although the breaker read Open at poll_ready
    for lid in CB_VARIANTS:
        out.append(proto([lid], 0, 1, []))
        out.append(proto([lid], 0, 3, [1, 0, 2, 0]))
        for ik in (0, 1, 2, 3):
            out.append(transp([lid], ik, [(1, 0, 2)]))
            out.append(transp([lid], ik, [(5, 0, 11), (6, 1, 12), (5, 0, 13)]))
    for st in ([4, 3, 16, 4], [6, 4, 3, 17, 4], [6, 4, 16], [4, 10, 17], [16, 3], [5, 16, 4], [4, 18, 0], [6, 19]):
        out.append(proto(st, 0, 2, [1, 0, 0]))
        for ik in (0, 1, 2, 3):
            out.append(transp(st, ik, [(5, 0, 11), (6, 1, 12)]))
    # every layer at its gate, hedge through its timer branch, readiness errors with their kind
    for st in ([21], [4, 21], [21, 5], [6, 21, 0]):
        out.append(prog(st, 0, gate_ops(False)))
        out.append(prog(st, 0, gate_ops(True), [[0], [1, 0], [0]]))
    out.append(prog([23], 0, [(POLL, 0, 0), (CALL, 0, 1), (GATE, 0, 0), (RELEASE, 1, 0), (POLL, 0, 0), (CALL, 0, 0)]))
    for k in (1, 2, 3):
        out.append(proto([20], k, 2, []))
        out.append(proto([20], k, 1, [0, 1, 0, 2]))
        out.append(proto([4, 20, 0], k, 2, [0, 1, 1, 0]))
    out.append(proto([22], 0, 3, [0, 1, 0]))
    for lid in ALL + [20, 21, 22, 23]:
        out.append(proto([lid], 0, 2, [2, 0]))
        out.append(proto([4, lid], 0, 2, [0, 2]))
    # two retrying layers: a readiness error met by the inner one is not retried by the outer one
    for st in ([3, 3], [3, 15], [15, 3], [8, 3], [3, 0, 15], [8, 4, 3]):
        out.append(proto(st, 1, 1, []))
        out.append(proto(st, 1, 2, [0, 2]))
        out.append(proto(st, 2, 1, [0, 0, 1, 2]))
    # more Pending answers before a further attempt than the client itself would accept
    out.append(proto([3], 1, 1, [0] + [1] * 11 + [0]))
    out.append(proto([8], 1, 1, [0] + [1] * 9 + [2]))
    # the crates' DEFAULT predicates (24 retry, 25 reconnect): the layer's OWN failed readiness check before a
    # further attempt ends the request with that error (second review, R1 / R2) ...
    for lid in (24, 25):
        out.append(proto([lid], 1, 1, [0, 2]))
        out.append(proto([lid], 2, 2, [0, 0, 2, 0, 2]))
        out.append(proto([4, lid, 0], 1, 1, [0, 2, 0]))
        out.append(prog([lid], 1, seq_ops(1), [[0, 2, 0]]))
    # ... while a default-predicate retry ABOVE another retrying layer legitimately retries that layer's readiness
    # error (guide stack retry over reconnect, second review C2)
    out.append(proto([24, 8], 1, 1, [0, 2]))
    out.append(proto([24, 3], 1, 1, [0, 2]))
    out.append(proto([6, 4, 2, 24, 25], 1, 2, [0, 2, 0, 0, 2]))
    # attempts failing under a hedge; latency mode with a delay longer than a call: the next hedge only after
    # the previous attempt has failed (R3)
    for k in (1, 2, 3):
        out.append(proto([26], kf(k, 0, k), 2, []))
        out.append(proto([26], kf(k, 0, 1), 1, [0, 1, 0]))
        out.append(proto([4, 26, 0], kf(k, 0, k), 1, [0, 1, 0]))
        out.append(proto([7], kf(k, 0, k), 1, []))
        out.append(proto([20], kf(k, 0, k + 1), 1, []))     # every attempt fails: AllAttemptsFailed
    # error outcomes of the wrapped service over the strict service (application errors)
    for lid in ALL + [21, 22, 23, 24, 25]:
        out.append(proto([lid], kf(1 if lid in SPECIAL else 0, 0b10), 3, [0, 1, 0]))
    out.append(proto([4, 3, 2], kf(2, 0b01), 2, []))
    # listeners panicking with a payload whose Drop panics (fix afefac0 for EventListeners::emit, 56b9388 for
    # reconnect's callback sites)
    out.append(lis4([0], 2, 16, [(5, 0, 11)]))
    out.append(lis4([5], 2, 16, [(5, 0, 11)]))
    out.append(lis4([8], 1, 16, [(5, 0, 11)]))
    out.append(lis4([4, 8, 0], 2, 16 + 32, [(5, 0, 11), (6, 1, 12)]))
    out.append(lis(8, 1, 16, [0]))
    out.append(lis(8, 2, 32, [2, 0]))
    out.append(lis(0, 2, 16, [0, 1]))
    out.append(lis(2, 3, 16 + 2, [0, 1, 1, 1, 0, 0]))
    # ... and with a payload whose Drop panics with such a payload again, three levels deep (fix d1b49ff:
    # core::events::drop_panic_payload, used by emit and by reconnect's callback helper)
    out.append(lis4([0], 2, 256, [(5, 0, 11)]))
    out.append(lis4([8], 1, 256, [(5, 0, 11)]))
    out.append(lis4([4, 8, 0], 2, 256 + 512, [(5, 0, 11), (6, 1, 12)]))
    out.append(lis(0, 2, 256, [0, 1]))
    out.append(lis(8, 2, 256 + 512, [2, 0]))
    # a top-level poll_ready that stays Pending longer than the client waits
    out.append(proto([0], 0, 2, [1] * 8 + [0]))
    out.append(proto([4, 5, 3], 1, 2, [1] * 9))
    out.append(prog([0], 0, seq_ops(2), [[1] * 8 + [0]]))
    # overlapping requests, futures left un-polled
    out.append(prog([0], 0, [(POLL, 0, 0), (CALL, 0, 1), (POLL, 0, 0), (CALL, 0, 1), (RELEASE, 2, 0), (RELEASE, 1, 0)]))
    out.append(prog([0], 0, [(POLL, 0, 0), (LAZY, 0, 0), (POLL, 0, 0), (LAZY, 0, 0), (DRIVE, 2, 0), (DRIVE, 1, 0)]))
    out.append(prog([7], 2, seq_ops(2), [[0], [1, 0], [1, 1, 0], [0], [2], [1, 0]]))
    return out


def n_polls(ids, k, nreq):
    sp = [i for i in ids if i in SPECIAL]
    return nreq * (1 + (k if sp else 0))


def single_layer_oracles(lid, k, nreq, rich):
    """a Pending / an Err / Pending then Pending|Err at every poll position"""
    np_ = n_polls([lid], k, nreq)
    hedge_tasks = lid == 7 and k > 0
    yield []
    for p in range(np_):
        for x in (1, 2):
            if hedge_tasks and x == 1:
                continue
            yield [0] * p + [x]
            if not hedge_tasks:
                yield [0] * p + [1, x]
        if rich:
            for q in range(p + 1, np_ + 1):
                for x in (1, 2):
                    for y in (1, 2):
                        if hedge_tasks and 1 in (x, y):
                            continue
                        yield [0] * p + [x] + [0] * (q - p - 1) + [y]


def rand_oracle(rng, length, allow_pending=True, maxrun=5):
    out, run = [], 0
    for _ in range(length):
        r = rng.random()
        x = 0 if r < 0.5 else (1 if r < 0.8 else 2)
        if x == 1 and (not allow_pending or run >= maxrun):
            x = 0
        run = run + 1 if x == 1 else 0
        out.append(x)
    return out


def rand_segs(rng, ninst, maxlen=4, first_ready=False):
    segs = [rand_oracle(rng, rng.randrange(0, maxlen + 1)) for _ in range(ninst)]
    if first_ready and segs and segs[0]:
        segs[0][0] = 0     # the request that is to hold the gate closed gets through
    return segs


def rand_reqs(rng, n, ok_only):
    return [(rng.randrange(-50, 50), 0 if ok_only else rng.randrange(2), rng.randrange(-1000, 1000)) for _ in range(n)]


def rand_stack(rng, lo, hi):
    return [rng.choice(ALL) for _ in range(rng.randrange(lo, hi + 1))]


def rand_overlap(rng, nreq, lazy):
    """poll / call / clone / release over a few handles; at most three requests held at a time (a bulkhead of 4,
    a ConcurrencyLimit-like layer must not close); with [lazy] some futures are left un-polled and driven later"""
    ops, nh, held, undriven, issued = [], 1, [], [], 0
    while issued < nreq:
        r = rng.random()
        if r < 0.2 and nh < 4:
            ops.append((CLONE, rng.randrange(nh), 0))
            nh += 1
        elif r < 0.35 and held:
            j = held.pop(rng.randrange(len(held)))
            ops.append((RELEASE, j, 0))
        elif r < 0.45 and undriven:
            j = undriven.pop(rng.randrange(len(undriven)))
            ops.append((DRIVE, j, 0))
        else:
            h = rng.randrange(nh)
            ops.append((POLL, h, 0))
            if rng.random() < 0.15:
                ops.append((POLL, h, 0))      # polling a ready handle again is allowed
            issued += 1
            if lazy and rng.random() < 0.5:
                ops.append((LAZY, h, 0))
                undriven.append(issued)
            elif len(held) < 3 and rng.random() < 0.6:
                ops.append((CALL, h, 1))
                held.append(issued)
            else:
                ops.append((CALL, h, 0))
    rng.shuffle(held)
    for j in held:
        if rng.random() < 0.7:
            ops.append((RELEASE, j, 0))
    for j in undriven:
        if rng.random() < 0.7:
            ops.append((DRIVE, j, 0))
    return ops


def generate(rng, tier):
    quick = tier == "quick"
    out = []
    plain = [i for i in ALL if i not in SPECIAL]
    # ---- mode 1: every layer alone
    for lid in ALL + [20, 21, 22, 23, 24, 25]:
        ks = (0, 1, 2, 3) if lid in SPECIAL else (0, 2)
        for k in ks:
            for nreq in ((1, 2) if quick else (1, 2, 3)):
                for orc in single_layer_oracles(lid, k, nreq, not quick and nreq <= 2):
                    out.append(proto([lid], k, nreq, orc))
    for _ in range(300 if quick else 6000):
        lid = rng.choice(ALL + [20, 21, 22, 23])
        k = rng.randrange(4) if lid in SPECIAL else rng.choice((0, 0, 1, 3))
        nreq = rng.randrange(1, 4)
        np_ = n_polls([lid], k, nreq)
        out.append(proto([lid], k, nreq, rand_oracle(rng, rng.randrange(0, np_ + 3), not (lid == 7 and k > 0),
                                                     rng.choice((5, 5, 12)))))
    if not quick:
        # all oracles up to length 4
        def alls(length):
            if length == 0:
                yield []
                return
            for r in alls(length - 1):
                for x in (0, 1, 2):
                    yield r + [x]
        for lid in ALL + [20, 22]:
            for k in ((0, 1, 2) if lid in SPECIAL else (0,)):
                for nreq in (1, 2):
                    for length in range(1, 5):
                        for orc in alls(length):
                            if lid == 7 and k > 0 and 1 in orc:
                                continue
                            out.append(proto([lid], k, nreq, orc))
    # ---- mode 1: stacks, k = 0
    for _ in range(350 if quick else 6000):
        st = rand_stack(rng, 2, 4)
        if rng.random() < 0.2:
            st[rng.randrange(len(st))] = rng.choice((20, 21, 22, 23))
        nreq = rng.randrange(1, 4)
        out.append(proto(st, 0, nreq, rand_oracle(rng, rng.randrange(0, nreq + 4))))
    for st in GUIDE:
        for _ in range(3 if quick else 30):
            nreq = rng.randrange(1, 4)
            out.append(proto(st, 0, nreq, rand_oracle(rng, rng.randrange(0, nreq + 4))))
    # ---- mode 1: stacks with exactly one retry / reconnect layer and k > 0
    for _ in range(250 if quick else 5000):
        st = [rng.choice(plain + [21, 22]) for _ in range(rng.randrange(1, 4))]
        st.insert(rng.randrange(len(st) + 1), rng.choice((3, 8, 15)))
        k = rng.randrange(1, 4)
        nreq = rng.randrange(1, 3)
        out.append(proto(st, k, nreq, rand_oracle(rng, rng.randrange(0, nreq * (k + 1) + 2), True, rng.choice((5, 12)))))
    # ---- mode 1: two retrying layers (the wrapped service fails every attempt but the last possible one)
    for _ in range(150 if quick else 3000):
        outer, inner = rng.choice(((3, 3), (3, 15), (15, 3), (15, 15), (8, 3), (8, 15)))
        a = [rng.choice(plain) for _ in range(rng.randrange(0, 2))]
        m = [rng.choice(plain) for _ in range(rng.randrange(0, 2))]
        b = [rng.choice(plain) for _ in range(rng.randrange(0, 2))]
        k = rng.randrange(1, 3)
        nreq = rng.randrange(1, 3)
        out.append(proto(a + [outer] + m + [inner] + b, k, nreq,
                         rand_oracle(rng, rng.randrange(0, nreq * (k + 1) * (k + 1) + 2))))
    # ---- mode 1: stacks around a hedge with k > 0: no task-spawning layer (executor, non-cancelling
    # time limiter) below the hedge; parallel mode (7): Ready/Err answers only, so that the hedge tasks run one
    # after the other; latency mode (20): one hedge per millisecond, Pending answers too
    below_ok = [i for i in plain if i not in (11, 14)]
    for _ in range(200 if quick else 4000):
        above = [rng.choice(plain) for _ in range(rng.randrange(0, 3))]
        below = [rng.choice(below_ok) for _ in range(rng.randrange(0 if above else 1, 3))]
        k = rng.randrange(1, 4)
        nreq = rng.randrange(1, 3)
        hid = rng.choice(HEDGES)
        out.append(proto(above + [hid] + below, k, nreq,
                         rand_oracle(rng, rng.randrange(0, nreq * (k + 1) + 2), hid == 20)))
    if not quick:
        for a in ALL + [20, 21, 22, 23]:
            for b in ALL + [20, 21, 22, 23]:
                for orc in ([], [1, 0, 2], [0, 2, 1, 0], [2, 0, 1, 1, 0]):
                    out.append(proto([a, b], 0, 2, orc))
    # ---- mode 1: a breaker that starts Open (16 / 17): alone, and at every depth of a stack. k = 0, or
    # k > 0 with the one retrying layer BELOW the breaker (the trial call has to succeed)
    for lid in OPENED:
        for nreq in (1, 2, 3):
            for orc in single_layer_oracles(lid, 0, nreq, not quick):
                out.append(proto([lid], 0, nreq, orc))
    for _ in range(60 if quick else 1500):
        base = [rng.choice(ALL) for _ in range(rng.randrange(1, 4))]
        nreq = rng.randrange(1, 4)
        for pos in range(len(base) + 1):
            st = base[:pos] + [rng.choice(OPENED)] + base[pos:]
            out.append(proto(st, 0, nreq, rand_oracle(rng, rng.randrange(0, nreq + 3))))
    for _ in range(80 if quick else 1500):
        above = [rng.choice(plain) for _ in range(rng.randrange(0, 2))]
        mid = [rng.choice(plain) for _ in range(rng.randrange(0, 2))]
        below = [rng.choice(plain) for _ in range(rng.randrange(0, 2))]
        k = rng.randrange(1, 4)
        nreq = rng.randrange(1, 3)
        st = above + [rng.choice(OPENED)] + mid + [rng.choice((3, 8, 15))] + below
        # no readiness error until the trial call (request 1 with its k further attempts) is through:
        # a trial ending in an error re-opens the breaker
        orc, answered = [], 0
        while answered < k + 1:
            x = 1 if rng.random() < 0.25 and orc[-3:] != [1, 1, 1] else 0
            orc.append(x)
            answered += x == 0
        out.append(proto(st, k, nreq, orc + rand_oracle(rng, rng.randrange(0, (nreq - 1) * (k + 1) + 2))))
    # ---- mode 1: the crates' default predicates (24 retry, 25 reconnect) as the only retrying layer ...
    for _ in range(200 if quick else 4000):
        st = [rng.choice(plain + [21, 22]) for _ in range(rng.randrange(0, 4))]
        st.insert(rng.randrange(len(st) + 1), rng.choice(DEFAULT_PRED))
        k = rng.randrange(1, 4)
        nreq = rng.randrange(1, 3)
        out.append(proto(st, k, nreq, rand_oracle(rng, rng.randrange(0, nreq * (k + 1) + 2), True, rng.choice((5, 12)))))
    # ... and any two retrying layers, default predicates included, with the default failure schedule or any
    # number of failing calls (exhausted attempts: the last error comes back, reconnect gives up)
    for _ in range(250 if quick else 5000):
        outer, inner = rng.choice(RETRYING), rng.choice(RETRYING)
        a = [rng.choice(plain) for _ in range(rng.randrange(0, 2))]
        m = [rng.choice(plain) for _ in range(rng.randrange(0, 2))]
        b = [rng.choice(plain) for _ in range(rng.randrange(0, 2))]
        k = rng.randrange(1, 3)
        nreq = rng.randrange(1, 3)
        fail = None if rng.random() < 0.5 else rng.randrange(0, (k + 2) * (k + 2) + 1)
        out.append(proto(a + [outer] + m + [inner] + b, kf(k, 0, fail), nreq,
                         rand_oracle(rng, rng.randrange(0, nreq * (k + 1) * (k + 1) + 2))))
    for _ in range(150 if quick else 3000):
        # one retrying layer, any number of failing calls
        st = [rng.choice(plain) for _ in range(rng.randrange(0, 3))]
        st.insert(rng.randrange(len(st) + 1), rng.choice(RETRYING))
        k = rng.randrange(0, 4)
        nreq = rng.randrange(1, 3)
        out.append(proto(st, kf(k, 0, rng.randrange(0, k + 4)), nreq, rand_oracle(rng, rng.randrange(0, nreq * (k + 1) + 2))))
    # ---- mode 1: attempts failing under a hedge (parallel: Ready / Err answers only; latency modes: Pending too)
    for _ in range(250 if quick else 5000):
        above = [rng.choice(plain) for _ in range(rng.randrange(0, 3))]
        # (not the adaptive limiter: failures lower its limit, and concurrent attempts then find its gate closed)
        below = [rng.choice([i for i in below_ok if i != 9]) for _ in range(rng.randrange(0, 3))]
        k = rng.randrange(1, 4)
        nreq = rng.randrange(1, 3)
        hid = rng.choice(HEDGES)
        out.append(proto(above + [hid] + below, kf(k, 0, rng.randrange(0, k + 3)), nreq,
                         rand_oracle(rng, rng.randrange(0, nreq * (k + 1) + 2), hid != 7)))
    # ---- mode 1: application errors of the wrapped service (every layer, stacks, with and without retrying layers)
    for _ in range(300 if quick else 6000):
        st = [rng.choice(ALL + [21, 22, 24, 25]) for _ in range(rng.randrange(1, 5))]
        nsp = [i for i in st if i in SPECIAL]
        # below a hedge: no second retrying layer, no task-spawning layer, no layer at its gate, no adaptive limiter
        if any(i in HEDGES for i in st) and (len(nsp) > 1 or any(i in (9, 11, 14, 21, 22) for i in st)):
            continue
        k = rng.randrange(0, 3) if len([i for i in st if i in RETRYING]) <= 2 else 0
        nreq = rng.randrange(1, 4)
        allow_pending = not (7 in st and k > 0)
        out.append(proto(st, kf(k, rng.randrange(1, 1 << nreq)), nreq,
                         rand_oracle(rng, rng.randrange(0, nreq + 3), allow_pending)))
    # ---- mode 3: client programs
    prog_plain = [i for i in PROG if i not in SPECIAL]
    for lid in PROG + [20, 21, 22, 23, 24, 25]:
        k = 1 if lid in SPECIAL else 0
        for nreq in (1, 2):
            out.append(prog([lid], k, seq_ops(nreq)))
            out.append(prog([lid], k, clone_ops(nreq)))
            for _ in range(2 if quick else 12):
                out.append(prog([lid], k, seq_ops(nreq), rand_segs(rng, 2 + nreq * (k + 1))))
                out.append(prog([lid], k, clone_ops(nreq), rand_segs(rng, 2 + nreq * (k + 1))))
    for _ in range(200 if quick else 4000):
        # sequential / clone-per-request clients over stacks with one special layer (parallel hedges with
        # Pending answers on their clones included)
        st = [rng.choice(prog_plain) for _ in range(rng.randrange(0, 3))]
        sp = rng.choice((3, 7, 7, 8, 15, 20))
        if sp in HEDGES:
            st = [i for i in st if i not in (11, 14)] if rng.random() < 0.7 else st
            pos = len(st) if any(i in (11, 14) for i in st) else rng.randrange(len(st) + 1)
        else:
            pos = rng.randrange(len(st) + 1)
        st.insert(pos, sp)
        k = rng.randrange(0, 4)
        nreq = rng.randrange(1, 3)
        ops = clone_ops(nreq) if rng.random() < 0.4 else seq_ops(nreq)
        out.append(prog(st, k, ops, rand_segs(rng, rng.randrange(1, 3 + nreq * (k + 1)), 3)))
    for _ in range(250 if quick else 5000):
        # overlapping requests (k = 0): held calls released in any order, several handles
        st = [rng.choice(prog_plain + [3, 7, 8, 15]) for _ in range(rng.randrange(1, 4))]
        # (application errors lower the adaptive limiter's limit: with overlapping requests its gate would close)
        out.append(prog(st, kf(0, 0 if 9 in st else rng.choice((0, 0, 1, 2, 5))), rand_overlap(rng, rng.randrange(2, 6), False),
                        rand_segs(rng, rng.randrange(0, 7), 3)))
    for _ in range(100 if quick else 2000):
        # futures left un-polled while the client goes on (compared on codes / calls only)
        st = [rng.choice(prog_plain + [3, 7, 8, 15]) for _ in range(rng.randrange(1, 4))]
        out.append(prog(st, 0, rand_overlap(rng, rng.randrange(2, 5), True), rand_segs(rng, rng.randrange(0, 6), 2)))
    for _ in range(120 if quick else 2500):
        # the bulkhead at its gate, at every depth; the queued request sees Pending / Err answers too
        above = [rng.choice(prog_plain) for _ in range(rng.randrange(0, 3))]
        below = [rng.choice(prog_plain) for _ in range(rng.randrange(0, 3))]
        held2 = rng.random() < 0.4
        ops = gate_ops(held2)
        if rng.random() < 0.4:
            # the queued request comes through a clone of the stack
            ops = [(POLL, 0, 0), (CALL, 0, 1), (CLONE, 0, 0), (POLL, 1, 0), (CALL, 1, 1 if held2 else 0),
                   (RELEASE, 1, 0)] + ([(RELEASE, 2, 0)] if held2 else []) + [(POLL, 1, 0), (CALL, 1, 0)]
        out.append(prog(above + [21] + below, 0, ops, rand_segs(rng, rng.randrange(0, 5), 3, True)))
    for _ in range(40 if quick else 800):
        # the adaptive limiter at its limit: Pending without touching the wrapped service
        above = [rng.choice(prog_plain) for _ in range(rng.randrange(0, 2))]
        below = [rng.choice(prog_plain) for _ in range(rng.randrange(0, 2))]
        ops = [(POLL, 0, 0), (CALL, 0, 1)] + [(GATE, 0, 0)] * rng.randrange(1, 3) + \
              [(RELEASE, 1, 0), (POLL, 0, 0), (CALL, 0, 0)]
        out.append(prog(above + [23] + below, 0, ops, rand_segs(rng, rng.randrange(0, 4), 3, True)))
    # ---- mode 0: the same breakers; the first request is the trial call and succeeds
    def first_ok(reqs):
        return [(reqs[0][0], 0, reqs[0][2])] + list(reqs[1:])
    for lid in OPENED:
        for ik in (0, 1, 2, 3):
            for reqs in ([(5, 0, 11)], [(5, 0, 11), (6, 1, 12), (5, 0, 13), (5, 1, 11)]):
                out.append(transp([lid], ik, reqs))
            for _ in range(2 if quick else 20):
                out.append(transp([lid], ik, first_ok(rand_reqs(rng, rng.randrange(1, 5), False))))
    for _ in range(60 if quick else 1500):
        base = [rng.choice(ALL) for _ in range(rng.randrange(1, 5))]
        for pos in range(len(base) + 1):
            st = base[:pos] + [rng.choice(OPENED)] + base[pos:]
            out.append(transp(st, rng.randrange(4), first_ok(rand_reqs(rng, rng.randrange(1, 4), 7 in st))))
    # ---- mode 0: every layer alone
    for lid in ALL + [20, 21, 22, 23]:
        for ik in (0, 1, 2, 3):
            pats = [[(5, 0, 11)], [(5, 0, 11), (6, 0, 12), (5, 0, 13)]]
            if lid not in HEDGES:
                pats += [[(6, 1, 12)], [(5, 0, 11), (6, 1, 12), (5, 0, 13), (5, 1, 11), (7, 1, 0)]]
            for reqs in pats:
                out.append(transp([lid], ik, reqs))
            for _ in range(2 if quick else 20):
                out.append(transp([lid], ik, rand_reqs(rng, rng.randrange(1, 5), lid in HEDGES)))
    # ---- mode 0: stacks
    for _ in range(450 if quick else 8000):
        st = rand_stack(rng, 2, 5)
        if rng.random() < 0.15:
            st[rng.randrange(len(st))] = rng.choice((20, 21, 22, 23))
        out.append(transp(st, rng.randrange(4), rand_reqs(rng, rng.randrange(1, 4), any(h in st for h in HEDGES))))
    for st in GUIDE:
        for ik in (0, 1, 2, 3):
            for _ in range(2 if quick else 20):
                out.append(transp(st, ik, rand_reqs(rng, rng.randrange(1, 5), 7 in st)))
    if not quick:
        for a in ALL:
            for b in ALL:
                for ik in (0, 1, 2, 3):
                    hedge = 7 in (a, b)
                    out.append(transp([a, b], ik, [(3, 0, 4), (5, 0 if hedge else 1, 6)]))
    # ---- mode 2: every layer with listeners x all panic masks
    seq_a = [0, 1, 0, 2, 3, 1, 1, 0]
    for lid in LISTENER_LAYERS:
        for nl in (1, 2, 3, 4):
            for mask in range(1 << nl):
                out.append(lis(lid, nl, mask, seq_a))
                for _ in range(0 if quick else 6):
                    out.append(lis(lid, nl, mask, [rng.randrange(5) for _ in range(rng.randrange(1, 9))]))
    for _ in range(150 if quick else 1500):
        lid = rng.choice(LISTENER_LAYERS)
        nl = rng.randrange(1, 5)
        out.append(lis(lid, nl, rng.randrange(1, 1 << nl), [rng.randrange(5) for _ in range(rng.randrange(1, 9))]))
    for lid in NO_LISTENER_LAYERS:
        out.append(lis(lid, 2, 3, [0, 1, 0]))
    # listeners panicking with a payload whose Drop panics (mask bits 4..7), alone and mixed with the others
    for lid in LISTENER_LAYERS:
        for nl in (1, 2, 3):
            for _ in range(2 if quick else 12):
                mask = (rng.randrange(1, 1 << nl) << 4) | rng.randrange(1 << nl)
                out.append(lis(lid, nl, mask, [rng.randrange(5) for _ in range(rng.randrange(1, 7))]))
                mask = (rng.randrange(1, 1 << nl) << 8) | (rng.randrange(1 << nl) << 4) | rng.randrange(1 << nl)
                out.append(lis(lid, nl, mask, [rng.randrange(5) for _ in range(rng.randrange(1, 7))]))
    # ---- mode 4: listeners on every layer of a stack, absolute per-kind counts
    for lid in list(range(16)) + [20, 21, 22, 23]:
        for nl in (1, 2, 3):
            for mask in range(1 << nl):
                out.append(lis4([lid], nl, mask, [(5, 0, 11), (6, 0 if lid in HEDGES else 1, 12), (5, 0, 13)]))
    for st in GUIDE:
        for nl in (1, 2, 3):
            for mask in (range(1 << nl) if not quick else (0, (1 << nl) - 1, 1)):
                out.append(lis4(st, nl, mask, rand_reqs(rng, rng.randrange(1, 4), 7 in st)))
    for _ in range(200 if quick else 3000):
        st = [rng.choice(list(range(16)) + [21, 22]) for _ in range(rng.randrange(2, 6))]
        nl = rng.randrange(1, 4)
        mask = (rng.randrange(1 << nl) | (rng.randrange(1 << nl) << 4 if rng.random() < 0.5 else 0)
                | (rng.randrange(1 << nl) << 8 if rng.random() < 0.3 else 0))
        out.append(lis4(st, nl, mask, rand_reqs(rng, rng.randrange(1, 4), 7 in st)))
    for lid in list(range(16)):
        for nl in (1, 2):
            out.append(lis4([lid], nl, 16, [(5, 0, 11), (6, 0 if lid in HEDGES else 1, 12)]))
            out.append(lis4([lid], nl, 256, [(5, 0, 11), (6, 0 if lid in HEDGES else 1, 12)]))
    return out


# ----------------------------------------------------------------------------
def parse1(s):
    n = s[1] if len(s) > 1 else 0
    ids = list(s[2:2 + n])
    k = kdec(s[2 + n] if len(s) > 2 + n else 0)[0]
    nreq = s[3 + n] if len(s) > 3 + n else 0
    return n, ids, k, nreq, list(s[4 + n:])


def kfield(s):
    n = s[1] if len(s) > 1 else 0
    return s[2 + n] if len(s) > 2 + n else 0


def parse3(s):
    n, ids, k, nops, rest = parse1(s)
    ops = [tuple(rest[3 * i: 3 * i + 3]) for i in range(nops)]
    segs, cur = [], []
    for x in rest[3 * nops:]:
        if x == -1:
            segs.append(cur)
            cur = []
        else:
            cur.append(x)
    if cur:
        segs.append(cur)
    return n, ids, k, ops, segs


def split3(s, t):
    """(op codes, request outcome codes, log, violations) of a mode-3 trace, or None"""
    n, ids, k, ops, segs = parse3(s)
    if len(t) < len(ops) + 1:
        return None
    codes = t[:len(ops)]
    nreq = sum(1 for (o, c) in zip(ops, codes) if o[0] in (CALL, LAZY) and c == 0)
    rest = t[len(ops) + nreq:]
    if len(t) < len(ops) + nreq + 1 or (len(rest) - 1) % 4 != 0:
        return None
    outs = t[len(ops):len(ops) + nreq]
    log = [tuple(rest[4 * i: 4 * i + 4]) for i in range((len(rest) - 1) // 4)]
    return codes, outs, log, rest[-1]


def model_input(s, impl_trace):
    """the model knows disciplines, not crates: rewrite the real layer ids of a protocol script (modes 1, 3)
    into the discipline code of each layer"""
    if not s or s[0] not in (1, 3):
        return list(s)
    n = s[1]
    return list(s[:2]) + [DISC.get(i, 0) for i in s[2:2 + n]] + list(s[2 + n:])


def project(log):
    per = {}
    for (kind, inst, v, q) in log:
        per.setdefault(inst, []).append((kind, v, q))
    return per


def compare(s, impl, model):
    """traces must be equal, except (see ASSUMPTIONS): mode-3 scripts with parallel hedge attempts are compared
    instance by instance, mode-3 scripts with un-polled futures on codes, violations and the multiset of calls"""
    if impl == model:
        return None
    if s and s[0] == 3:
        n, ids, k, ops, segs = parse3(s)
        a, b = split3(s, impl), split3(s, model)
        if a is None or b is None:
            return "traces differ"
        if any(o[0] == LAZY for o in ops):
            calls = lambda log: sorted((v, q) for (kind, _, v, q) in log if kind == 2)
            if (a[0], a[1], a[3]) == (b[0], b[1], b[3]) and calls(a[2]) == calls(b[2]):
                return None
            return "codes, violations or the calls made differ (script with un-polled futures)"
        if k > 0 and 7 in ids:
            if (a[0], a[1], a[3]) == (b[0], b[1], b[3]) and project(a[2]) == project(b[2]):
                return None
            return "traces differ instance by instance (script with parallel hedges)"
    return "traces differ"


def mon_contract(log, violations):
    """the Tower contract, replayed from the wrapped service's log alone (third field of a call entry:
    was-ready + 2 * result of the call)"""
    if violations != 0:
        return "%d call(s) reached a wrapped-service instance that had not been polled ready" % violations
    ready = {}
    for (kind, inst, v, q) in log:
        if kind == 1:
            if v == 0:
                ready[inst] = True
        elif kind == 2:
            if not ready.get(inst) or v % 2 != 1:
                return "call on instance %d without readiness observed on it since its previous call" % inst
            ready[inst] = False
        else:
            return "malformed log entry %s" % ((kind, inst, v, q),)
    return None


BAD_CODE = {
    4: "a readiness error of the wrapped service surfaced from poll_ready as something other than a readiness error "
       "in pass-through wrapping",
    5: "an error of the wrapped service came back in a wrapping other than the layers' pass-through variants",
    6: "the request ended with an error made up by a layer although no protective condition was triggered",
    7: "panic",
    9: "the request never completed",
}


def pending_runs(log):
    """number of disjoint runs of at least 8 consecutive Pending answers given to one instance"""
    runs, cur, n = 0, None, 0
    for (kind, inst, v, _) in log:
        if kind == 1 and v == 1 and inst == cur:
            n += 1
        elif kind == 1 and v == 1:
            cur, n = inst, 1
        else:
            cur, n = None, 0
        if n == 8:
            runs += 1
            cur, n = None, 0
    return runs


def dropped_after_error(log):
    """Err answers given to an instance that never appears in the log again: the only readiness errors a hedge
    layer can have met on one of its clones (it fails that attempt with the error, by design, and drops the clone)"""
    last = {}
    for pos, (kind, inst, v, _) in enumerate(log):
        last[inst] = pos
    return sum(1 for pos, (kind, inst, v, _) in enumerate(log) if kind == 1 and v == 2 and last[inst] == pos)


def active(i, k):
    """layer i makes further attempts in a script with k: reconnect's max_attempts(k + 1) allows one
    reconnection even for k = 0"""
    return i in RECONNECTS or (k > 0 and i in SPECIAL)


def mon_requests(ids, k, log, surfaced_polls, never_ready, outcomes):
    """what the property says about the issued requests (numbered 1.. in order of issue, [outcomes] their codes)
    given the wrapped service's log"""
    errs = sum(1 for (kind, _, v, _) in log if kind == 1 and v == 2)
    surfaced = surfaced_polls + sum(1 for c in outcomes if c == 2)
    if never_ready > pending_runs(log):
        return ("poll_ready reported never ready %d time(s), the wrapped service answered Pending 8 times in a row "
                "only %d time(s)" % (never_ready, pending_runs(log)))
    # readiness errors surface as readiness errors
    if surfaced > errs:
        return "%d readiness error(s) reported, the wrapped service returned only %d" % (surfaced, errs)
    if surfaced < errs:
        below = [p for p, i in enumerate(ids) if i in RETRYING]
        if any(i in DEFAULT_PRED and active(i, k) and any(q > p for q in below) for p, i in enumerate(ids)):
            pass    # a default-predicate retry above another retrying layer retries that layer's readiness error
                    # like any call error: its own protective condition (see ASSUMPTIONS)
        else:
            # (a hedge layer, even with a single attempt, reports an error of its primary as AllAttemptsFailed)
            allowed = dropped_after_error(log) if any(h in ids for h in HEDGES) else 0
            if errs - surfaced > allowed:
                return ("%d readiness error(s) of the wrapped service, only %d surfaced as readiness errors"
                        % (errs, surfaced))
    # every request reaches the wrapped service unchanged and gets that call's answer
    calls = {}
    for (kind, _, v, q) in log:
        if kind == 2:
            calls.setdefault(q, []).append(v // 2)
    for q in calls:
        if not 1 <= q <= len(outcomes):
            return "the wrapped service saw request %d, which the client never issued" % q
    special = any(active(i, k) for i in ids)
    gives_up = any(i in HEDGES or i in RECONNECTS for i in ids)
    was_open = any(i in OPENED for i in ids)
    failed_before = False
    for j, c in enumerate(outcomes):
        q, res = j + 1, calls.get(j + 1, [])
        if c in (4, 5, 7, 9):
            return "request %d: %s" % (q, BAD_CODE[c])
        if c == 6:
            # a layer's own error: only where a protective condition was triggered -- hedge / reconnect giving up
            # after every attempt has failed (hedge's AllAttemptsFailed for error outcomes: see ASSUMPTIONS), a
            # breaker that has been open rejecting after its trial call failed
            if not ((gives_up and 0 not in res) or (was_open and failed_before)):
                return "request %d: %s" % (q, BAD_CODE[6])
        elif c == 0:
            if 0 not in res:
                return "request %d answered Ok although no call of the wrapped service for it answered Ok" % q
            if not special and len(res) != 1:
                return "request %d was forwarded %d times" % (q, len(res))
        elif c == 10:
            if not res or any(r != 2 for r in res):
                return "request %d ended with an application error the wrapped service did not answer" % q
            if not special and len(res) != 1:
                return "request %d was forwarded %d times" % (q, len(res))
        elif c == 11:
            if 1 not in res:
                return "request %d ended with a transient error the wrapped service did not answer" % q
        elif c != 2:
            return "request %d: unknown code %d" % (q, c)
        if c != 0 and 0 in res and not any(h in ids for h in HEDGES):
            return "request %d: the wrapped service answered Ok, the request ended with code %d" % (q, c)
        failed_before = failed_before or c != 0
    return None


def mon_protocol(s, t):
    n, ids, k, nreq, orc = parse1(s)
    if len(t) < nreq + 1 or (len(t) - nreq - 1) % 4 != 0:
        return "malformed or panicking run: %s" % t
    codes = t[:nreq]
    log = [tuple(t[nreq + 4 * i: nreq + 4 * i + 4]) for i in range((len(t) - nreq - 1) // 4)]
    m = mon_contract(log, t[-1])
    if m:
        return m
    for j, c in enumerate(codes):
        if c in (4, 7):
            return "request %d: %s" % (j + 1, BAD_CODE[c])
    # requests that got as far as call(), renumbered as the wrapped service saw them
    issued = [(j + 1, c) for j, c in enumerate(codes) if c not in (1, 3)]
    renum = {q: i + 1 for i, (q, _) in enumerate(issued)}
    log2 = [(kind, inst, v, renum.get(q, -q - 1000) if kind == 2 else q) for (kind, inst, v, q) in log]
    m = mon_requests(ids, k, log2, sum(1 for c in codes if c == 1), sum(1 for c in codes if c == 3),
                     [c for (_, c) in issued])
    return m.replace("request ", "issued request ") if m and len(issued) != nreq else m


def mon_program(s, t):
    n, ids, k, ops, segs = parse3(s)
    sp = split3(s, t)
    if sp is None:
        return "malformed or panicking run: %s" % t
    codes, outs, log, viol = sp
    m = mon_contract(log, viol)
    if m:
        return m
    surfaced, never = 0, 0
    for i, (o, c) in enumerate(zip(ops, codes)):
        if o[0] in (POLL, GATE):
            if c in (4, 7):
                return "operation %d (poll_ready): %s" % (i + 1, BAD_CODE[c])
            surfaced += c == 1
            never += (c == 3 and o[0] == POLL)
        elif c == 7:
            return "operation %d: panic" % (i + 1)
    return mon_requests(ids, k, log, surfaced, never, list(outs))


def mon_transparent(s, t, base=None):
    n = s[1]
    base = 3 + n if base is None else base
    nreq = s[base]
    if len(t) < 4 * nreq:
        return "malformed or panicking run: %s" % t
    for i in range(nreq):
        req, okind, oval = s[base + 1 + 3 * i: base + 4 + 3 * i]
        ncalls, seen, kind, payload = t[4 * i: 4 * i + 4]
        if kind > 1:
            return "request %d: the outcome is not the inner outcome in pass-through wrapping (kind %d, payload %d)" % (i + 1, kind, payload)
        if ncalls != 1:
            return "request %d: the wrapped service was called %d times" % (i + 1, ncalls)
        if seen != req:
            return "request %d: the wrapped service saw request %d instead of %d" % (i + 1, seen, req)
        if kind != (0 if okind == 0 else 1) or payload != oval:
            return "request %d: outcome (%d, %d) differs from the inner outcome (%d, %d)" % (i + 1, kind, payload, okind, oval)
    return None


def mon_listeners(s, t):
    nreq = s[4]
    if len(t) != 2 * nreq:
        return "malformed or panicking run: %s" % t
    for i in range(nreq):
        if t[2 * i] != 1:
            return "request %d: outcome changed by panicking listeners (mask %d)" % (i + 1, s[3])
        if t[2 * i + 1] != 1:
            return "request %d: some listener missed or saw extra events (mask %d)" % (i + 1, s[3])
    return None


NK = 6


def mon_listeners_stack(s, t):
    n = s[1]
    nl, mask, nreq = min(4, max(0, s[2 + n])), s[3 + n], s[4 + n]
    if len(t) != 4 * nreq + 2 * n * nl * NK:
        return "malformed or panicking run: %s" % t
    m = mon_transparent(s, t, 4 + n)
    if m:
        return m + " (listener panic mask %d)" % mask
    counts = t[4 * nreq: 4 * nreq + n * nl * NK]
    reference = t[4 * nreq + n * nl * NK:]
    for p in range(n):
        vecs = [counts[(p * nl + i) * NK: (p * nl + i + 1) * NK] for i in range(nl)]
        refs = [reference[(p * nl + i) * NK: (p * nl + i + 1) * NK] for i in range(nl)]
        # every listener receives every event it receives when nobody panics (reference run of the same script) ...
        for i in range(nl):
            if vecs[i] != refs[i]:
                return ("layer %d: listener %d received %s events per kind, %s in the run without panicking "
                        "listeners (mask %d)" % (p, i, vecs[i], refs[i], mask))
        # ... and every event its fellow listeners receive (reconnect: one callback per kind)
        if s[2 + p] in RECONNECTS:
            continue
        for i in range(1, nl):
            if vecs[i] != vecs[0]:
                return ("layer %d: listener %d received %s events per kind, listener 0 received %s (mask %d)"
                        % (p, i, vecs[i], vecs[0], mask))
    return None


def monitor(s, t):
    """independent restatement of the property over the implementation's trace"""
    if not s:
        return None
    if s[0] == 1:
        return mon_protocol(s, t)
    if s[0] == 3:
        return mon_program(s, t)
    if s[0] == 0:
        return mon_transparent(s, t)
    if s[0] == 4:
        return mon_listeners_stack(s, t)
    return mon_listeners(s, t)


def nontrivial(s, t):
    if s[0] == 1:
        n, ids, k, nreq, orc = parse1(s)
        return k > 0 or any(x != 0 for x in orc)
    if s[0] == 3:
        n, ids, k, ops, segs = parse3(s)
        return (any(o[0] in (CLONE, LAZY, GATE) or (o[0] == CALL and o[2] == 1) for o in ops)
                or any(x != 0 for sg in segs for x in sg) or any(i in (21, 22, 23) for i in ids))
    if s[0] == 0:
        n = s[1]
        return n >= 2 or s[2 + n] != 0
    if s[0] == 4:
        return s[3 + s[1]] != 0
    return s[3] != 0


def name_of(i):
    return NAMES[i] if 0 <= i < len(NAMES) else "?"


def classify(s, t):
    if s[0] == 1:
        n, ids, k, nreq, orc = parse1(s)
        lab = ["mode1", "depth%d" % n, "k%d" % k] + ["L:" + name_of(i) for i in sorted(set(ids))]
        if 1 in orc:
            lab.append("oracle:pending")
        if any(x not in (0, 1) for x in orc):
            lab.append("oracle:err")
        if k > 0 and len([i for i in ids if i in SPECIAL]) > 1:
            lab.append("two-retrying-layers")
        _, emask, f = kdec(kfield(s))
        if emask:
            lab.append("application-error")
        if f:
            lab.append("failing-calls-override")
        for c in t[:nreq]:
            lab.append("code%d" % c)
        return sorted(set(lab))
    if s[0] == 3:
        n, ids, k, ops, segs = parse3(s)
        lab = ["mode3", "depth%d" % n, "k%d" % k] + ["L:" + name_of(i) for i in sorted(set(ids))]
        kinds = set(o[0] for o in ops)
        for (c, nm) in ((CLONE, "clone"), (RELEASE, "release"), (GATE, "gate-closed-poll"), (LAZY, "unpolled-future")):
            if c in kinds:
                lab.append("op:" + nm)
        if any(o[0] == CALL and o[2] == 1 for o in ops):
            lab.append("op:held-call")
        flat = [x for sg in segs for x in sg]
        if 1 in flat:
            lab.append("oracle:pending")
        if 2 in flat:
            lab.append("oracle:err")
        sp = split3(s, t)
        if sp:
            for c in sp[1]:
                lab.append("code%d" % c)
            for (o, c) in zip(ops, sp[0]):
                if o[0] == POLL and c != 0:
                    lab.append("poll-code%d" % c)
                if c == 8:
                    lab.append("refused")
        return sorted(set(lab))
    if s[0] in (0, 4):
        n = s[1]
        ids = s[2:2 + n]
        base = 3 + n if s[0] == 0 else 4 + n
        nreq = s[base]
        lab = ["mode%d" % s[0], "depth%d" % n] + ["L:" + name_of(i) for i in sorted(set(ids))]
        if s[0] == 0:
            lab.append("inner%d" % s[2 + n])
        else:
            lab += ["listeners%d" % s[2 + n], "panicking%d" % bin(s[3 + n] & 15).count("1")]
            if s[3 + n] >= 16:
                lab.append("payload-drop-panics")
            if s[3 + n] >= 256:
                lab.append("nested-payload")
        kinds = set(s[base + 2 + 3 * i] for i in range(nreq))
        lab += ["inner_ok" if x == 0 else "inner_err" for x in kinds]
        return sorted(set(lab))
    lab = ["mode2", "L:" + name_of(s[1]), "listeners%d" % s[2], "panicking%d" % bin(s[3] & 15).count("1")]
    if s[3] >= 16:
        lab.append("payload-drop-panics")
    return lab


def shrink(s):
    """smaller candidate scripts"""
    if s[0] == 1:
        n, ids, k, nreq, orc = parse1(s)
        K = kfield(s)
        _, emask, f = kdec(K)
        for i in range(len(orc)):
            yield proto(ids, K, nreq, orc[:i] + orc[i + 1:])
        for i in range(len(orc)):
            if orc[i] != 0:
                yield proto(ids, K, nreq, orc[:i] + [0] + orc[i + 1:])
        if nreq > 1:
            yield proto(ids, K, nreq - 1, orc)
        if k > 0:
            yield proto(ids, K - 1, nreq, orc)
        if emask:
            yield proto(ids, kf(k, 0, None if f == 0 else f - 1), nreq, orc)
        if f:
            yield proto(ids, kf(k, emask), nreq, orc)
        if n > 1:
            for i in range(n):
                yield proto(ids[:i] + ids[i + 1:], K, nreq, orc)
    elif s[0] == 3:
        n, ids, k, ops, segs = parse3(s)
        K = kfield(s)
        for i in range(len(segs)):
            if segs[i]:
                yield prog(ids, K, ops, segs[:i] + [[]] + segs[i + 1:])
        if segs and not segs[-1]:
            yield prog(ids, K, ops, segs[:-1])
        for i in range(len(ops) - 1, -1, -1):
            yield prog(ids, K, ops[:i] + ops[i + 1:], segs)
        if k > 0:
            yield prog(ids, K - 1, ops, segs)
        if K >= 16:
            yield prog(ids, k, ops, segs)
        if n > 1:
            for i in range(n):
                yield prog(ids[:i] + ids[i + 1:], K, ops, segs)
    elif s[0] in (0, 4):
        n = s[1]
        ids = list(s[2:2 + n])
        base = 3 + n if s[0] == 0 else 4 + n
        nreq = s[base]
        reqs = [tuple(s[base + 1 + 3 * i: base + 4 + 3 * i]) for i in range(nreq)]
        if s[0] == 0:
            mk = lambda ids_, reqs_, ik=s[2 + n]: transp(ids_, ik, reqs_)
        else:
            mk = lambda ids_, reqs_: lis4(ids_, s[2 + n], s[3 + n], reqs_)
        for i in range(nreq):
            yield mk(ids, reqs[:i] + reqs[i + 1:])
        if n > 1:
            for i in range(n):
                yield mk(ids[:i] + ids[i + 1:], reqs)
        if s[0] == 0 and s[2 + n] != 0:
            yield transp(ids, 0, reqs)
        if s[0] == 4:
            nl, mask = s[2 + n], s[3 + n]
            for b in range(nl):
                if mask >> b & 1 and mask != 1 << b:
                    yield lis4(ids, nl, mask & ~(1 << b), reqs)
            if nl > 1 and mask < (1 << (nl - 1)):
                yield lis4(ids, nl - 1, mask, reqs)
        for i, (r, o, v) in enumerate(reqs):
            if (r, v) != (1, 2):
                yield mk(ids, reqs[:i] + [(1, o, 2)] + reqs[i + 1:])
    else:
        lid, nl, mask, nreq = s[1:5]
        oks = list(s[5:5 + nreq])
        for i in range(nreq):
            yield lis(lid, nl, mask, oks[:i] + oks[i + 1:])
        for b in range(nl):
            if mask >> b & 1 and mask != 1 << b:
                yield lis(lid, nl, mask & ~(1 << b), oks)
        if nl > 1 and mask < (1 << (nl - 1)):
            yield lis(lid, nl - 1, mask, oks)
