"""C20 layers are transparent, honour Tower readiness; listeners only observe:
generator, model-input translation, independent monitor."""
PROP = "C20"
DRIVER = "c20"
MODEL = "C20"
MODEL_QUALID = "Model.Layers.run_script"
FORMAT = (
    "first integer = mode. Real layer ids: 0 bulkhead 1 ratelimiter 2 circuitbreaker 3 retry 4 timelimiter "
    "5 cache 6 fallback 7 hedge 8 reconnect 9 adaptive 10 coalesce 11 executor 12 chaos(rates 0) "
    "13 circuitbreaker.with_fallback 14 timelimiter(cancel_running_future=false) 15 retry with zero backoff "
    "16 circuitbreaker that has been OPEN (force_open() at construction, wait_duration_in_open 5 ms, the harness "
    "advances 6 ms before the first request: the first call reaching the breaker is the half-open trial call, a "
    "successful trial closes it) 17 the same for with_fallback 18 circuitbreaker that is Open at every client "
    "poll_ready and is force_closed() between the client's poll_ready and call (force_open() again after the "
    "request) 19 the same for with_fallback using reset(). "
    "mode 1 (readiness protocol, strict contract-checking wrapped service): [1; n; layer ids outermost first; k "
    "(extra attempts of retry/hedge/reconnect); nreq; oracle of the wrapped poll_ready: 0 Ready 1 Pending 2 Err...] "
    "-> per request 0 called / 1 readiness error at poll_ready / 2 readiness error inside the call / 3 never ready, "
    "then the wrapped service's log, instances renamed by first use: [1; inst; r] poll, [2; inst; was-ready] call, "
    "then [violations]. The model sees the discipline code of each layer instead of its id (model_input): "
    "0 Swap 1 Direct 2 Retry 3 Hedge 4 Reconnect. "
    "mode 0 (transparency): [0; n; layer ids; inner kind 0 direct / 1 tower Buffer / 2 tower ConcurrencyLimit(2); nreq; "
    "(req; okind 0 Ok 1 Err; oval)*] -> per request [inner calls; request seen by the wrapped service; 0 Ok / "
    "1 inner error wrapped only in pass-through variants / 2 anything else; payload]. "
    "mode 2 (listeners): [2; layer id; nlisteners; panic mask; nreq; okind* (0 ok 1 error 2 transient-then-ok "
    "3 slow 4 transient)] -> per request [outcome equals the run with well-behaved listeners; every listener "
    "counted exactly the events the reference listeners counted]"
)
RULE = (
    "mode 1: every layer alone x k 0..3 x 1..2(3) requests x a Pending, an Err, Pending+Pending/Err at every poll "
    "position including the polls before extra attempts; random oracles; stacks of 2..4 layers (k = 0, and k > 0 "
    "with exactly one retry/hedge/reconnect layer); the guide's stacks. mode 0: every layer x inner kinds x ok/err, "
    "random stacks of 2..5 layers, the composition guide's stacks. mode 2: every layer with a listener API x 1..4 "
    "listeners x every panic mask. thorough adds all oracles over {Ready,Pending,Err} up to length 4 per layer and "
    "all two-layer stacks. Circuit breakers that have been OPEN (ids 16..19, both Service impls): alone and at every "
    "depth of random stacks in modes 1 and 0 (all inner kinds), so that the half-open trial call and the call after "
    "force_closed()/reset() are checked against the strict service, Buffer and ConcurrencyLimit. Non-trivial = some Pending/Err or k > 0 (mode 1), depth >= 2 or Buffer/ConcurrencyLimit "
    "(mode 0), some listener panics (mode 2)"
)
TRUSTED = [
    "harness/src/bin/c20.rs: the strict wrapped service (per-instance ready flag, shared oracle), the scripted "
    "wrapped service, the client loop (poll_ready until Ready on one long-lived instance, then call)",
    "each layer sits under tower::util::MapErr + tower::util::BoxCloneService (uniform error/type for run-time "
    "stacks); both forward poll_ready/call to the instance they hold",
    "the layer -> discipline table DISC below (read off each crate's call())",
    "reconnect (callbacks exist only behind the `tracing` feature), adaptive, coalesce and executor have no "
    "listener API: mode 2 answers [1; 1] for them without running anything",
    "mode 2 uses triggering configurations (small breaker window, rate limit 2, cache of 2, 20 ms time limit, "
    "10 ms hedge delay, chaos error rate 0.5 with a fixed seed) so that every event kind is emitted",
]
ASSUMPTIONS = [
    "requests are issued one at a time by a client that respects the contract on the top layer",
    "hedge: Pending answers are only scripted where no hedge tasks run (k = 0 or top-level polls before them): "
    "the real hedge tasks interleave round-robin, the model runs them one after the other",
    "hedge treats every primary error as its trigger (it waits for the hedge and reports AllAttemptsFailed, never "
    "HedgeError::Inner): transparency scripts containing hedge use Ok inner outcomes only",
    "a breaker that starts Open (16/17) is scripted so that its half-open trial call succeeds (mode 0: first inner "
    "outcome Ok; mode 1: no retrying layer above it when k > 0), otherwise it re-opens and rejects, which is not a "
    "non-triggering configuration",
    "retry / hedge / reconnect with k > 0 are scripted in stacks only when they are the single such layer (the "
    "wrapped service fails exactly the first k attempts of a request); below a hedge with k > 0 no layer that "
    "spawns a task (executor, non-cancelling time limiter)",
]

NAMES = ["bulkhead", "ratelimiter", "circuitbreaker", "retry", "timelimiter", "cache", "fallback", "hedge",
         "reconnect", "adaptive", "coalesce", "executor", "chaos", "cb_with_fallback", "timelimiter_nocancel",
         "retry_zero_backoff", "cb_was_open", "cb_fallback_was_open", "cb_closed_between_poll_and_call",
         "cb_fallback_reset_between_poll_and_call"]
# the layers that can go anywhere; 16/17 (breaker that starts Open) need their half-open trial call to
# succeed and are generated separately (OPENED)
ALL = list(range(16)) + [18, 19]
OPENED = (16, 17)
CB_VARIANTS = (16, 17, 18, 19)
# discipline codes of Model/Layers.v: 0 Swap 1 Direct 2 Retry 3 Hedge 4 Reconnect
DISC = {0: 0, 1: 0, 2: 0, 3: 2, 4: 0, 5: 1, 6: 0, 7: 3, 8: 4, 9: 1, 10: 1, 11: 0, 12: 0, 13: 0, 14: 0, 15: 2,
        16: 0, 17: 0, 18: 0, 19: 0}
SPECIAL = (3, 7, 8, 15)
LISTENER_LAYERS = [0, 1, 2, 3, 4, 5, 6, 7, 12, 13, 14, 15]
NO_LISTENER_LAYERS = [8, 9, 10, 11]

# the composition guide's stacks (crates/tower-resilience/src/composition.rs, tower_primer.rs), outermost first
GUIDE = [
    [4, 3], [4, 3, 2, 4], [6, 4, 3, 2, 4], [4, 3, 2, 7, 4], [4, 3, 0], [4, 2, 0], [4, 3, 2], [4, 9, 3], [4, 7],
    [6, 4, 2], [4, 10, 2], [6, 5, 4, 2, 3, 4], [1, 0, 4], [2, 3], [3, 2], [6, 2], [3, 4], [0, 1],
    [6, 4, 2, 3, 8], [5, 2, 4], [5, 2, 3], [5, 3, 4],
]


def proto(ids, k, nreq, orc):
    return [1, len(ids)] + list(ids) + [k, nreq] + list(orc)


def transp(ids, ik, reqs):
    out = [0, len(ids)] + list(ids) + [ik, len(reqs)]
    for r in reqs:
        out += list(r)
    return out


def lis(lid, nl, mask, okinds):
    return [2, lid, nl, mask, len(okinds)] + list(okinds)


def corpus():
    out = []
    for st in GUIDE:
        hedge = 7 in st
        for ik in (0, 1, 2):
            out.append(transp(st, ik, [(5, 0, 11), (6, 0 if hedge else 1, 12), (5, 0, 13)]))
        out.append(proto(st, 0, 2, [1, 0, 2, 1, 1, 0]))
        out.append(proto(st, 0, 3, [0, 2, 0]))
    # the upstream defect: a layer calling a fresh clone instead of the instance it polled ready
    for lid in ALL:
        out.append(transp([lid], 2, [(1, 0, 2)]))
        out.append(transp([lid], 1, [(1, 0, 2)]))
        out.append(proto([lid], 1 if lid in SPECIAL else 0, 2, []))
    out.append(lis(2, 3, 5, [0, 1, 1, 1, 0, 0]))
    out.append(lis(3, 2, 3, [2, 1, 4, 0]))
    # a breaker that has been open: the half-open trial call / the call after force_closed() or reset()
    # must go to an instance that was polled ready although the breaker read Open at poll_ready
    for lid in CB_VARIANTS:
        out.append(proto([lid], 0, 1, []))
        out.append(proto([lid], 0, 3, [1, 0, 2, 0]))
        for ik in (0, 1, 2):
            out.append(transp([lid], ik, [(1, 0, 2)]))
            out.append(transp([lid], ik, [(5, 0, 11), (6, 1, 12), (5, 0, 13)]))
    for st in ([4, 3, 16, 4], [6, 4, 3, 17, 4], [6, 4, 16], [4, 10, 17], [16, 3], [5, 16, 4], [4, 18, 0], [6, 19]):
        out.append(proto(st, 0, 2, [1, 0, 0]))
        for ik in (0, 1, 2):
            out.append(transp(st, ik, [(5, 0, 11), (6, 1, 12)]))
    return out


def n_polls(ids, k, nreq):
    sp = [i for i in ids if i in SPECIAL]
    return nreq * (1 + (k if sp else 0))


def single_layer_oracles(lid, k, nreq, rich):
    """a Pending / an Err / Pending then Pending|Err at every poll position"""
    np_ = n_polls([lid], k, nreq)
    hedge_tasks = lid == 7 and k > 0
    yield []
    for p in range(np_):
        for x in (1, 2):
            if hedge_tasks and x == 1:
                continue
            yield [0] * p + [x]
            if not hedge_tasks:
                yield [0] * p + [1, x]
        if rich:
            for q in range(p + 1, np_ + 1):
                for x in (1, 2):
                    for y in (1, 2):
                        if hedge_tasks and 1 in (x, y):
                            continue
                        yield [0] * p + [x] + [0] * (q - p - 1) + [y]


def rand_oracle(rng, length, allow_pending=True):
    out, run = [], 0
    for _ in range(length):
        r = rng.random()
        x = 0 if r < 0.5 else (1 if r < 0.8 else 2)
        if x == 1 and (not allow_pending or run >= 5):
            x = 0
        run = run + 1 if x == 1 else 0
        out.append(x)
    return out


def rand_reqs(rng, n, ok_only):
    return [(rng.randrange(-50, 50), 0 if ok_only else rng.randrange(2), rng.randrange(-1000, 1000)) for _ in range(n)]


def rand_stack(rng, lo, hi):
    return [rng.choice(ALL) for _ in range(rng.randrange(lo, hi + 1))]


def generate(rng, tier):
    quick = tier == "quick"
    out = []
    # ---- mode 1: every layer alone
    for lid in ALL:
        ks = (0, 1, 2, 3) if lid in SPECIAL else (0, 2)
        for k in ks:
            for nreq in ((1, 2) if quick else (1, 2, 3)):
                for orc in single_layer_oracles(lid, k, nreq, not quick and nreq <= 2):
                    out.append(proto([lid], k, nreq, orc))
    for _ in range(300 if quick else 6000):
        lid = rng.choice(ALL)
        k = rng.randrange(4) if lid in SPECIAL else rng.choice((0, 0, 1, 3))
        nreq = rng.randrange(1, 4)
        np_ = n_polls([lid], k, nreq)
        out.append(proto([lid], k, nreq, rand_oracle(rng, rng.randrange(0, np_ + 3), not (lid == 7 and k > 0))))
    if not quick:
        # all oracles up to length 4
        def alls(length):
            if length == 0:
                yield []
                return
            for r in alls(length - 1):
                for x in (0, 1, 2):
                    yield r + [x]
        for lid in ALL:
            for k in ((0, 1, 2) if lid in SPECIAL else (0,)):
                for nreq in (1, 2):
                    for length in range(1, 5):
                        for orc in alls(length):
                            if lid == 7 and k > 0 and 1 in orc:
                                continue
                            out.append(proto([lid], k, nreq, orc))
    # ---- mode 1: stacks, k = 0
    for _ in range(350 if quick else 6000):
        st = rand_stack(rng, 2, 4)
        nreq = rng.randrange(1, 4)
        out.append(proto(st, 0, nreq, rand_oracle(rng, rng.randrange(0, nreq + 4))))
    for st in GUIDE:
        for _ in range(3 if quick else 30):
            nreq = rng.randrange(1, 4)
            out.append(proto(st, 0, nreq, rand_oracle(rng, rng.randrange(0, nreq + 4))))
    # ---- mode 1: stacks with exactly one retry / reconnect layer and k > 0
    # (the wrapped service fails the first k attempts of a request, so a second retrying layer
    # would see successes where the model assumes k failures)
    plain = [i for i in ALL if i not in SPECIAL]
    for _ in range(250 if quick else 5000):
        st = [rng.choice(plain) for _ in range(rng.randrange(1, 4))]
        st.insert(rng.randrange(len(st) + 1), rng.choice((3, 8)))
        k = rng.randrange(1, 4)
        nreq = rng.randrange(1, 3)
        out.append(proto(st, k, nreq, rand_oracle(rng, rng.randrange(0, nreq * (k + 1) + 2))))
    # ---- mode 1: stacks around a hedge with k > 0: no task-spawning layer (executor, non-cancelling
    # time limiter) below the hedge, Ready/Err answers only, so that the hedge tasks run one after the other
    below_ok = [i for i in plain if i not in (11, 14)]
    for _ in range(150 if quick else 3000):
        above = [rng.choice(plain) for _ in range(rng.randrange(0, 3))]
        below = [rng.choice(below_ok) for _ in range(rng.randrange(0 if above else 1, 3))]
        k = rng.randrange(1, 4)
        nreq = rng.randrange(1, 3)
        out.append(proto(above + [7] + below, k, nreq, rand_oracle(rng, rng.randrange(0, nreq * (k + 1) + 2), False)))
    if not quick:
        for a in ALL:
            for b in ALL:
                for orc in ([], [1, 0, 2], [0, 2, 1, 0], [2, 0, 1, 1, 0]):
                    out.append(proto([a, b], 0, 2, orc))
    # ---- mode 1: a breaker that starts Open (16 / 17): alone, and at every depth of a stack. k = 0, or
    # k > 0 with the one retrying layer BELOW the breaker (the trial call has to succeed)
    for lid in OPENED:
        for nreq in (1, 2, 3):
            for orc in single_layer_oracles(lid, 0, nreq, not quick):
                out.append(proto([lid], 0, nreq, orc))
    for _ in range(60 if quick else 1500):
        base = [rng.choice(ALL) for _ in range(rng.randrange(1, 4))]
        nreq = rng.randrange(1, 4)
        for pos in range(len(base) + 1):
            st = base[:pos] + [rng.choice(OPENED)] + base[pos:]
            out.append(proto(st, 0, nreq, rand_oracle(rng, rng.randrange(0, nreq + 3))))
    for _ in range(80 if quick else 1500):
        above = [rng.choice(plain) for _ in range(rng.randrange(0, 2))]
        mid = [rng.choice(plain) for _ in range(rng.randrange(0, 2))]
        below = [rng.choice(plain) for _ in range(rng.randrange(0, 2))]
        k = rng.randrange(1, 4)
        nreq = rng.randrange(1, 3)
        st = above + [rng.choice(OPENED)] + mid + [rng.choice((3, 8, 15))] + below
        # no readiness error until the trial call (request 1 with its k further attempts) is through:
        # a trial ending in an error re-opens the breaker
        orc, answered = [], 0
        while answered < k + 1:
            x = 1 if rng.random() < 0.25 and orc[-3:] != [1, 1, 1] else 0
            orc.append(x)
            answered += x == 0
        out.append(proto(st, k, nreq, orc + rand_oracle(rng, rng.randrange(0, (nreq - 1) * (k + 1) + 2))))
    # ---- mode 0: the same breakers; the first request is the trial call and succeeds
    def first_ok(reqs):
        return [(reqs[0][0], 0, reqs[0][2])] + list(reqs[1:])
    for lid in OPENED:
        for ik in (0, 1, 2):
            for reqs in ([(5, 0, 11)], [(5, 0, 11), (6, 1, 12), (5, 0, 13), (5, 1, 11)]):
                out.append(transp([lid], ik, reqs))
            for _ in range(2 if quick else 20):
                out.append(transp([lid], ik, first_ok(rand_reqs(rng, rng.randrange(1, 5), False))))
    for _ in range(60 if quick else 1500):
        base = [rng.choice(ALL) for _ in range(rng.randrange(1, 5))]
        for pos in range(len(base) + 1):
            st = base[:pos] + [rng.choice(OPENED)] + base[pos:]
            out.append(transp(st, rng.randrange(3), first_ok(rand_reqs(rng, rng.randrange(1, 4), 7 in st))))
    # ---- mode 0: every layer alone
    for lid in ALL:
        for ik in (0, 1, 2):
            pats = [[(5, 0, 11)], [(5, 0, 11), (6, 0, 12), (5, 0, 13)]]
            if lid != 7:
                pats += [[(6, 1, 12)], [(5, 0, 11), (6, 1, 12), (5, 0, 13), (5, 1, 11), (7, 1, 0)]]
            for reqs in pats:
                out.append(transp([lid], ik, reqs))
            for _ in range(2 if quick else 20):
                out.append(transp([lid], ik, rand_reqs(rng, rng.randrange(1, 5), lid == 7)))
    # ---- mode 0: stacks
    for _ in range(450 if quick else 8000):
        st = rand_stack(rng, 2, 5)
        out.append(transp(st, rng.randrange(3), rand_reqs(rng, rng.randrange(1, 4), 7 in st)))
    for st in GUIDE:
        for ik in (0, 1, 2):
            for _ in range(2 if quick else 20):
                out.append(transp(st, ik, rand_reqs(rng, rng.randrange(1, 5), 7 in st)))
    if not quick:
        for a in ALL:
            for b in ALL:
                for ik in (0, 1, 2):
                    hedge = 7 in (a, b)
                    out.append(transp([a, b], ik, [(3, 0, 4), (5, 0 if hedge else 1, 6)]))
    # ---- mode 2: every layer with listeners x all panic masks
    seq_a = [0, 1, 0, 2, 3, 1, 1, 0]
    for lid in LISTENER_LAYERS:
        for nl in (1, 2, 3, 4):
            for mask in range(1 << nl):
                out.append(lis(lid, nl, mask, seq_a))
                for _ in range(0 if quick else 6):
                    out.append(lis(lid, nl, mask, [rng.randrange(5) for _ in range(rng.randrange(1, 9))]))
    for _ in range(150 if quick else 1500):
        lid = rng.choice(LISTENER_LAYERS)
        nl = rng.randrange(1, 5)
        out.append(lis(lid, nl, rng.randrange(1, 1 << nl), [rng.randrange(5) for _ in range(rng.randrange(1, 9))]))
    for lid in NO_LISTENER_LAYERS:
        out.append(lis(lid, 2, 3, [0, 1, 0]))
    return out


# ----------------------------------------------------------------------------
def parse1(s):
    n = s[1] if len(s) > 1 else 0
    ids = list(s[2:2 + n])
    k = s[2 + n] if len(s) > 2 + n else 0
    nreq = s[3 + n] if len(s) > 3 + n else 0
    return n, ids, k, nreq, list(s[4 + n:])


def model_input(s, impl_trace):
    """the model knows disciplines, not crates: rewrite the real layer ids of a mode-1 script into
    the discipline code of each layer"""
    if not s or s[0] != 1:
        return list(s)
    n, ids, k, nreq, orc = parse1(s)
    return [1, n] + [DISC.get(i, 0) for i in ids] + [k, nreq] + orc


def mon_protocol(s, t):
    n, ids, k, nreq, orc = parse1(s)
    if len(t) < nreq + 1 or (len(t) - nreq - 1) % 3 != 0:
        return "malformed or panicking run: %s" % t
    codes = t[:nreq]
    log = [tuple(t[nreq + 3 * i: nreq + 3 * i + 3]) for i in range((len(t) - nreq - 1) // 3)]
    if t[-1] != 0:
        return "%d call(s) reached a wrapped-service instance that had not been polled ready" % t[-1]
    bad = [c for c in codes if c not in (0, 1, 2, 3)]
    if bad:
        return "request ended with a panic or never completed (code %d)" % bad[0]
    # the Tower contract, replayed from the log alone
    ready = {}
    for (kind, inst, v) in log:
        if kind == 1:
            if v == 0:
                ready[inst] = True
        elif kind == 2:
            if not ready.get(inst) or v != 1:
                return "call on instance %d without readiness observed on it since its previous call" % inst
            ready[inst] = False
        else:
            return "malformed log entry %s" % ((kind, inst, v),)
    polls = [v for (kind, _, v) in log if kind == 1]
    exp = [(x if x in (0, 1) else 2) for x in orc]
    exp = (exp + [0] * len(polls))[:len(polls)]
    if polls != exp:
        return "harness: the wrapped service did not answer polls from the oracle in order"
    # request by request: top-level readiness, the call, then the extra attempts
    special = [i for i in ids if i in SPECIAL]
    if k > 0 and len(special) > 1:
        return None      # attempts cannot be attributed to one layer; the checks above still hold
    extra = k if special else 0
    hedge = bool(special) and special[0] == 7
    pos = 0

    def polls_until(pos):
        """(result, instance, next position): result 'ready' | 'err' | 'never' | 'nopoll'"""
        if pos >= len(log) or log[pos][0] != 1:
            return "nopoll", None, pos
        inst, pend = log[pos][1], 0
        while pos < len(log) and log[pos][0] == 1 and log[pos][1] == inst:
            v = log[pos][2]
            pos += 1
            if v == 0:
                return "ready", inst, pos
            if v == 2:
                return "err", inst, pos
            pend += 1
            if pend >= 8:
                return "never", inst, pos
        return "nopoll", inst, pos

    for j, c in enumerate(codes):
        r, inst, pos = polls_until(pos)
        if r == "nopoll":
            return "request %d: the wrapped service was called or left without a completed readiness poll" % (j + 1)
        if r == "never":
            if c != 3:
                return "request %d: never ready, reported as %d" % (j + 1, c)
            continue
        if r == "err":
            if c != 1:
                return "request %d: a readiness error of the wrapped service did not surface from poll_ready (code %d)" % (j + 1, c)
            continue
        if c not in (0, 2):
            return "request %d: ready, but reported code %d" % (j + 1, c)
        if pos >= len(log) or log[pos] != (2, inst, 1):
            return "request %d: the call did not go to the instance that was polled ready" % (j + 1)
        pos += 1
        ended = False
        for _ in range(extra):
            r, inst, pos = polls_until(pos)
            if r == "nopoll":
                return "request %d: a further attempt was not preceded by a readiness poll" % (j + 1)
            if r in ("err", "never"):
                if hedge:
                    continue     # that hedge fails; the others and the primary go on
                if c != 2:
                    return "request %d: readiness error before a further attempt did not end the call as a readiness error" % (j + 1)
                ended = True
                break
            if pos >= len(log) or log[pos] != (2, inst, 1):
                return "request %d: a further attempt did not go to the instance that was polled ready" % (j + 1)
            pos += 1
        if not ended and c != 0:
            return "request %d: reported a readiness error that the wrapped service never returned" % (j + 1)
    if pos != len(log):
        return "polls or calls on the wrapped service that no request accounts for: %s" % (log[pos:],)
    return None


def mon_transparent(s, t):
    n = s[1]
    nreq = s[3 + n]
    if len(t) != 4 * nreq:
        return "malformed or panicking run: %s" % t
    for i in range(nreq):
        req, okind, oval = s[4 + n + 3 * i: 7 + n + 3 * i]
        ncalls, seen, kind, payload = t[4 * i: 4 * i + 4]
        if kind > 1:
            return "request %d: the outcome is not the inner outcome in pass-through wrapping (kind %d, payload %d)" % (i + 1, kind, payload)
        if ncalls != 1:
            return "request %d: the wrapped service was called %d times" % (i + 1, ncalls)
        if seen != req:
            return "request %d: the wrapped service saw request %d instead of %d" % (i + 1, seen, req)
        if kind != (0 if okind == 0 else 1) or payload != oval:
            return "request %d: outcome (%d, %d) differs from the inner outcome (%d, %d)" % (i + 1, kind, payload, okind, oval)
    return None


def mon_listeners(s, t):
    nreq = s[4]
    if len(t) != 2 * nreq:
        return "malformed or panicking run: %s" % t
    for i in range(nreq):
        if t[2 * i] != 1:
            return "request %d: outcome changed by panicking listeners (mask %d)" % (i + 1, s[3])
        if t[2 * i + 1] != 1:
            return "request %d: some listener missed or saw extra events (mask %d)" % (i + 1, s[3])
    return None


def monitor(s, t):
    """independent restatement of the property over the implementation's trace"""
    if not s:
        return None
    if s[0] == 1:
        return mon_protocol(s, t)
    if s[0] == 0:
        return mon_transparent(s, t)
    return mon_listeners(s, t)


def nontrivial(s, t):
    if s[0] == 1:
        n, ids, k, nreq, orc = parse1(s)
        return k > 0 or any(x != 0 for x in orc)
    if s[0] == 0:
        n = s[1]
        return n >= 2 or s[2 + n] != 0
    return s[3] != 0


def classify(s, t):
    if s[0] == 1:
        n, ids, k, nreq, orc = parse1(s)
        lab = ["mode1", "depth%d" % n, "k%d" % k] + ["L:" + NAMES[i] for i in sorted(set(ids)) if 0 <= i < len(NAMES)]
        if 1 in orc:
            lab.append("oracle:pending")
        if any(x not in (0, 1) for x in orc):
            lab.append("oracle:err")
        for c in t[:nreq]:
            lab.append("code%d" % c)
        return sorted(set(lab))
    if s[0] == 0:
        n = s[1]
        ids = s[2:2 + n]
        nreq = s[3 + n]
        lab = ["mode0", "depth%d" % n, "inner%d" % s[2 + n]] + ["L:" + NAMES[i] for i in sorted(set(ids)) if 0 <= i < len(NAMES)]
        kinds = set(s[5 + n + 3 * i] for i in range(nreq))
        lab += ["inner_ok" if x == 0 else "inner_err" for x in kinds]
        return sorted(set(lab))
    lab = ["mode2", "L:" + NAMES[s[1]] if 0 <= s[1] < len(NAMES) else "L:?", "listeners%d" % s[2],
           "panicking%d" % bin(s[3]).count("1")]
    return lab


def shrink(s):
    """smaller candidate scripts"""
    if s[0] == 1:
        n, ids, k, nreq, orc = parse1(s)
        for i in range(len(orc)):
            yield proto(ids, k, nreq, orc[:i] + orc[i + 1:])
        for i in range(len(orc)):
            if orc[i] != 0:
                yield proto(ids, k, nreq, orc[:i] + [0] + orc[i + 1:])
        if nreq > 1:
            yield proto(ids, k, nreq - 1, orc)
        if k > 0:
            yield proto(ids, k - 1, nreq, orc)
        if n > 1:
            for i in range(n):
                yield proto(ids[:i] + ids[i + 1:], k, nreq, orc)
    elif s[0] == 0:
        n = s[1]
        ids = list(s[2:2 + n])
        ik, nreq = s[2 + n], s[3 + n]
        reqs = [tuple(s[4 + n + 3 * i: 7 + n + 3 * i]) for i in range(nreq)]
        for i in range(nreq):
            yield transp(ids, ik, reqs[:i] + reqs[i + 1:])
        if n > 1:
            for i in range(n):
                yield transp(ids[:i] + ids[i + 1:], ik, reqs)
        if ik != 0:
            yield transp(ids, 0, reqs)
        for i, (r, o, v) in enumerate(reqs):
            if (r, v) != (1, 2):
                yield transp(ids, ik, reqs[:i] + [(1, o, 2)] + reqs[i + 1:])
    else:
        lid, nl, mask, nreq = s[1:5]
        oks = list(s[5:5 + nreq])
        for i in range(nreq):
            yield lis(lid, nl, mask, oks[:i] + oks[i + 1:])
        for b in range(nl):
            if mask >> b & 1 and mask != 1 << b:
                yield lis(lid, nl, mask & ~(1 << b), oks)
        if nl > 1 and mask < (1 << (nl - 1)):
            yield lis(lid, nl - 1, mask, oks)
