"""C18 health check wrapper + selection: generator, independent monitor.

The monitor states the property and nothing more (see `monitor`); everything else the code does - the two
consecutive-result counters, which eligible resource FirstAvailable/PreferHealthy/a custom selector returns,
the order in which round robin walks the eligible set, the tick schedule - is pinned only by the comparison
of the implementation's trace with the model's."""
PROP = "C18"
DRIVER = "c18"
MODEL = "C18"
MODEL_QUALID = "Model.Health.run_script"
FORMAT = ("script [n_res; failure_threshold; success_threshold; interval_ms; timeout_ms; initial_delay_ms; "
          "strategy + 16*route (strategy 0 FirstAvailable/1 RoundRobin/2 PreferHealthy/3 Custom last-healthy/4 Custom "
          "Some(1)/5 Custom None/6 Random (crate feature random); route 0 wrapper setters/1 HealthCheckConfig::builder()+with_config/2 with_config(decoy) "
          "then setters/3 setters(decoy) then with_config; + 64 the registered on_check_failed panics, + 128 the registered "
          "on_health_change panics, + 256 with a payload whose destructor panics (routes 1-3)); "
          "R; n_ev; (answer 0 Healthy/1 Degraded/2 Unhealthy/3 Unknown, delay_ms)*R per resource (k-th check of the "
          "resource; delay > timeout = timed out); (op, arg)*n_ev: op 0 advance arg ms then observe, op 1 get_healthy "
          "x arg, op 2 get_usable x arg] -> trace [per op 0: per resource status (+100/+200: get_status / "
          "get_all_statuses disagree with get_health_details; +400/+800: the on_health_change / on_check_failed "
          "callbacks of the tracing feature do not replay to that status / to the timed-out checks), consecutive_failures, "
          "consecutive_successes, checks started, checks finished; per op 1/2: selected resource id or -1 per call]")
RULE = ("random: 0-8 resources, thresholds 1-12 (rarely 0; large ones 255/256/257/300/65536/2^32-1 with streaks that "
        "must not flip and 300-check streaks that must), all four configuration routes, intervals 1-12 ms incl. shorter "
        "than slow checks (missed ticks), timeouts 0-8 ms, huge interval/timeout/initial delay, delays hitting the "
        "timeout exactly and exceeding it, long alternating / streaky / unknown-laden answer sequences, streaks of "
        "exactly threshold-1 / threshold / threshold+1, all strategies incl. custom selectors, selections interleaved "
        "with status changes, k*n round-robin bursts, get_healthy/get_usable alternating (one cursor per accessor), "
        "round-robin runs of 255-260, 1000 and 65535-65540 calls through one accessor (cursor beyond a byte / 16 bits), "
        "the Random strategy, scripts observed after every millisecond (one check result per observation), panicking "
        "tracing callbacks (on_check_failed also with a Drop-panicking payload); "
        "thorough adds an exhaustive sweep of short answer sequences; "
        "non-trivial = some published status flipped away from Unknown and back across a threshold")
TRUSTED = ["for strategy 6 (Random) the model's pick is not compared: `compare` demands the same observations and the same "
           "None / Some pattern, the monitor that every pick is eligible (the RNG is not modelled)",
           "the scripted HealthChecker in harness/src/bin/c18.rs (answers after sleeping delay_ms; counts started/finished checks)",
           "custom selector closures mirrored by hand in Model/Health.v strategy_of and harness/src/bin/c18.rs"]
ASSUMPTIONS = ["interval >= 1 ms (tokio::time::interval panics on a zero period inside the spawned task; Props: C18_fuel_suffices)",
               "fewer than 2^64 checks per resource (u64 counters) ; the round-robin cursor wraps at 2^64 as AtomicUsize does",
               "one start() per wrapper; stop()/restart are not exercised; the checker does not panic",
               "whole-millisecond durations (tokio timer granularity); thresholds fit u32",
               "get_healthy/get_usable run on the single-threaded runtime: the two status reads inside one call "
               "(filter, then select) see the same statuses"]
# scripts on which the REAL code violates the property (none known; the former entry - on_health_change panicking with
# a Drop-panicking payload killed the check loop - is fixed by /repo af6dd4c and is now a corpus reproducer)
KNOWN_DEFECT = []
CB_FLAGS = [1, 2, 3, 5, 6, 7]   # 1 on_check_failed panics, 2 on_health_change panics, 4 with a Drop-panicking payload
# Clause (p) is NOT in the property text; it is the premise of its quantifier ("over many check intervals"): once the
# initial delay is over, every resource finishes another check within 2*interval + (n+1)*timeout + 16 ms (generous:
# it also holds if the checks of a round ran one after the other or ticks were delayed instead of skipped). Without it a
# check loop that died (seeded/C18-r5b) fails no clause - the flip clauses speak about finished checks - and the verdict
# would be no-failing-input-found. Set to False to state the text only.
PROGRESS_CLAUSE = True
# The flip conditions are read as necessary AND sufficient (a failure completing failure_threshold consecutive
# failures DOES publish Unhealthy, a Healthy check completing success_threshold non-failing checks DOES publish
# Healthy). Set to False to demand only the "only after / only on" direction: a flip whose condition holds may then
# also be withheld (e.g. an implementation that wants success_threshold *Healthy* results) without a monitor failure.
SUFFICIENT_FLIPS = True

H, D, U, K = 0, 1, 2, 3
U32 = 2 ** 32 - 1
BIG = 10 ** 12          # "huge" duration in ms (about 31 years): never elapses in a script


def mk(n, f, s, interval, timeout, init, strat, tables, evs, route=0, cb=0):
    r = max([len(t) for t in tables] + [0])
    out = [n, f, s, interval, timeout, init, strat + 16 * route + 64 * (cb if route else 0), r, len(evs)]
    for t in tables:
        t = list(t) + [(H, 0)] * (r - len(t))
        for (a, d) in t:
            out += [a, d]
    for (op, arg) in evs:
        out += [op, arg]
    return out


def corpus():
    out = [
        mk(2, 2, 2, 10, 5, 3, 1, [[(H, 0), (U, 0), (U, 0), (H, 0)], [(D, 2), (H, 9), (K, 0), (H, 0)]],
           [(0, 2), (0, 1), (0, 2), (0, 5), (0, 3), (0, 2), (0, 5), (0, 5), (0, 10), (0, 10), (1, 3), (2, 4)]),
        # hysteresis: f=3, s=2, alternating
        mk(1, 3, 2, 5, 2, 0, 0, [[(U, 0), (U, 0), (H, 0), (U, 0), (U, 0), (U, 0), (H, 0), (D, 0), (H, 0), (H, 0)]],
           [(0, 0)] + [(0, 5), (1, 1), (2, 1)] * 10),
        # round robin over 3 of 4 resources
        mk(4, 1, 1, 5, 2, 0, 1, [[(H, 0)], [(U, 0)], [(D, 0)], [(H, 0)]], [(0, 1), (2, 9), (1, 4), (2, 3)]),
        # missed ticks: interval 2, slow checks
        mk(2, 2, 1, 2, 7, 1, 2, [[(H, 3), (U, 9), (H, 7), (U, 1)], [(D, 0), (U, 0), (U, 0), (H, 0)]],
           [(0, 1)] * 30),
        # reproducer of the shared-cursor defect fixed in /repo 73b01f9: two Healthy resources, get_healthy /
        # get_usable alternating. Before the fix every get_healthy returned resource 0 (picks 0 1 0 1 0 1 0 1);
        # with one cursor per accessor each accessor alternates 0, 1 (picks 0 0 1 1 0 0 1 1). seeded/C18-r3.
        [2, 1, 1, 5, 2, 0, 1, 1, 10, 0, 0, 0, 0, 0, 0, 0, 1, 1, 1, 2, 1, 1, 1, 2, 1, 1, 1, 2, 1, 1, 1, 2, 1],
        # differing eligible sets (healthy {0,1}, usable {0,1,2}) with alternating accessors
        mk(3, 1, 1, 5, 2, 0, 1, [[(H, 0)], [(H, 0)], [(D, 0)]], [(0, 0), (0, 1)] + [(1, 1), (2, 1)] * 6),
        # an accessor's rotation continues across waits and status changes that leave ITS eligible set alone
        mk(3, 1, 1, 2, 2, 0, 1, [[(H, 0)] * 8, [(H, 0)] * 8, [(D, 0), (U, 0)] * 4],
           [(0, 0)] + [(1, 1), (2, 1), (0, 2)] * 8),
    ]
    # every configuration route, thresholds different from each other and from the defaults (2, 1)
    for route in range(4):
        for strat in (0, 1, 4):
            out.append(mk(2, 5, 3, 4, 2, 1, strat, [[(U, 0)] * 6 + [(H, 0)] * 4, [(H, 0), (D, 0), (U, 3)] * 3],
                          [(0, 1)] + [(0, 4), (1, 2), (2, 2)] * 11, route=route))
    # thresholds beyond a byte / beyond anything reachable: long failure streaks flip exactly at f, never before
    tb = [[(U, 0)] * 300 + [(H, 0)] * 5]
    for f in (255, 256, 257):
        out.append(mk(1, f, 3, 1, 2, 0, 0, tb, [(0, 0)] + [(0, 50)] * 4 + [(0, 10)] * 12 + [(2, 1)], route=f % 4))
    out.append(mk(1, U32, U32, 1, 2, 0, 0, [[(U, 0)] * 20 + [(H, 0)] * 20], [(0, 0)] + [(0, 7), (1, 1), (2, 1)] * 7))
    out.append(mk(1, 3, 256, 1, 2, 0, 2, [[(U, 0)] * 3 + [(H, 0), (D, 0)] * 140], [(0, 0), (0, 5)] + [(0, 50)] * 4 + [(0, 10)] * 12 + [(1, 1)]))
    # fix 19290c9 (seeded/C18-r5 = its revert): a panicking on_check_failed must not make a timed-out check vanish -
    # a resource published Healthy whose checks then time out must flip to Unhealthy after failure_threshold of them
    for route in (1, 2, 3):
        for cb in (1, 5, 3):
            out.append(mk(2, 2, 1, 3, 2, 0, 0, [[(H, 0)] + [(H, 9)] * 5 + [(H, 0)] * 2, [(D, 0), (U, 0), (D, 7), (H, 7), (H, 0)]],
                          [(0, 0)] + [(0, 1)] * 26 + [(1, 1), (2, 1)], route=route, cb=cb))
    # fix af6dd4c (seeded/C18-r5b = its revert): on_health_change panicking with a Drop-panicking payload killed the
    # check loop (first script: the former KNOWN_DEFECT[0]; impl then 0 0 1 1 1 for ever)
    out.append([1, 1, 1, 3, 2, 0, 400, 4, 6, 0, 0, 2, 0, 2, 0, 2, 0, 0, 0, 0, 3, 0, 3, 0, 3, 0, 3, 1, 1])
    for route in (1, 2, 3):
        for cb in (6, 7):
            out.append(mk(2, 2, 2, 2, 2, 1, 1, [[(H, 0), (U, 0), (U, 0), (H, 0), (H, 0), (D, 0)] * 4, [(D, 0), (H, 0), (H, 3), (U, 0), (U, 0)] * 4],
                          [(0, 0)] + [(0, 1), (0, 1), (0, 2), (1, 1), (2, 1)] * 12, route=route, cb=cb))
    # round-robin cursor beyond a byte and beyond 16 bits (review 2, D1: `fetch_add(1) as u8 as usize` passed):
    # the picks around the 256th / 65536th call of ONE accessor must stay a rotation
    out.append(mk(3, 1, 1, 5, 2, 0, 1, [[(H, 0)]] * 3, [(0, 0), (0, 1), (1, 300), (2, 7), (1, 3), (2, 290)]))
    out.append(mk(5, 1, 1, 5, 2, 0, 1, [[(H, 0)], [(D, 0)], [(H, 0)], [(U, 0)], [(H, 0)]],
                  [(0, 0), (0, 1), (2, 258), (1, 65540), (2, 3)], route=1))
    out.append(mk(7, 1, 1, 5, 2, 0, 1, [[(H, 0)]] * 7, [(0, 0), (0, 1), (2, 65539), (1, 2), (2, 9)], route=3))
    # Random: only eligible resources, None iff none qualifies
    out.append(mk(4, 1, 1, 3, 2, 0, 6, [[(H, 0), (U, 0)], [(D, 0), (H, 0)], [(U, 0), (U, 0)], [(K, 0), (D, 0)]],
                  [(0, 0), (1, 6), (2, 6), (0, 3), (1, 6), (2, 6)], route=2))
    # huge durations: checks never start / start once / never time out
    out.append(mk(2, 1, 1, 3, 2, BIG, 1, [[(H, 0)], [(U, 0)]], [(0, 0), (0, 40), (1, 2), (2, 2)]))
    out.append(mk(2, 1, 1, BIG, 2, 0, 1, [[(H, 0), (U, 0)], [(D, 1), (H, 0)]], [(0, 0), (0, 40), (1, 2), (2, 4)]))
    out.append(mk(2, 2, 1, 3, BIG, 0, 0, [[(U, 9), (U, 30), (H, 0)], [(D, 1), (U, 0), (U, 0)]],
                  [(0, 0)] + [(0, 5), (1, 1), (2, 1)] * 12))
    return out


def rand_answers(rng, r, timeout, f=2, s=2):
    mode = rng.randrange(6)
    out = []
    cur = rng.choice([H, U])
    run_left = 0
    for k in range(r):
        if mode == 0:
            a = rng.choice([H, D, U, K])
        elif mode == 1:          # streaky
            if rng.random() < 0.3:
                cur = rng.choice([H, D, U])
            a = cur if rng.random() < 0.85 else K
        elif mode == 2:          # alternating
            a = [H, U][k % 2] if rng.random() < 0.8 else rng.choice([D, K])
        elif mode == 3:          # mostly failing
            a = U if rng.random() < 0.7 else rng.choice([H, D, K])
        elif mode == 4:          # mostly fine
            a = rng.choice([H, H, D]) if rng.random() < 0.75 else rng.choice([U, K])
        else:                    # runs of exactly threshold-1 / threshold / threshold+1, sprinkled with Unknown
            if run_left <= 0:
                cur = U if cur != U else rng.choice([H, H, D])
                thr = f if cur == U else s
                run_left = max(1, min(40, thr) + rng.choice([-1, 0, 0, 1]))
            if rng.random() < 0.12:
                a = K
            else:
                a = cur if cur == U else rng.choice([cur, H, D])
                run_left -= 1
        c = rng.random()
        if c < 0.55:
            d = 0
        elif c < 0.7:
            d = max(1, timeout)               # exactly at the timeout (an answer)
        elif c < 0.85:
            d = timeout + 1 + rng.randrange(3)  # timed out
        else:
            d = rng.randrange(1, max(2, timeout + 1))
        out.append((a, d))
    return out


def rand_threshold(rng):
    c = rng.random()
    if c < 0.03:
        return 0
    if c < 0.80:
        return rng.choice([1, 1, 2, 2, 3, 4])
    if c < 0.96:
        return rng.choice([5, 6, 7, 8, 9, 12])
    return rng.choice([255, 256, 257, 300, 65536, U32])


def rand_script(rng, small=False):
    n = rng.choice([0, 1, 1, 2, 2, 3, 3, 4, 4, 5, 6, 8])
    f = rand_threshold(rng)
    s = rand_threshold(rng)
    interval = rng.choice([1, 2, 3, 4, 5, 6, 7, 10, 12])
    timeout = rng.choice([0, 1, 2, 3, 4, 5, 8])
    init = rng.choice([0, 0, 1, 3, 7])
    if rng.random() < 0.03:
        k = rng.randrange(3)
        if k == 0: interval = BIG
        elif k == 1: timeout = BIG
        else: init = BIG
    strat = rng.choice([0, 1, 1, 1, 2, 2, 3, 4, 5, 6, 6])
    route = rng.choice([0, 0, 1, 1, 2, 3])
    long_run = (not small) and max(f, s) in range(5, 13)
    r = rng.randrange(0, 6 if small else (40 if long_run else 16))
    tables = [rand_answers(rng, r, timeout, f, s) for _ in range(n)]
    evs = [(0, 0)]
    total = 0
    budget = 60 if small else (300 if long_run else 160)
    while total < budget and len(evs) < 200:
        c = rng.random()
        if c < 0.55:
            a = rng.choice([1, 1, 1, 2, 3, interval, interval, interval + 1, 2 * interval])
            a = min(a, 30)
            if a > 1 and rng.random() < 0.65:
                evs.extend([(0, 1)] * a)      # observed after every millisecond: results are judged one by one
            else:
                evs.append((0, a))
            total += a
        elif c < 0.75:
            evs.append((rng.choice([1, 2]), rng.choice([1, 1, 2, 3])))
        elif c < 0.9:
            evs.append((rng.choice([1, 2]), max(1, n) * rng.choice([1, 2, 3])))
        else:
            # the two accessors alternating
            first = rng.choice([1, 2])
            for j in range(rng.choice([2, 4, 6])):
                evs.append((first if j % 2 == 0 else 3 - first, rng.choice([1, 1, 2])))
    cb = rng.choice(CB_FLAGS) if rng.random() < 0.3 else 0
    return mk(n, f, s, interval, timeout, init, strat, tables, evs, route=route, cb=cb)


def rr_script(rng):
    """round robin under status changes: mostly usable resources, both accessors in every mix"""
    n = rng.choice([2, 3, 3, 4, 5, 6])
    f, s = rng.choice([1, 2]), rng.choice([1, 2])
    interval = rng.choice([2, 3, 5])
    r = rng.randrange(1, 8)
    tables = []
    for _ in range(n):
        kind = rng.choice([H, H, H, D, U])
        tables.append([((kind if rng.random() < 0.8 else rng.choice([H, D, U, K])), 0) for _ in range(r)])
    evs = [(0, 0)]
    for _ in range(rng.randrange(3, 10)):
        evs.append((0, rng.choice([1, interval, interval, 2 * interval])))
        c = rng.random()
        if c < 0.4:
            evs.append((rng.choice([1, 2]), n * rng.choice([1, 2, 3])))
        elif c < 0.7:
            first = rng.choice([1, 2])
            for j in range(rng.choice([2, 3, 4, 6, 8])):
                evs.append((first if j % 2 == 0 else 3 - first, rng.choice([1, 1, 2, n])))
        else:
            for j in range(rng.randrange(1, 5)):
                evs.append((rng.choice([1, 2]), rng.randrange(1, 2 * n + 1)))
    return mk(n, f, s, interval, 2, rng.choice([0, 1]), 1, tables, evs, route=rng.randrange(4))


def burst_script(rng, big):
    """long round-robin runs through one accessor with the statuses at rest (selections cost no virtual time):
    the cursor passes 255/256 (and 65535/65536 when big), with calls of the other accessor in between"""
    n = rng.choice([3, 5, 6, 7])
    kinds = [H] * n
    for _ in range(rng.choice([0, 0, 1, 2])):
        kinds[rng.randrange(n)] = rng.choice([D, U])
    if sum(1 for k in kinds if k == H) < 2:
        kinds[0] = kinds[1] = H
    acc = rng.choice([1, 2])
    edge = rng.choice([65535, 65536]) if big else rng.choice([255, 256, 256, 1000])
    before = edge - rng.randrange(0, 6)
    evs = [(0, 0), (0, 1), (acc, before), (3 - acc, rng.randrange(1, 2 * n)), (acc, rng.randrange(1, 3 * n)),
           (0, rng.choice([1, 5])), (acc, rng.randrange(1, 2 * n)), (3 - acc, rng.choice([3, 257]))]
    return mk(n, 1, 1, 5, 2, 0, 1, [[(k, 0)] * 3 for k in kinds], evs, route=rng.randrange(4))


def fine_script(rng):
    """observed after every millisecond, so that (almost) every check result is judged on its own"""
    n = rng.choice([1, 1, 2, 3])
    f, s = rand_threshold(rng), rand_threshold(rng)
    if max(f, s) > 12:
        f, s = rng.choice([1, 2, 3]), rng.choice([1, 2, 3])
    interval = rng.choice([1, 1, 2, 3, 4])
    timeout = rng.choice([0, 1, 2, 3])
    r = rng.randrange(4, 60)
    tables = [rand_answers(rng, r, timeout, f, s) for _ in range(n)]
    evs = [(0, 0)]
    for _ in range(rng.randrange(30, 140)):
        evs.append((0, 1))
        if rng.random() < 0.08:
            evs.append((rng.choice([1, 2]), rng.choice([1, 2, n])))
    return mk(n, f, s, interval, timeout, rng.choice([0, 0, 1, 2]), rng.choice([0, 1, 1, 2, 6]), tables, evs,
              route=rng.randrange(4), cb=(rng.choice(CB_FLAGS) if rng.random() < 0.4 else 0))


def generate(rng, tier):
    out = []
    n = 1500 if tier == "quick" else 30000
    for i in range(n):
        out.append(rand_script(rng, small=(i % 3 == 0)))
    for i in range(n // 6):
        out.append(rr_script(rng))
    for i in range(n // 3):
        out.append(fine_script(rng))
    for i in range(40 if tier == "quick" else 400):
        out.append(burst_script(rng, big=False))
    for i in range(2 if tier == "quick" else 12):
        out.append(burst_script(rng, big=True))
    if tier == "thorough":
        # a threshold beyond 16 bits that IS reached: 65536 failures in a row flip exactly at the 65536th
        out.append(mk(1, 65536, 2, 1, 2, 0, 0, [[(U, 0)] * 65540 + [(H, 0)] * 4],
                      [(0, 0), (0, 30000), (0, 30000), (0, 5530)] + [(0, 1)] * 16 + [(2, 1)], route=1))
    if tier == "thorough":
        # exhaustive: one resource, all answer sequences of length <= 5 over {H, D, U, K, slow}, thresholds 1..3
        import itertools
        alpha = [(H, 0), (D, 0), (U, 0), (K, 0), (H, 5)]
        for L in range(1, 6):
            for seq in itertools.product(alpha, repeat=L):
                for (f, s) in ((1, 1), (2, 2), (3, 2), (2, 3)):
                    if L == 5 and (f, s) != (2, 2):
                        continue
                    out.append(mk(1, f, s, 4, 2, 0, 0, [list(seq)], [(0, 0)] + [(0, 4), (1, 1), (2, 1)] * L,
                                  route=(L + f) % 4))
        # exhaustive: every interleaving of the two accessors up to 6 calls on 3 resources, round robin
        for pat in ([H, H, H], [H, D, H], [H, U, H], [D, H, U], [H, H, D]):
            for L in range(1, 7):
                for ops in itertools.product((1, 2), repeat=L):
                    out.append(mk(3, 1, 1, 5, 2, 0, 1, [[(a, 0)] for a in pat], [(0, 0), (0, 1)] + [(o, 1) for o in ops]))
    return out


# ----------------------------------------------------------------------------
def decode(s, t):
    """-> (cfg, tables, [(op, arg, payload)]) where payload = list of per-resource 5-tuples or list of picks"""
    if len(s) < 9:
        return None
    n, f, sth, interval, timeout, init, strat, r, n_ev = s[:9]
    strat = strat % 16
    if len(s) < 9 + 2 * n * r + 2 * n_ev:
        return None
    tables = [[(s[9 + 2 * (i * r + k)], s[9 + 2 * (i * r + k) + 1]) for k in range(r)] for i in range(n)]
    base = 9 + 2 * n * r
    evs = []
    pos = 0
    for j in range(n_ev):
        op, arg = s[base + 2 * j], s[base + 2 * j + 1]
        if op == 0:
            obs = [tuple(t[pos + 5 * i: pos + 5 * i + 5]) for i in range(n)]
            pos += 5 * n
            if any(len(o) != 5 for o in obs):
                return None
            evs.append((0, arg, obs))
        elif op in (1, 2):
            picks = t[pos: pos + max(0, arg)]
            pos += max(0, arg)
            if len(picks) != max(0, arg):
                return None
            evs.append((op, arg, picks))
    if pos != len(t):
        return None
    return (n, f, sth, interval, timeout, init, strat), tables, evs


def eff(tables, i, k, timeout):
    """effective result of the k-th check (0-based) of resource i"""
    a, d = tables[i][k] if k < len(tables[i]) else (H, 0)
    if d > 0 and d > timeout:
        return U
    return a


def trailing(nk, pred, cap=None):
    n = 0
    for x in reversed(nk):
        if not pred(x) or (cap is not None and n >= cap):
            break
        n += 1
    return n


class Rule:
    """the property's rule applied result by result (oldest first), no counters: Unknown results are skipped;
    Degraded at once; Unhealthy iff a failure completes >= f consecutive failures; Healthy iff a Healthy result
    completes >= sth consecutive non-failing results; otherwise unchanged.
    st = the status the rule publishes (flips are mandatory); poss = the statuses permitted when a threshold flip may
    also be withheld (necessity only)"""
    def __init__(self, f, sth):
        self.f, self.sth, self.st, self.poss, self.nk = f, sth, K, {K}, []

    def push(self, x):
        if x == K:
            return
        self.nk.append(x)
        if x == D:
            self.st, self.poss = D, {D}
        elif x == U:
            if trailing(self.nk, lambda y: y == U, max(self.f, 0)) >= self.f:
                self.st, self.poss = U, self.poss | {U}
        else:
            if trailing(self.nk, lambda y: y in (H, D), max(self.sth, 0)) >= self.sth:
                self.st, self.poss = H, self.poss | {H}


def specified_status(res, f, sth):
    r = Rule(f, sth)
    for x in res:
        r.push(x)
    return r.st


def permitted_statuses(res, f, sth):
    r = Rule(f, sth)
    for x in res:
        r.push(x)
    return r.poss


NAMES = {H: "Healthy", D: "Degraded", U: "Unhealthy", K: "Unknown"}


def monitor(s, t):
    """Independent restatement of C18 over the implementation's trace. Clauses (each message names its clause):
      (a) Unhealthy is published only after failure_threshold consecutive failed or timed-out checks, and then it is;
      (b) Healthy is published only on a Healthy check completing >= success_threshold consecutive non-failing
          checks, and then it is;
      (c) a Degraded result is published at once;  (d) Unknown results change nothing (the published status; and
          they neither break nor extend a run);  (e) nothing else changes the published status;
      (f) get_healthy returns only published-Healthy resources, get_usable only Healthy/Degraded ones;
      (g) both return nothing when none qualifies, and the built-in strategies return something when one does;
      (h) round robin, per accessor: take the picks of ONE accessor (calls of the other accessor and waits in between
          do not matter) over consecutive calls of it that all see the same non-empty eligible set: every
          len(eligible) consecutive picks are a permutation of that set (any cyclic order).
      (p) [not in the text: the premise of "over many check intervals", see PROGRESS_CLAUSE] once the initial delay is
          over every resource finishes another check within 2*interval + (n+1)*timeout + 16 ms.
    NOT stated here (pinned by the model comparison only): the two counters, which eligible resource a strategy
    picks, in which order round robin walks the set, when checks start."""
    dec = decode(s, t)
    if dec is None:
        return "malformed or panicking run: %s" % t[:12]
    (n, f, sth, interval, timeout, init, strat), tables, evs = dec
    prev = [(K, 0, 0, 0, 0)] * n          # status Unknown, nothing started
    cur_status = None                     # published statuses are known from the first observation on
    judged = [True] * n                   # False once checks of the resource overlapped (order of results unknown)
    rule = [Rule(f, sth) for _ in range(n)]
    results = [[] for _ in range(n)]      # effective results of the finished checks, oldest first
    window = {1: None, 2: None}           # per accessor: [eligible set, its picks while it saw that set]
    now = 0                               # virtual ms
    slack = 2 * interval + (n + 1) * max(timeout, 0) + 16
    progress = [[max(init, 0), 0] for _ in range(n)]   # per resource: [instant, finished checks] of the last progress seen
    for (op, arg, payload) in evs:
        if op == 0:
            now += max(0, arg)
            if cur_status is None:
                cur_status = [K] * n
            for i, o in enumerate(payload):
                stt, _cfl, _csu, started, fin = o
                p = prev[i]
                if fin > progress[i][1]:
                    progress[i] = [now, fin]
                elif PROGRESS_CLAUSE and interval >= 1 and now - progress[i][0] > slack:
                    return ("resource %d: (p) no check finished between %d ms and %d ms (interval %d, timeout %d, initial delay %d): "
                            "%d started, %d finished - the check loop stopped" % (i, progress[i][0], now, interval, timeout, init, started, fin))
                if stt not in (H, D, U, K):
                    return ("resource %d: get_status / get_all_statuses / get_health_details disagree, or the tracing callbacks "
                            "do not replay to the published status (code %d)") % (i, stt)
                if not (p[4] <= fin <= started and started >= p[3] and fin >= 0):
                    return "resource %d: check counts went %s -> %s" % (i, p, o)
                if started > fin + 1:
                    judged[i] = False     # overlapping checks: the trace does not tell in which order they finished
                prev[i] = o
                cur_status[i] = stt
                if not judged[i]:
                    continue
                new = [eff(tables, i, k, timeout) for k in range(p[4], fin)]
                for x in new:
                    results[i].append(x)
                    rule[i].push(x)
                res, exp = results[i], rule[i].st
                if stt == exp or (not SUFFICIENT_FLIPS and stt in rule[i].poss):
                    continue
                ctx = "(thresholds f=%d s=%d, effective results %s, was %s)" % (f, sth, res[-24:], NAMES[p[0]])
                if all(x == K for x in new):
                    return "resource %d: (d) only Unknown results (or none) since the last observation but the status went %s -> %s %s" % (i, NAMES[p[0]], NAMES[stt], ctx)
                if stt == U:
                    return "resource %d: (a) Unhealthy published without %d consecutive failed/timed-out checks %s" % (i, f, ctx)
                if stt == H:
                    return "resource %d: (b) Healthy published but no Healthy check completed a run of %d non-failing checks %s" % (i, sth, ctx)
                if exp == D and [x for x in new if x != K][-1:] == [D]:
                    return "resource %d: (c) a Degraded result was not published at once: status %s %s" % (i, NAMES[stt], ctx)
                if exp == U:
                    return "resource %d: (a) %d consecutive failed/timed-out checks did not publish Unhealthy: status %s %s" % (i, f, NAMES[stt], ctx)
                if exp == H:
                    return "resource %d: (b) a Healthy check completed a run of %d non-failing checks but Healthy was not published: status %s %s" % (i, sth, NAMES[stt], ctx)
                return "resource %d: (e) status is %s, the rule gives %s %s" % (i, NAMES[stt], NAMES[exp], ctx)
        else:
            if cur_status is None:
                continue                  # no observation yet: the monitor does not know the published statuses
            name = "get_healthy" if op == 1 else "get_usable"
            want = (lambda x: x == H) if op == 1 else (lambda x: x in (H, D))
            elig = [i for i in range(n) if want(cur_status[i])]
            for pick in payload:
                if pick == -1:
                    if elig and strat in (0, 1, 2, 6):
                        return "(g) %s returned nothing although %s qualify" % (name, elig)
                elif not elig:
                    return "(g) %s returned %d although nothing qualifies" % (name, pick)
                elif pick not in elig:
                    return "(f) %s returned resource %d whose published status is %s" % (
                        name, pick, NAMES.get(cur_status[pick], "?") if 0 <= pick < n else "?")
            if strat == 1 and elig:
                if window[op] is None or window[op][0] != elig:
                    window[op] = [elig, []]
                picks, m = window[op][1], len(elig)
                picks.extend(payload)
                for a in range(max(0, len(picks) - len(payload) - m + 1), len(picks) - m + 1):
                    w = picks[a:a + m]
                    if sorted(w) != elig:
                        return "(h) round robin: %d consecutive %s picks %s are not a permutation of the eligible set %s" % (m, name, w, elig)
            else:
                window[op] = None
    return None


def compare(s, impl, model):
    """traces must be equal; for the Random strategy (6) the picks are the RNG's: same observations and the same
    None / Some pattern are demanded, which eligible resource is returned is left to the monitor"""
    if impl == model:
        return None
    if len(s) > 6 and s[6] % 16 == 6 and len(impl) == len(model):
        di, dm = decode(s, impl), decode(s, model)
        if di and dm:
            for (op, _a, pi), (_o, _b, pm) in zip(di[2], dm[2]):
                if op == 0:
                    if pi != pm:
                        return "observations differ"
                elif [x == -1 for x in pi] != [x == -1 for x in pm]:
                    return "Random: None / Some pattern differs"
            return None
    return "traces differ"


def nontrivial(s, t):
    dec = decode(s, t)
    if not dec:
        return False
    seen = set()
    for (op, arg, payload) in dec[2]:
        if op == 0:
            for i, o in enumerate(payload):
                seen.add((i, o[0]))
    per = {}
    for (i, stt) in seen:
        per.setdefault(i, set()).add(stt)
    return any(len(v - {K}) >= 2 for v in per.values())


def classify(s, t):
    def bucket(x):
        return str(x) if x <= 4 else ("5-12" if x <= 12 else ("byte-edge" if x <= 300 else "huge"))
    out = ["n%d" % min(s[0], 5), "strategy%d" % (s[6] % 16), "route%d" % (s[6] // 16 % 4), "f" + bucket(s[1]), "s" + bucket(s[2])]
    if s[6] // 64 & 1: out.append("cb_check_failed_panics")
    if s[6] // 64 & 2: out.append("cb_health_change_panics")
    if s[6] // 64 & 4: out.append("cb_payload_drop_panics")
    if s[3] <= s[4]:
        out.append("interval_le_timeout")
    if max(s[3], s[4], s[5]) >= BIG:
        out.append("huge_duration")
    dec = decode(s, t)
    if dec:
        (n, f, sth, interval, timeout, init, strat), tables, evs = dec
        if any(d > timeout and d > 0 for tb in tables for (_, d) in tb):
            out.append("has_timed_out_check")
        if any(d == timeout and d > 0 for tb in tables for (_, d) in tb):
            out.append("has_tie_with_timeout")
        flips = set()
        prev = [K] * n
        last_sel = None
        calls = {1: 0, 2: 0}
        for (op, arg, payload) in evs:
            if op in calls and strat == 1:
                calls[op] += len(payload)
            if op == 0:
                last_sel = None
                for i, o in enumerate(payload):
                    if o[0] != prev[i]:
                        flips.add("flip_%d_to_%d" % (prev[i], o[0]))
                        if (o[0] == U and f >= 5) or (o[0] == H and sth >= 5):
                            flips.add("flip_at_threshold_ge5")
                        prev[i] = o[0]
                    if o[3] != o[4]:
                        flips.add("observed_in_flight")
            else:
                if any(p == -1 for p in payload):
                    flips.add("select_none")
                if any(p != -1 for p in payload):
                    flips.add("select_some")
                if last_sel is not None and last_sel != op and strat == 1:
                    flips.add("rr_accessors_interleaved")
                    eh = [i for i in range(n) if prev[i] == H]
                    eu = [i for i in range(n) if prev[i] in (H, D)]
                    if eh and eh != eu:
                        flips.add("rr_interleaved_differing_sets")
                last_sel = op
        if max(calls.values()) >= 256:
            flips.add("rr_cursor_ge_256")
        if max(calls.values()) >= 65536:
            flips.add("rr_cursor_ge_65536")
        out += sorted(flips)
    return out


def shrink(s):
    n, r, n_ev = s[0], s[7], s[8]
    base = 9 + 2 * n * r
    if n_ev > 1:
        yield s[:8] + [n_ev - 1] + s[9:base + 2 * (n_ev - 1)]
    for j in range(n_ev):
        if s[base + 2 * j] in (1, 2):
            c = s[:8] + [n_ev - 1] + s[9:base + 2 * j] + s[base + 2 * j + 2:base + 2 * n_ev]
            yield c
            if s[base + 2 * j + 1] > 1:
                c = list(s); c[base + 2 * j + 1] -= 1
                yield c
    for i in range(n):
        for k in range(r):
            p = 9 + 2 * (i * r + k)
            if s[p + 1] != 0:
                c = list(s); c[p + 1] = 0
                yield c
