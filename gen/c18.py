"""C18 health check wrapper + selection: generator, independent monitor."""
PROP = "C18"
DRIVER = "c18"
MODEL = "C18"
MODEL_QUALID = "Model.Health.run_script"
FORMAT = ("script [n_res; failure_threshold; success_threshold; interval_ms; timeout_ms; initial_delay_ms; "
          "strategy 0 FirstAvailable/1 RoundRobin/2 PreferHealthy/3 Custom last-healthy/4 Custom Some(1)/5 Custom None; "
          "R; n_ev; (answer 0 Healthy/1 Degraded/2 Unhealthy/3 Unknown, delay_ms)*R per resource (k-th check of the "
          "resource; delay > timeout = timed out); (op, arg)*n_ev: op 0 advance arg ms then observe, op 1 get_healthy "
          "x arg, op 2 get_usable x arg] -> trace [per op 0: per resource status, consecutive_failures, "
          "consecutive_successes, checks started, checks finished; per op 1/2: selected resource id or -1 per call]")
RULE = ("random: 0-4 resources, thresholds 1-4 (rarely 0), intervals 1-12 ms incl. shorter than slow checks (missed "
        "ticks), timeouts 0-8 ms, delays hitting the timeout exactly and exceeding it, long alternating / streaky / "
        "unknown-laden answer sequences, all strategies incl. custom selectors, selections interleaved with status "
        "changes and k*n round-robin bursts; thorough adds an exhaustive sweep of short answer sequences; "
        "non-trivial = some published status flipped away from Unknown and back across a threshold")
TRUSTED = ["the scripted HealthChecker in harness/src/bin/c18.rs (answers after sleeping delay_ms; counts started/finished checks)",
           "custom selector closures mirrored by hand in Model/Health.v strategy_of and harness/src/bin/c18.rs"]
ASSUMPTIONS = ["interval >= 1 ms (tokio::time::interval panics on a zero period inside the spawned task)",
               "fewer than 2^64 checks per resource (u64 counters) ; the round-robin cursor wraps at 2^64 as AtomicUsize does",
               "one start() per wrapper; stop()/restart are not exercised",
               "whole-millisecond durations (tokio timer granularity)"]

H, D, U, K = 0, 1, 2, 3


def mk(n, f, s, interval, timeout, init, strat, tables, evs):
    r = max([len(t) for t in tables] + [0])
    out = [n, f, s, interval, timeout, init, strat, r, len(evs)]
    for t in tables:
        t = list(t) + [(H, 0)] * (r - len(t))
        for (a, d) in t:
            out += [a, d]
    for (op, arg) in evs:
        out += [op, arg]
    return out


def corpus():
    return [
        mk(2, 2, 2, 10, 5, 3, 1, [[(H, 0), (U, 0), (U, 0), (H, 0)], [(D, 2), (H, 9), (K, 0), (H, 0)]],
           [(0, 2), (0, 1), (0, 2), (0, 5), (0, 3), (0, 2), (0, 5), (0, 5), (0, 10), (0, 10), (1, 3), (2, 4)]),
        # hysteresis: f=3, s=2, alternating
        mk(1, 3, 2, 5, 2, 0, 0, [[(U, 0), (U, 0), (H, 0), (U, 0), (U, 0), (U, 0), (H, 0), (D, 0), (H, 0), (H, 0)]],
           [(0, 0)] + [(0, 5), (1, 1), (2, 1)] * 10),
        # round robin over 3 of 4 resources
        mk(4, 1, 1, 5, 2, 0, 1, [[(H, 0)], [(U, 0)], [(D, 0)], [(H, 0)]], [(0, 1), (2, 9), (1, 4), (2, 3)]),
        # missed ticks: interval 2, slow checks
        mk(2, 2, 1, 2, 7, 1, 2, [[(H, 3), (U, 9), (H, 7), (U, 1)], [(D, 0), (U, 0), (U, 0), (H, 0)]],
           [(0, 1)] * 30),
    ]


def rand_answers(rng, r, timeout):
    mode = rng.randrange(5)
    out = []
    cur = rng.choice([H, U])
    for k in range(r):
        if mode == 0:
            a = rng.choice([H, D, U, K])
        elif mode == 1:          # streaky
            if rng.random() < 0.3:
                cur = rng.choice([H, D, U])
            a = cur if rng.random() < 0.85 else K
        elif mode == 2:          # alternating
            a = [H, U][k % 2] if rng.random() < 0.8 else rng.choice([D, K])
        elif mode == 3:          # mostly failing
            a = U if rng.random() < 0.7 else rng.choice([H, D, K])
        else:                    # mostly fine
            a = rng.choice([H, H, D]) if rng.random() < 0.75 else rng.choice([U, K])
        c = rng.random()
        if c < 0.55:
            d = 0
        elif c < 0.7:
            d = max(1, timeout)               # exactly at the timeout (an answer)
        elif c < 0.85:
            d = timeout + 1 + rng.randrange(3)  # timed out
        else:
            d = rng.randrange(1, max(2, timeout + 1))
        out.append((a, d))
    return out


def rand_script(rng, small=False):
    n = rng.choice([0, 1, 1, 2, 2, 3, 3, 4])
    f = rng.choice([1, 1, 2, 2, 3, 4]) if rng.random() < 0.97 else 0
    s = rng.choice([1, 1, 2, 2, 3, 4]) if rng.random() < 0.97 else 0
    interval = rng.choice([1, 2, 3, 4, 5, 6, 7, 10, 12])
    timeout = rng.choice([0, 1, 2, 3, 4, 5, 8])
    init = rng.choice([0, 0, 1, 3, 7])
    strat = rng.choice([0, 1, 1, 1, 2, 2, 3, 4, 5])
    r = rng.randrange(0, 6 if small else 16)
    tables = [rand_answers(rng, r, timeout) for _ in range(n)]
    evs = [(0, 0)]
    total = 0
    budget = 60 if small else 160
    while total < budget and len(evs) < 60:
        c = rng.random()
        if c < 0.55:
            a = rng.choice([1, 1, 1, 2, 3, interval, interval, interval + 1, 2 * interval])
            evs.append((0, a)); total += a
        elif c < 0.8:
            evs.append((rng.choice([1, 2]), rng.choice([1, 1, 2, 3])))
        else:
            evs.append((rng.choice([1, 2]), max(1, n) * rng.choice([1, 2, 3])))
    return mk(n, f, s, interval, timeout, init, strat, tables, evs)


def generate(rng, tier):
    out = []
    n = 1500 if tier == "quick" else 30000
    for i in range(n):
        out.append(rand_script(rng, small=(i % 3 == 0)))
    if tier == "thorough":
        # exhaustive: one resource, all answer sequences of length <= 5 over {H, D, U, K, slow}, thresholds 1..3
        import itertools
        alpha = [(H, 0), (D, 0), (U, 0), (K, 0), (H, 5)]
        for L in range(1, 6):
            for seq in itertools.product(alpha, repeat=L):
                for (f, s) in ((1, 1), (2, 2), (3, 2), (2, 3)):
                    if L == 5 and (f, s) != (2, 2):
                        continue
                    out.append(mk(1, f, s, 4, 2, 0, 0, [list(seq)], [(0, 0)] + [(0, 4), (1, 1), (2, 1)] * L))
    return out


# ----------------------------------------------------------------------------
def decode(s, t):
    """-> (cfg, tables, [(op, arg, payload)]) where payload = list of per-resource 5-tuples or list of picks"""
    if len(s) < 9:
        return None
    n, f, sth, interval, timeout, init, strat, r, n_ev = s[:9]
    if len(s) < 9 + 2 * n * r + 2 * n_ev:
        return None
    tables = [[(s[9 + 2 * (i * r + k)], s[9 + 2 * (i * r + k) + 1]) for k in range(r)] for i in range(n)]
    base = 9 + 2 * n * r
    evs = []
    pos = 0
    for j in range(n_ev):
        op, arg = s[base + 2 * j], s[base + 2 * j + 1]
        if op == 0:
            obs = [tuple(t[pos + 5 * i: pos + 5 * i + 5]) for i in range(n)]
            pos += 5 * n
            if any(len(o) != 5 for o in obs):
                return None
            evs.append((0, arg, obs))
        elif op in (1, 2):
            picks = t[pos: pos + max(0, arg)]
            pos += max(0, arg)
            if len(picks) != max(0, arg):
                return None
            evs.append((op, arg, picks))
    if pos != len(t):
        return None
    return (n, f, sth, interval, timeout, init, strat), tables, evs


def eff(tables, i, k, timeout):
    """effective result of the k-th check (0-based) of resource i"""
    a, d = tables[i][k] if k < len(tables[i]) else (H, 0)
    if d > 0 and d > timeout:
        return U
    return a


def monitor(s, t):
    """independent restatement of C18 over the implementation's trace"""
    dec = decode(s, t)
    if dec is None:
        return "malformed or panicking run: %s" % t[:12]
    (n, f, sth, interval, timeout, init, strat), tables, evs = dec
    prev = [(K, 0, 0, 0, 0)] * n          # status Unknown, counters 0, nothing started
    cur_status = [K] * n
    rr_window = []                        # (eligible tuple, picks) for consecutive round-robin picks
    for (op, arg, payload) in evs:
        if op == 0:
            for i, o in enumerate(payload):
                stt, cfl, csu, started, fin = o
                p = prev[i]
                if not (p[4] <= fin <= started <= fin + 1 and started >= p[3]):
                    return "resource %d: check counts went %s -> %s" % (i, p, o)
                res = [eff(tables, i, k, timeout) for k in range(fin)]
                nk = [x for x in res if x != K]           # Unknown answers change nothing
                new = res[p[4]:fin]
                # counters restated: trailing runs of the non-Unknown results
                run_f = 0
                for x in reversed(nk):
                    if x == U:
                        run_f += 1
                    else:
                        break
                run_s = 0
                for x in reversed(nk):
                    if x in (H, D):
                        run_s += 1
                    else:
                        break
                if (cfl, csu) != (run_f, run_s):
                    return "resource %d: counters (%d,%d) but the trailing runs are (%d,%d)" % (i, cfl, csu, run_f, run_s)
                if stt != p[0]:
                    # a flip happened among the new results: find a result that justifies it
                    ok = False
                    for m in range(p[4], fin):
                        upto = [x for x in res[:m + 1] if x != K]
                        last = res[m]
                        if stt == U and last == U and f >= 0 and len(upto) >= max(f, 1) and all(x == U for x in upto[-max(f, 1):]):
                            ok = True
                        if stt == H and last == H and len(upto) >= max(sth, 1) and all(x in (H, D) for x in upto[-max(sth, 1):]):
                            ok = True
                        if stt == D and last == D:
                            ok = True
                    if stt == K:
                        ok = False
                    if not ok:
                        return ("resource %d: status flipped %d -> %d at checks %d..%d without the required run "
                                "(thresholds f=%d s=%d, results %s)" % (i, p[0], stt, p[4], fin, f, sth, res))
                if all(x == K for x in new) and (stt, cfl, csu) != p[:3]:
                    return "resource %d: only Unknown results (or none) but state changed %s -> %s" % (i, p, o)
                if new and new[-1] == D and stt != D:
                    return "resource %d: a Degraded result was not published at once" % i
                if fin > 0:
                    # exact published status, restated as a scan over all results so far
                    exp = K; a = b = 0
                    for x in res:
                        if x == H:
                            a += 1; b = 0
                            if a >= sth: exp = H
                        elif x == D:
                            a += 1; b = 0; exp = D
                        elif x == U:
                            b += 1; a = 0
                            if b >= f: exp = U
                    if exp != stt:
                        return "resource %d: published %d, specified %d after results %s" % (i, stt, exp, res)
                prev[i] = o
                cur_status[i] = stt
            rr_window = []
        else:
            want = (lambda x: x == H) if op == 1 else (lambda x: x in (H, D))
            elig = [i for i in range(n) if want(cur_status[i])]
            for pick in payload:
                if pick == -1:
                    if elig and strat in (0, 1, 2):
                        return "%s returned nothing although %s qualify" % ("get_healthy" if op == 1 else "get_usable", elig)
                else:
                    if pick not in elig:
                        return "%s returned resource %d whose published status is %s" % (
                            "get_healthy" if op == 1 else "get_usable", pick,
                            cur_status[pick] if 0 <= pick < n else "?")
                if not elig and pick != -1:
                    return "selection returned %d although nothing qualifies" % pick
                if strat == 0 and elig and pick != elig[0]:
                    return "FirstAvailable returned %d, first eligible is %d" % (pick, elig[0])
                if strat == 2 and elig:
                    hs = [i for i in elig if cur_status[i] == H]
                    if pick != (hs[0] if hs else elig[0]):
                        return "PreferHealthy returned %d" % pick
            if strat == 1 and elig:
                # evenness over every window of k*len(elig) consecutive picks with a constant eligible set
                if rr_window and rr_window[0] != tuple(elig):
                    rr_window = []
                if not rr_window:
                    rr_window = [tuple(elig), []]
                rr_window[1].extend(payload)
                picks = rr_window[1]
                m = len(elig)
                for a in range(0, len(picks) - m + 1):
                    w = picks[a:a + m]
                    if sorted(w) != sorted(elig):
                        return "round robin: %d consecutive picks %s are not a permutation of the eligible set %s" % (m, w, elig)
    return None


def nontrivial(s, t):
    dec = decode(s, t)
    if not dec:
        return False
    seen = set()
    for (op, arg, payload) in dec[2]:
        if op == 0:
            for i, o in enumerate(payload):
                seen.add((i, o[0]))
    per = {}
    for (i, stt) in seen:
        per.setdefault(i, set()).add(stt)
    return any(len(v - {K}) >= 2 for v in per.values())


def classify(s, t):
    out = ["n%d" % s[0], "strategy%d" % s[6], "f%d" % min(s[1], 4), "s%d" % min(s[2], 4)]
    if s[3] <= s[4]:
        out.append("interval_le_timeout")
    dec = decode(s, t)
    if dec:
        (n, f, sth, interval, timeout, init, strat), tables, evs = dec
        if any(d > timeout and d > 0 for tb in tables for (_, d) in tb):
            out.append("has_timed_out_check")
        if any(d == timeout and d > 0 for tb in tables for (_, d) in tb):
            out.append("has_tie_with_timeout")
        flips = set()
        prev = [K] * n
        for (op, arg, payload) in evs:
            if op == 0:
                for i, o in enumerate(payload):
                    if o[0] != prev[i]:
                        flips.add("flip_%d_to_%d" % (prev[i], o[0]))
                        prev[i] = o[0]
                    if o[3] != o[4]:
                        flips.add("observed_in_flight")
            else:
                if any(p == -1 for p in payload):
                    flips.add("select_none")
                if any(p != -1 for p in payload):
                    flips.add("select_some")
        out += sorted(flips)
    return out


def shrink(s):
    n, r, n_ev = s[0], s[7], s[8]
    base = 9 + 2 * n * r
    if n_ev > 1:
        yield s[:8] + [n_ev - 1] + s[9:base + 2 * (n_ev - 1)]
    for j in range(n_ev):
        if s[base + 2 * j] in (1, 2):
            c = s[:8] + [n_ev - 1] + s[9:base + 2 * j] + s[base + 2 * j + 2:base + 2 * n_ev]
            yield c
    for i in range(n):
        for k in range(r):
            p = 9 + 2 * (i * r + k)
            if s[p + 1] != 0:
                c = list(s); c[p + 1] = 0
                yield c
