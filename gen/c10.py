"""C10 cache: generator, oracle extraction (LFU victim), independent property monitor.

The monitor states the PROPERTY and nothing more (see `monitor`); everything else the code does (listener
events, which of several tied LFU entries goes, the exact frequency/recency bookkeeping, `elapsed > ttl` vs `>=`,
expired entries occupying capacity, in-flight accounting) is pinned by the model-vs-implementation trace comparison."""
import itertools

PROP = "C10"
DRIVER = "c10"
MODEL = "C10"
MODEL_QUALID = "Model.Cache.run_script"
FORMAT = ("script [policy 0=LRU 1=LFU 2=FIFO; max_size; ttl (-1 none); sh; n callers; m events; (op a b)*m] "
          "sh%4: 0=private(CacheLayer) 1=SharedCacheLayer::builder 2,3=CacheLayer::shared(); (sh//4) odd: ttl in fine units, else milliseconds; (sh//8) odd: fine unit = ns, else us; "
          "op 0=Call a on service b//8 with key b%8 (fresh clone of the service), "
          "5=Call a with key b%128 (<120) on service (b//128)%2, b//256=1: through the long-lived service value itself (no clone), "
          "7=Call a with key b%256 (<240) on service (b//256)%2, b//512=1: long-lived value, "
          "1=Poll a, 2=Drop a, 3=Advance a ms, 6=Advance a fine units (one jump), "
          "4=Complete a b (b>0 Ok with value b, 0 Err, <0 panic); the model additionally reads m oracle values appended by model_input "
          "(key that left a store during each event of the implementation run; consulted only when an LFU insert must evict). "
          "trace: per event [r; value; inner calls started; inner calls in flight; listener events 1=hit 2=miss 4=eviction (+64 model: oracle not a minimal-frequency key); "
          "bitmask of keys present in store 0 (two words: keys 0..119, 120..239); in store 1 (two words) (live key instances); bitmask of keys with a stored response in store 0 (two words); in store 1 (two words) (live response instances)] "
          "with r: -1 no poll, 0 pending, 1 Ok, 2 Err(Inner), 5 panicked, 9 nothing to poll")
RULE = ("random histories over 2-5 keys and two services (private or shared store), three policies, max_size 0..4, TTL none/0/short/long with advances "
        "landing exactly on, just before and just after the TTL, overlapping misses (also on one key), ok (unique serial values) / err / panic / never-completing inner "
        "calls, cancellations; calls through fresh clones and through one long-lived service value; a few capacities that never fill (1000, 100000) and max_size = usize::MAX, usize::MAX/2 (nothing between 2^26 and 2^62 is ever driven); large stores (max_size 5..33, up to 2*max_size+2 keys, "
        "skewed access so that frequencies and recencies differ, >8 entries) with long sequential histories; TTLs with sub-millisecond parts (999, 1500, 20000 us), "
        "1 s, 1 h and u64::MAX us with microsecond advances and jumps landing on ttl-1us / ttl / ttl+1us; a nanosecond clock with TTLs such as 1500 ns and lookups at ttl-1ns / ttl / ttl+1ns / inside the same microsecond; stores of 64..130 entries over up to 160 of 240 keys (every insert evicts; sampled victim searches with a sample below 130 show); LFU with two hot keys used 14..303 times (wrapping or saturating counters); all short histories over a tiny alphabet in thorough; "
        "non-trivial = an eviction, an expiry or a hit happened")
TRUSTED = ["lru 0.16 LruCache (get/push/pop), std HashMap/VecDeque inside LfuStore/FifoStore are modelled as one ordered list; tied to the libraries only by this correspondence run",
           "presence in a store is observed by counting live instances of the harness's key type (store copies = live - pending misses) and of its response type "
           "(store copies = live - unpolled hits); the monitor uses the response view, the model comparison both",
           "LFU victim among minimal-frequency keys (HashMap iteration order) is taken from the implementation run as an oracle; the model checks it is a minimal-frequency key and the theorems hold for every oracle",
           "poll atomicity: the store mutex is never held across an await"]
ASSUMPTIONS = ["whole-nanosecond instants", "single-threaded deterministic executor: one poll at a time",
               "max_size >= 1 for the size/victim theorems (0 is exercised by the correspondence run only: LRU turns it into 100, LFU/FIFO into 1)",
               "a lookup happens in call() (a call that makes no inner call during call() is a hit); the age of a value is counted from the poll that stored it to the lookup"]
KNOWN_DEFECT = []   # scripts on which the REAL code violates the property (none found)

REC = 13
NK = 120          # keys of op 5; op 7 reaches NK2
NK2 = 240
WORD = 120
U64 = (1 << 64) - 1


def header(s):
    s = list(s) + [0] * 6
    return s[0], s[1], s[2], s[3], s[4], s[5]


def mode_of(sh):
    return sh % 4


def unit_of(sh):
    """fine units (us, or ns when (sh//8) is odd) per millisecond"""
    return 10 ** 6 if (sh // 8) % 2 == 1 else 1000


def ttl_us_of(ttl, sh):
    """ttl in fine units"""
    if ttl < 0:
        return -1
    return ttl if (sh // 4) % 2 == 1 else unit_of(sh) * ttl


def events(s):
    pol, ms, ttl, sh, n, m = header(s)
    m = max(m, 0)
    body = list(s[6:6 + 3 * m])
    body += [0] * (3 * m - len(body))
    return [tuple(body[3 * j:3 * j + 3]) for j in range(m)]


def call_of(e):
    """(service, key, reuse) of a Call event, None if the event is not a well-formed Call"""
    op, a, b = e
    if op == 0 and 0 <= b < 16:
        return b // 8, b % 8, 0
    if op == 5 and 0 <= b < 512 and b % 128 < NK:
        return (b // 128) % 2, b % 128, b // 256
    if op == 7 and 0 <= b < 1024 and b % 256 < NK2:
        return (b // 256) % 2, b % 256, b // 512
    return None


def adv_of(e, unit=1000):
    """fine units the event advances the clock by"""
    op, a, b = e
    if op == 3:
        return unit * min(max(a, 0), 100000)
    if op == 6:
        return min(max(a, 0), 10 ** 12)
    return 0


def decode(s, t):
    evs = events(s)
    if len(t) != REC * len(evs):
        return None
    return [(e, t[REC * j:REC * j + REC]) for j, e in enumerate(evs)]


def masks(o):
    """(key mask store 0, store 1, response mask store 0, store 1) of one record; -1 when the accounting broke"""
    out = []
    for c in (5, 7, 9, 11):
        lo, hi = o[c], o[c + 1]
        out.append(-1 if lo < 0 or hi < 0 else lo | (hi << WORD))
    return out


def model_input(s, t):
    """script ++ per-event oracle: the key whose presence bit went 1 -> 0 during the event (-1: none)"""
    d = decode(s, t)
    pol, ms, ttl, sh, n, m = header(s)
    base = list(s[:6 + 3 * max(m, 0)])
    if d is None:
        return base
    prev = [0, 0]
    orc = []
    for (_, o) in d:
        km = masks(o)[:2]
        gone = -1
        for st in (0, 1):
            lost = prev[st] & ~km[st] if km[st] >= 0 else 0
            if lost and gone < 0:
                gone = lost.bit_length() - 1
            prev[st] = km[st] if km[st] >= 0 else 0
        orc.append(gone)
    return base + orc


# ----------------------------------------------------------------------------
def mk(pol, ms, ttl, sh, n, evs):
    s = [pol, ms, ttl, sh, n, len(evs)]
    for e in evs:
        s += list(e)
    return s


C, P, D, A, K, W, U, W2 = 0, 1, 2, 3, 4, 5, 6, 7


def wide(svc, k, reuse=0):
    return k + 128 * svc + 256 * reuse


def wide2(svc, k, reuse=0):
    """argument of op 7 (keys 0..239)"""
    return k + 256 * svc + 512 * reuse


def corpus():
    out = [
        # miss, store, hit returns the stored serial; second key; eviction by LRU after a use of key 0
        mk(0, 2, -1, 0, 6, [(C, 0, 0), (K, 0, 101), (P, 0, 0), (C, 1, 0), (P, 1, 0), (C, 2, 1), (K, 2, 102), (P, 2, 0),
                            (C, 3, 0), (P, 3, 0), (C, 4, 2), (K, 4, 103), (P, 4, 0), (C, 5, 1), (P, 5, 0)]),
        # hit exactly at the TTL, miss one ms later (expired entry removed on read)
        mk(0, 2, 20, 0, 4, [(C, 0, 3), (K, 0, 7), (P, 0, 0), (A, 20, 0), (C, 1, 3), (P, 1, 0), (A, 1, 0), (C, 2, 3), (P, 2, 0)]),
        # two overlapping misses on one key: both call the inner service, the later completion wins
        mk(2, 2, -1, 1, 4, [(C, 0, 1), (C, 1, 9), (K, 1, 11), (K, 0, 12), (P, 1, 0), (P, 0, 0), (C, 2, 1), (P, 2, 0)]),
        # errors and panics are not cached
        mk(1, 1, -1, 0, 4, [(C, 0, 2), (K, 0, 0), (P, 0, 0), (C, 1, 2), (K, 1, -1), (P, 1, 0), (C, 2, 2), (K, 2, 5), (P, 2, 0), (C, 3, 2), (P, 3, 0)]),
        # LFU tie: keys 0 and 1 both have frequency 1 when key 2 arrives (victim = HashMap order)
        mk(1, 2, -1, 0, 5, [(C, 0, 0), (K, 0, 1), (P, 0, 0), (C, 1, 1), (K, 1, 2), (P, 1, 0), (C, 2, 2), (K, 2, 3), (P, 2, 0),
                            (C, 3, 0), (P, 3, 0), (C, 4, 1), (P, 4, 0)]),
        # FIFO: update of a present key keeps its queue position
        mk(2, 2, -1, 0, 6, [(C, 0, 0), (C, 1, 0), (K, 0, 1), (P, 0, 0), (C, 2, 1), (K, 2, 2), (P, 2, 0), (K, 1, 3), (P, 1, 0),
                            (C, 3, 2), (K, 3, 4), (P, 3, 0), (C, 4, 0), (P, 4, 0), (C, 5, 1), (P, 5, 0)]),
        # private stores: service 1 does not see service 0's entry
        mk(0, 2, -1, 0, 3, [(C, 0, 4), (K, 0, 9), (P, 0, 0), (C, 1, 12), (P, 1, 0), (C, 2, 4), (P, 2, 0)]),
        # shared (CacheLayer::shared): it does
        mk(0, 2, -1, 2, 3, [(C, 0, 4), (K, 0, 9), (P, 0, 0), (C, 1, 12), (P, 1, 0), (C, 2, 4), (P, 2, 0)]),
        # max_size 0
        mk(2, 0, -1, 0, 3, [(C, 0, 0), (K, 0, 5), (P, 0, 0), (C, 1, 1), (K, 1, 6), (P, 1, 0), (C, 2, 0), (P, 2, 0)]),
        # ttl 1500 us: hit at 1500 us, miss at 1501 us (a millisecond-truncated test would serve it until 2 ms)
        mk(0, 2, 1500, 4, 4, [(W, 0, 3), (K, 0, 7), (P, 0, 0), (U, 1500, 0), (W, 1, 3), (P, 1, 0), (U, 1, 0), (W, 2, 3), (K, 2, 8), (P, 2, 0),
                              (U, 1900, 0), (W, 3, 3), (P, 3, 0)]),
        # ttl 1 h, jumps to just before / exactly / just after
        mk(2, 2, 3600000, 1, 4, [(W, 0, 100), (K, 0, 7), (P, 0, 0), (U, 3599999999, 0), (W, 1, 100), (P, 1, 0), (U, 1, 0), (W, 2, 100 + 256), (P, 2, 0),
                                 (U, 1, 0), (W, 3, 100), (P, 3, 0)]),
        # ttl = Duration::from_micros(u64::MAX): never expires
        mk(1, 2, U64, 4, 2, [(W, 0, 5), (K, 0, 7), (P, 0, 0), (U, 10 ** 12, 0), (W, 1, 5), (P, 1, 0)]),
        # one long-lived service value called repeatedly; another clone updates the key, the entry expires, is evicted
        mk(0, 1, 10, 2, 8, [(W, 0, wide(0, 9, 1)), (K, 0, 1), (P, 0, 0), (W, 1, wide(0, 9, 1)), (P, 1, 0), (A, 11, 0), (W, 2, wide(0, 9, 1)), (K, 2, 2), (P, 2, 0),
                            (W, 3, wide(1, 10, 0)), (K, 3, 3), (P, 3, 0), (W, 4, wide(0, 9, 1)), (K, 4, 4), (P, 4, 0), (W, 5, wide(0, 10, 1)), (K, 5, 5), (P, 5, 0),
                            (W, 6, wide(0, 9, 1)), (P, 6, 0), (W, 7, wide(1, 10, 1)), (P, 7, 0)]),
    ]
    # 12 entries, LFU: every key hit k times, then new keys force evictions (sampled eviction would pick a wrong victim)
    evs, i, v = [], 0, 1000
    for k in range(12):
        v += 1
        evs += [(W, i, k), (K, i, v), (P, i, 0)]
        i += 1
    for k in range(12):
        for _ in range(1 + (k * 5) % 4):
            evs += [(W, i, wide(0, k, k % 2)), (P, i, 0)]
            i += 1
    for k in range(12, 18):
        v += 1
        evs += [(W, i, k), (K, i, v), (P, i, 0)]
        i += 1
    out.append(mk(1, 12, -1, 0, i, evs))
    # (review 2, D4) a hit right after the poll that stored the value
    out.append(mk(1, 2, U64, 4, 2, [(W, 0, 5), (K, 0, 7), (P, 0, 0), (W, 1, 5), (P, 1, 0)]))
    # (review 2, D2) nanosecond clock, ttl 1500 ns: served at 1500 ns, expired at 1501 ns and at 1999 ns
    out.append(mk(0, 2, 1500, 12, 4, [(W, 0, 3), (K, 0, 7), (P, 0, 0), (U, 1500, 0), (W, 1, 3), (P, 1, 0), (U, 1, 0), (W, 2, 3), (K, 2, 8), (P, 2, 0),
                                      (U, 1999, 0), (W, 3, 3), (P, 3, 0)]))
    # (review 2, D3) LFU, key A looked up 254 times, key B 256 times, then a third key arrives: A must go (an 8-bit counter has wrapped for B)
    import random as _r
    out.append(hot_script(_r.Random(3), 254, 256))
    # (fix b8ecd4c) max_size = usize::MAX / usize::MAX/2: the layer builds, everything is stored, nothing evicted
    for q, (pol_, sh_) in enumerate([(0, 0), (1, 0), (2, 0), (0, 1), (1, 2), (2, 1)]):
        out.append(unbounded_script(_r.Random(40 + q), pol_, U64 if q % 2 == 0 else U64 // 2, sh_))
    # keys above 119 (op 7), two stores
    out.append(mk(2, 2, -1, 0, 5, [(W2, 0, wide2(0, 239)), (K, 0, 1), (P, 0, 0), (W2, 1, wide2(1, 120, 1)), (K, 1, 2), (P, 1, 0),
                                   (W2, 2, wide2(0, 119)), (K, 2, 3), (P, 2, 0), (W2, 3, wide2(0, 200)), (K, 3, 4), (P, 3, 0), (W2, 4, wide2(0, 239)), (P, 4, 0)]))
    return out


def random_script(rng, maxlen=40):
    pol = rng.randrange(3)
    ms = rng.choice([1, 1, 2, 2, 2, 3, 3, 4, 0] if rng.random() < 0.5 else [1, 2, 2, 3])
    if rng.random() < 0.02:
        ms = rng.choice([1000, 100000])      # never fills: pre-allocation path of the containers
    sh = rng.choice([0, 0, 1, 2, 3])
    us = rng.random() < 0.3           # microsecond clock
    if us:
        ttl = rng.choice([-1, 0, 999, 1500, 1500, 20000, 1])
        sh += 4 * rng.choice([1, 3, 5])
    else:
        ttl = rng.choice([-1, -1, 0, 5, 5, 20, 20, 60])
        sh += 8 * rng.choice([0, 0, 1])
    nkeys = rng.choice([2, 3, 3, 4, 5])
    koff = rng.choice([0, 0, 0, 5, 60, 115]) if rng.random() < 0.5 else 0
    use_wide = koff > 0 or rng.random() < 0.5
    two_svcs = rng.random() < (0.6 if sh % 4 == 0 else 0.4)
    L = rng.randint(4, maxlen)
    evs = []
    ncall = 0
    open_ = []       # callers with a live future
    serial = [rng.choice([1, 100, 1000])]
    hot = rng.randrange(nkeys)
    if us:
        advs = [(U, x) for x in ([1, 499, 1000] + ([ttl, ttl, ttl + 1, max(ttl - 1, 1), ttl // 2 + 1] if ttl > 0 else [5, 2000]))]
    else:
        advs = [(A, x) for x in ([1, 1, 2] + ([ttl, ttl, ttl + 1, max(ttl - 1, 1)] if ttl > 0 else [5, 20]))]
        if ttl > 0:
            un = unit_of(sh)
            advs += [(U, un * ttl - 1), (U, 1), (U, un * ttl + 1)]

    def nxt():
        serial[0] += 1
        return serial[0]

    while len(evs) < L:
        x = rng.random()
        if x < 0.30 or not open_:
            k = hot if rng.random() < 0.35 else rng.randrange(nkeys)
            svc = rng.randrange(2) if two_svcs else 0
            if use_wide:
                evs.append((W, ncall, wide(svc, k + koff, 1 if rng.random() < 0.5 else 0)))
            else:
                evs.append((C, ncall, 8 * svc + k))
            open_.append(ncall)
            # often decide the outcome right away (possibly before the call is polled)
            y = rng.random()
            if y < 0.55:
                evs.append((4, ncall, nxt()))
            elif y < 0.65:
                evs.append((4, ncall, rng.choice([0, 0, -1])))
            if rng.random() < 0.5:
                evs.append((1, ncall, 0))
            ncall += 1
        elif x < 0.62:
            i = rng.choice(open_)
            evs.append((1, i, 0))
        elif x < 0.76:
            i = rng.choice(open_)
            evs.append((4, i, nxt() if rng.random() < 0.8 else rng.choice([0, -1])))
        elif x < 0.80:
            i = rng.choice(open_)
            evs.append((2, i, 0))
            open_.remove(i)
        elif x < 0.97:
            op, d = rng.choice(advs)
            evs.append((op, d, 0))
        else:
            evs.append((rng.choice([0, 1, 2, 4, 5, 7, 8]), rng.choice([-1, ncall + 3, rng.randrange(max(ncall, 1))]), rng.choice([0, 3, 16, -2, 200, 120, 127, 512, 511])))
        if rng.random() < 0.15 and open_:
            # forget callers that are certainly finished to keep polls useful
            open_ = open_[-4:]
    return mk(pol, ms, ttl, sh, ncall + rng.choice([0, 0, 1]), evs)


def sequential_script(rng, n=14):
    """closed calls (call, complete, poll) — long sequential histories that fill, hit, update, expire and evict"""
    pol = rng.randrange(3)
    ms = rng.choice([1, 2, 2, 3, 3, 4])
    ttl = rng.choice([-1, -1, 10, 30])
    sh = rng.choice([0, 1, 2])
    nkeys = ms + rng.choice([0, 1, 1, 2])
    nkeys = min(max(nkeys, 2), 8)
    reuse = rng.random() < 0.4
    evs = []
    v = rng.choice([10, 500])
    for i in range(n):
        k = rng.randrange(nkeys)
        svc = rng.randrange(2) if rng.random() < 0.3 else 0
        evs.append((W, i, wide(svc, k, 1)) if reuse and rng.random() < 0.7 else (C, i, 8 * svc + k))
        v += 1
        evs.append((4, i, v if rng.random() < 0.9 else 0))
        evs.append((1, i, 0))
        if ttl > 0 and rng.random() < 0.4:
            evs.append((3, rng.choice([1, ttl // 2, ttl, ttl + 1]), 0))
    return mk(pol, ms, ttl, sh, n, evs)


def big_script(rng, ncalls=120):
    """large stores: max_size 5..33, up to 2*max_size+2 keys anywhere in 0..119, skewed access (so that frequencies,
    recencies and insertion order all differ), mostly closed calls, a few overlapping misses, optional TTL.
    More than 8 entries are live most of the time: sampled or truncated victim searches show."""
    pol = rng.randrange(3)
    ms = rng.choice([5, 8, 9, 12, 16, 16, 33])
    nkeys = min(NK, ms + rng.choice([1, 2, ms // 2, ms, ms + 2]))
    keys = rng.sample(range(NK), nkeys) if rng.random() < 0.5 else list(range(nkeys))
    sh = rng.choice([0, 1, 2])
    us = rng.random() < 0.25
    if us:
        ttl = rng.choice([-1, 1500, 20000, 40500])
        sh += 4
        adv = lambda: (U, rng.choice([1, 499, 500, 1000, 1501, max(ttl // 7, 1)]), 0)
    else:
        ttl = rng.choice([-1, -1, -1, 40, 200])
        adv = lambda: (A, rng.choice([1, 2, 5, max(ttl // 6, 1)]), 0)
    evs, i, v = [], 0, rng.choice([10, 5000])
    weights = [1.0 / (1 + (j % 7)) ** rng.choice([0, 1, 2]) for j in range(nkeys)]
    pending = []
    # fill phase: every key of a prefix once, so the store is full early
    order = keys[:]
    rng.shuffle(order)
    for k in order[:ms]:
        v += 1
        evs += [(W, i, wide(0, k, i % 2)), (K, i, v), (P, i, 0)]
        i += 1
    while i < ncalls:
        k = rng.choices(keys, weights)[0]
        svc = 1 if rng.random() < 0.1 else 0
        evs.append((W, i, wide(svc, k, 1 if rng.random() < 0.5 else 0)))
        y = rng.random()
        if y < 0.85:
            v += 1
            evs += [(K, i, v if rng.random() < 0.95 else 0), (P, i, 0)]
        elif y < 0.95:
            pending.append(i)          # completes later: overlapping misses
        else:
            evs.append((P, i, 0))
        i += 1
        if pending and rng.random() < 0.3:
            j = pending.pop(rng.randrange(len(pending)))
            v += 1
            evs += [(K, j, v), (P, j, 0)]
        if ttl > 0 and rng.random() < 0.15:
            evs.append(adv())
    for j in pending:
        v += 1
        evs += [(K, j, v), (P, j, 0)]
    # probe every key once at the end (hits show what is held; at most max_size may hit)
    for k in keys:
        evs += [(W, i, wide(0, k, 0)), (P, i, 0)]
        i += 1
    return mk(pol, ms, ttl, sh, i, evs)


def ttl_script(rng):
    """one or two keys, TTLs with sub-millisecond parts / 1 s / 1 h / u64::MAX us; lookups at ttl-1us, ttl, ttl+1us after the store,
    through a fresh clone or the long-lived service value"""
    pol = rng.randrange(3)
    ms = rng.choice([1, 2, 3])
    shm = rng.choice([0, 1, 2])
    kind = rng.randrange(6)
    if kind < 3:
        ttl, sh = rng.choice([999, 1500, 20000, 1, 1001]), shm + 4
        T = ttl
    elif kind == 3:
        ttl, sh = 1000, shm            # 1 s in ms
        T = 1000 * ttl
    elif kind == 4:
        ttl, sh = 3600000, shm         # 1 h
        T = 1000 * ttl
    else:
        ttl, sh = rng.choice([U64, U64 // 1000]), shm + 4
        T = 10 ** 12
    evs, i, v = [], 0, 70
    k = rng.randrange(NK)
    for _ in range(rng.randint(1, 4)):
        v += 1
        evs += [(W, i, wide(0, k, i % 2)), (K, i, v), (P, i, 0)]
        i += 1
        d = rng.choice([T - 1, T, T + 1, T // 2, T - T // 1000 - 1, T + 999])
        d = max(d, 0)
        if rng.random() < 0.5 and d > 2:
            cut = rng.randrange(1, d)
            evs += [(U, cut, 0), (U, d - cut, 0)]
        else:
            evs.append((U, d, 0))
        evs += [(W, i, wide(0, k, rng.randrange(2))), (P, i, 0)]
        i += 1
        if rng.random() < 0.5:
            evs += [(U, rng.choice([1, 1, 2, 999]), 0), (W, i, wide(0, k, rng.randrange(2))), (P, i, 0)]
            i += 1
        if rng.random() < 0.3:
            k2 = (k + 1) % NK
            v += 1
            evs += [(W, i, wide(0, k2, 0)), (K, i, v), (P, i, 0)]
            i += 1
    return mk(pol, ms, ttl, sh, i, evs)


def huge_script(rng, inserts=14):
    """stores above the usual sampled-eviction thresholds: max_size 64..130 with max_size + inserts keys out of 0..239
    (op 7). Fill the store, use every key a different number of times (a few not at all), then store new keys: every
    insert evicts, and the policy victim is one particular entry among > 64 (> 128). Closed calls only (the model's
    cost grows with the square of the script length)."""
    pol = rng.choice([1, 1, 0, 2])
    ms = rng.choice([65, 70, 100, 128, 129, 130, 130])
    nk = min(NK2, ms + inserts)
    keys = rng.sample(range(NK2), nk)
    sh = rng.choice([0, 1, 2])
    evs, i, v = [], 0, 9000

    def closed(k, ok=True):
        nonlocal i, v
        v += 1
        evs.extend([(W2, i, wide2(0, k, i % 2)), (K, i, v), (P, i, 0)] if ok else [(W2, i, wide2(0, k, i % 2)), (P, i, 0)])
        i += 1

    for k in keys[:ms]:
        closed(k)
    # uses: a random subset is hit 1..3 times, in random order; a few keys stay at their insertion count
    cold = set(rng.sample(keys[:ms], rng.choice([1, 1, 2, 5])))
    hitlist = []
    for k in keys[:ms]:
        if k not in cold:
            hitlist += [k] * rng.choice([1, 1, 2, 3])
    rng.shuffle(hitlist)
    for k in hitlist:
        closed(k, ok=False)
    for k in keys[ms:]:
        closed(k)
        if rng.random() < 0.3:
            closed(k, ok=False)        # the newcomer is used once: it is no longer the obvious next victim
    # probe a sample of the keys (what is held; at most max_size may hit)
    for k in rng.sample(keys, min(len(keys), 12)):
        closed(k, ok=False)
    return mk(pol, ms, -1, sh, i, evs)


def hot_script(rng, ha=None, hb=None):
    """LFU with two or three keys used very often (around 15, 255, 300 times), the less used one (ha < hb uses) must be
    the victim: counters that wrap at 256 or saturate show"""
    ms = rng.choice([2, 3])
    ha = ha if ha is not None else rng.choice([13, 14, 15, 253, 254, 254, 300])
    hb = hb if hb is not None else ha + rng.choice([2, 3])
    sh = rng.choice([0, 1, 2])
    ka, kb, kc, kd = rng.sample(range(NK), 4)
    evs, i, v = [], 0, 100

    def closed(k, ok=True):
        nonlocal i, v
        v += 1
        evs.extend([(W, i, wide(0, k, 1)), (K, i, v), (P, i, 0)] if ok else [(W, i, wide(0, k, 1)), (P, i, 0)])
        i += 1

    closed(ka)
    closed(kb)
    order = [ka] * ha + [kb] * hb
    if rng.random() < 0.5:
        rng.shuffle(order)
    for k in order:
        closed(k, ok=False)
    if ms == 3:
        closed(kd)
        for _ in range(hb + 5):
            closed(kd, ok=False)
    closed(kc)                     # evicts ka (used less than kb and kd)
    for k in (kb, ka):
        closed(k, ok=False)
    return mk(1, ms, -1, sh, i, evs)


def nano_script(rng):
    """nanosecond clock ((sh//8) odd): TTLs and instants with a nanosecond part; lookups at ttl-1ns / ttl / ttl+1ns and
    inside the last microsecond"""
    pol = rng.randrange(3)
    ms = rng.choice([1, 2])
    shm = rng.choice([0, 1, 2])
    ttl = rng.choice([1500, 1999, 1, 999, 1000001, 20000500])
    sh = shm + 4 + 8
    evs, i, v = [], 0, 70
    k = rng.randrange(NK)
    for _ in range(rng.randint(1, 3)):
        v += 1
        evs += [(W, i, wide(0, k, i % 2)), (K, i, v), (P, i, 0)]
        i += 1
        d = max(rng.choice([ttl - 1, ttl, ttl + 1, ttl + 499, ttl + 999, ttl // 2]), 0)
        if rng.random() < 0.5 and d > 2:
            cut = rng.randrange(1, d)
            evs += [(U, cut, 0), (U, d - cut, 0)]
        else:
            evs.append((U, d, 0))
        evs += [(W, i, wide(0, k, rng.randrange(2))), (P, i, 0)]
        i += 1
        if rng.random() < 0.3:
            evs += [(A, 1, 0), (W, i, wide(0, k, 0)), (P, i, 0)]
            i += 1
    return mk(pol, ms, ttl, sh, i, evs)


def unbounded_script(rng, pol=None, ms=None, sh=None):
    """max_size = usize::MAX or usize::MAX/2 (ONLY these two above 2^26): building the layer must not reserve max_size
    entries; everything is stored, nothing is ever evicted"""
    pol = rng.randrange(3) if pol is None else pol
    ms = rng.choice([U64, U64 // 2]) if ms is None else ms
    sh = rng.choice([0, 1, 2]) if sh is None else sh
    ttl = rng.choice([-1, -1, 20])
    nkeys = rng.randint(2, 6)
    keys = rng.sample(range(NK2), nkeys)
    evs, i, v = [], 0, 300
    pending = []
    for _ in range(rng.randint(6, 18)):
        k = rng.choice(keys)
        svc = rng.randrange(2) if rng.random() < 0.4 else 0
        evs.append((W2, i, wide2(svc, k, rng.randrange(2))))
        y = rng.random()
        if y < 0.75:
            v += 1
            evs += [(K, i, v if rng.random() < 0.9 else 0), (P, i, 0)]
        elif y < 0.9:
            pending.append(i)
        else:
            evs.append((P, i, 0))
        i += 1
        if pending and rng.random() < 0.4:
            j = pending.pop(0)
            v += 1
            evs += [(K, j, v), (P, j, 0)]
        if ttl > 0 and rng.random() < 0.2:
            evs.append((A, rng.choice([1, 20, 21]), 0))
    for k in keys:
        evs += [(W2, i, wide2(0, k, 0)), (P, i, 0)]
        i += 1
    return mk(pol, ms, ttl, sh, i, evs)


def overlap_script(rng):
    """several misses in flight at once, many on one key, completed and polled in random order"""
    pol = rng.randrange(3)
    ms = rng.choice([1, 2, 3])
    ttl = rng.choice([-1, 10])
    sh = rng.choice([0, 1, 2])
    n = rng.randint(3, 7)
    keys = [rng.choice([0, 0, 1, 2, 3]) for _ in range(n)]
    evs = [(0, i, keys[i] + (8 if rng.random() < 0.15 else 0)) for i in range(n)]
    rest = []
    v = 40
    for i in range(n):
        v += 1
        y = rng.random()
        rest.append((4, i, v if y < 0.8 else (0 if y < 0.9 else -1)))
    rng.shuffle(rest)
    polls = [(1, i, 0) for i in range(n)]
    rng.shuffle(polls)
    tail = []
    for j in range(n):
        tail.append(rest[j])
        if rng.random() < 0.5:
            tail.append(polls[j])
        if rng.random() < 0.2:
            tail.append((3, rng.choice([1, 10, 11]), 0))
        if rng.random() < 0.1:
            tail.append((2, rng.randrange(n), 0))
    tail += polls
    # then force evictions with closed calls on further keys, so that the order left behind
    # by updates of present keys (overlapping misses) becomes visible
    m = n
    for k in rng.sample([4, 5, 6, 7], rng.randint(0, 3)):
        v += 1
        tail += [(0, m, k), (4, m, v), (1, m, 0)]
        m += 1
    # probe every key afterwards
    probes = []
    for k in sorted(set(keys)):
        probes += [(0, m, k), (1, m, 0)]
        m += 1
    return mk(pol, ms, ttl, sh, m, evs + tail + probes)


def exhaustive(depth, pol, ms, ttl, sh):
    """all histories of `depth` closed steps over 3 keys: step = call+complete(ok)+poll of key k, call+err, or advance"""
    alpha = [("ok", 0), ("ok", 1), ("ok", 2), ("err", 0), ("adv", ttl if ttl > 0 else 1), ("adv", 1)]
    for steps in itertools.product(alpha, repeat=depth):
        evs, i, v = [], 0, 0
        for (kind, x) in steps:
            if kind == "adv":
                evs.append((3, x, 0))
            else:
                v += 1
                evs += [(0, i, x), (4, i, v if kind == "ok" else 0), (1, i, 0)]
                i += 1
        yield mk(pol, ms, ttl, sh, i, evs)


def exhaustive_raw(depth, pol, ms, ttl):
    """all event lists of `depth` events over 3 callers, 2 keys (overlap, drops, late completes)"""
    alpha = [(0, 0, 0), (0, 1, 0), (0, 2, 1), (1, 0, 0), (1, 1, 0), (1, 2, 0), (2, 0, 0), (4, 0, 7), (4, 1, 8), (4, 2, 9), (4, 1, 0), (3, ttl if ttl > 0 else 1, 0)]
    for evs in itertools.product(alpha, repeat=depth):
        yield mk(pol, ms, ttl, 0, 3, list(evs))


def generate(rng, tier):
    out = []
    if tier == "quick":
        out += [random_script(rng) for _ in range(900)]
        out += [sequential_script(rng) for _ in range(450)]
        out += [overlap_script(rng) for _ in range(500)]
        out += [big_script(rng, rng.choice([60, 120, 200])) for _ in range(180)]
        out += [ttl_script(rng) for _ in range(250)]
        out += [nano_script(rng) for _ in range(120)]
        out += [unbounded_script(rng) for _ in range(60)]
        out += [huge_script(rng) for _ in range(14)]
        out += [hot_script(rng) for _ in range(8)]
        for pol in range(3):
            out += list(exhaustive(3, pol, 2, 2, 0))
    else:
        out += [random_script(rng, 80) for _ in range(15000)]
        out += [sequential_script(rng, 30) for _ in range(8000)]
        out += [overlap_script(rng) for _ in range(5000)]
        out += [big_script(rng, rng.choice([60, 120, 200, 300])) for _ in range(1200)]
        out += [ttl_script(rng) for _ in range(3000)]
        out += [nano_script(rng) for _ in range(1500)]
        out += [unbounded_script(rng) for _ in range(600)]
        out += [huge_script(rng, rng.choice([14, 30])) for _ in range(300)]
        out += [hot_script(rng) for _ in range(150)]
        for pol in range(3):
            out += list(exhaustive(5, pol, 2, 2, 0))
            out += list(exhaustive(4, pol, 1, -1, 1))
            out += list(exhaustive_raw(4, pol, 1, 1))
    return out


# ----------------------------------------------------------------------------
# The property, restated over the implementation's trace alone.
#
#  (a) a call that makes no inner call (a hit) answers a key for which a response is stored, the latest one stored for
#      that key in that store, stored no longer than the TTL before the lookup; the value it resolves to is that one;
#  (b) a call makes at most one inner call, in call(); the future of a miss resolves only once the inner call has
#      completed, with the inner call's own response (Ok: that response; Err/panic: an error); no inner call is made at
#      any other moment;
#  (c) a store never holds more than max_size responses (max_size >= 1), observed twice: by the store-content view, and
#      black-box — the keys that hit between two stores were all held at once;
#  (d) whenever an unexpired entry leaves a store that is full (at ANY event: the poll that inserts, a call() that makes
#      room in advance, a background task), only one unexpired entry goes and no other unexpired entry ranks strictly
#      before it under a reading of the policy that is consistent with every earlier eviction from that store:
#        LRU  last use = last hit or last store | last hit or insertion (an overwrite is not a use)
#        LFU  uses = hits + overwrites | hits | hits since the last store (all since the key became present)
#        FIFO first in = became present | last stored
#      Storing a response evicts an unexpired entry only if the store is full and the key is new.
#      Entries whose TTL has run out may leave at any time (lazily on lookup, swept on insert, ...), alone or with the
#      victim, and are never counted as competitors of the victim.
#
#  WHEN a response counts as stored is read off the store-content view, not off the caller's future: a response is in the
#  store from the event at which the bit of its (store, key) appears; for a key that is already present (overwrite) the
#  moment is not observable, so every poll of the miss from the completion of its inner call to the poll that resolves
#  it is a possible moment, and a hit may return any value that is the latest under one of these possibilities (on the
#  code as it is there is exactly one: the resolving poll). The usage statistics of clause (d) carry the same
#  uncertainty as intervals.
#  Store-content view = live response instances; if that accounting breaks anywhere in the run (negative count), the
#  live key instances; if both break, clauses (c-by-view) and (d) cannot be evaluated and only the black-box clauses run —
#  such a run can never pass the check, because the model's trace has no negative mask (correspondence mismatch).
#  Nothing else: listener events, in-flight accounting, which tied entry goes, an unexpired entry leaving a store that is
#  NOT full outside a store (a later call is then simply a miss), `>` vs `>=` at the TTL are left to the model comparison.
class _Ent:
    __slots__ = ("cands", "ins", "last_hit", "hits", "st_lo", "st_hi", "upd_lo", "upd_hi", "hls_lo", "hls_hi")

    def __init__(self, cands, j):
        self.cands = list(cands)            # possible "latest stored": (value, instant, event index)
        self.ins, self.last_hit, self.hits = j, -1, 0
        self.st_lo = self.st_hi = j         # event index of the last store
        self.upd_lo = self.upd_hi = 0       # overwrites since the key became present
        self.hls_lo = self.hls_hi = 0       # hits since the last store

    def oldest(self):
        return min(c[1] for c in self.cands) if self.cands else None


# readings: entry -> (lowest, highest possible rank)
_RANKS = {
    0: [lambda x: (max(x.last_hit, x.st_lo), max(x.last_hit, x.st_hi)), lambda x: (max(x.last_hit, x.ins),) * 2],
    1: [lambda x: (x.hits + x.upd_lo, x.hits + x.upd_hi), lambda x: (x.hits, x.hits), lambda x: (x.hls_lo, x.hls_hi)],
    2: [lambda x: (x.ins, x.ins), lambda x: (x.st_lo, x.st_hi)],
}
_POLNAME = ["LRU", "LFU", "FIFO"]


def monitor(s, t):
    d = decode(s, t)
    if d is None:
        return "malformed or panicking run: %s" % t[:10]
    pol, ms, ttl_raw, sh, n, m = header(s)
    pol = pol if pol in (1, 2) else 0
    shared = mode_of(sh) != 0
    unit = unit_of(sh)
    ttl = ttl_us_of(ttl_raw, sh)
    allm = [masks(o) for (_, o) in d]
    # store-content view per store: 2 = responses, 0 = keys, None = neither usable
    view = []
    for st in (0, 1):
        if all(mm[2 + st] >= 0 for mm in allm):
            view.append(2)
        elif all(mm[st] >= 0 for mm in allm):
            view.append(0)
        else:
            view.append(None)
    now = 0
    ref = [dict(), dict()]     # store -> key -> _Ent : responses stored and, as far as observed, still held
    state = {}                 # caller -> ("hit", acceptable values, key) | ["miss", store, key, first possible store, pinned] | "done"
    gate = {}                  # caller -> outcome decided by the script (first Complete wins)
    window = [set(), set()]    # keys that hit since the last store into the store
    alive = [set(range(len(_RANKS[pol]))), set(range(len(_RANKS[pol])))]   # readings consistent so far

    def expired(ent, loose=True):
        o = ent.oldest()
        return ttl >= 0 and o is not None and now - o >= ttl

    for j, (e, o) in enumerate(d):
        op, a, b = e
        r, val, started = o[0], o[1], o[2]
        valid = 0 <= a < n
        now += adv_of(e, unit)
        call = call_of(e) if (op in (0, 5, 7) and valid and a not in state) else None
        if started and call is None:
            return "event %d %s: the inner service was called although no new request arrived" % (j, e)
        poss = None            # (store, key, value, caller record, resolved): this poll may have stored the value
        if call is not None:
            svc, k, _reuse = call
            st = 0 if shared else svc
            ent = ref[st].get(k)
            if started > 1:
                return "event %d %s: one request called the inner service %d times" % (j, e, started)
            if started == 0:
                # a hit: must be the latest stored value of this key, stored no longer than the TTL ago
                if ent is None or not ent.cands:
                    return "event %d %s: no inner call, but store %d holds no stored response for key %d" % (j, e, st, k)
                fresh = set(c[0] for c in ent.cands if ttl < 0 or now - c[1] <= ttl)
                if not fresh:
                    return "event %d %s: hit returns a value stored %d units ago, ttl %d (fine units: %s)" % (
                        j, e, min(now - c[1] for c in ent.cands), ttl, "ns" if unit == 10 ** 6 else "us")
                state[a] = ("hit", fresh, k)
                ent.last_hit = j
                ent.hits += 1
                ent.hls_lo += 1
                ent.hls_hi += 1
                window[st].add(k)
                if ms >= 1 and len(window[st]) > ms:
                    return "event %d %s: keys %s of store %d all hit without a store in between: more than max_size %d entries held" % (
                        j, e, sorted(window[st]), st, ms)
            else:
                # a miss; whether the entry was absent, expired or lost early is not the property's business
                state[a] = ["miss", st, k, None, False]
                if ent is not None and view[st] is None:
                    del ref[st][k]
        elif op == 1 and valid:
            stt = state.get(a)
            if stt is None or stt == "done":
                pass
            elif stt[0] == "hit":
                if r in (2, 5):
                    return "event %d %s: a request answered without an inner call resolved to an error (%d)" % (j, e, r)
                if r == 1:
                    if val not in stt[1]:
                        return "event %d %s: hit for key %d returned %d, latest stored value is %s" % (
                            j, e, stt[2], val, "/".join(str(x) for x in sorted(stt[1])))
                    state[a] = "done"
            else:
                _, st, k, first, pinned = stt
                g = gate.get(a)
                if r in (1, 2, 5):
                    if g is None:
                        return "event %d %s: miss resolved (%d) before the inner service completed" % (j, e, r)
                    if g > 0 and (r != 1 or val != g):
                        return "event %d %s: miss returned (%d,%d), inner response was %d" % (j, e, r, val, g)
                    if g == 0 and r != 2:
                        return "event %d %s: inner error came back as %d" % (j, e, r)
                    if g < 0 and r != 5:
                        return "event %d %s: inner panic came back as %d" % (j, e, r)
                    state[a] = "done"
                if g is not None and g > 0 and not pinned:
                    poss = (st, k, g, stt, r == 1)
        elif op == 2 and valid:
            if a in state:
                state[a] = "done"
        elif op == 4 and valid:
            gate.setdefault(a, b)

        # --- the stores after this event ---
        for st in (0, 1):
            before = ref[st]
            mine = poss if (poss is not None and poss[0] == st) else None
            if view[st] is None:
                # no content view: nothing is ever seen leaving; a response counts as (possibly) stored at every poll
                # of its miss from the completion of the inner call on
                pres_has = lambda x: (x in before) or (mine is not None and x == mine[1])
                appeared = [mine[1]] if (mine is not None and mine[1] not in before) else []
                lost = []
            else:
                pm = allm[j][view[st] + st]
                pres_has = lambda x, pm=pm: (pm >> x) & 1 == 1
                lost = [x for x in before if not pres_has(x)]
                appeared = [x for x in range(pm.bit_length()) if (pm >> x) & 1 and x not in before]
            # (d) unexpired entries leaving
            expd = [x for x in lost if expired(before[x])]
            vic = [x for x in lost if x not in expd]
            if ms >= 1 and vic:
                full = len(before) - len(expd) >= ms
                is_store = bool(appeared) or mine is not None
                if is_store and not (full and appeared):
                    return "event %d %s: storing key %s evicted unexpired key %d although store %d %s (%d unexpired entries, max_size %d)" % (
                        j, e, (appeared or [mine[1]])[0], vic[0], st,
                        "was not full" if not full else "already held the key", len(before) - len(expd), ms)
                if full:
                    if len(vic) > 1:
                        return "event %d %s: %d unexpired entries (keys %s) left the full store %d at once" % (j, e, len(vic), vic, st)
                    v = vic[0]
                    comp = [before[x] for x in before if x != v and x not in expd and not expired(before[x])]
                    ok = set()
                    for ri in alive[st]:
                        rank = _RANKS[pol][ri]
                        lo = rank(before[v])[0]
                        if all(lo <= rank(y)[1] for y in comp):
                            ok.add(ri)
                    if not ok:
                        return ("event %d %s: %s evicted key %d of store %d although another unexpired entry ranks before it under every reading "
                                "of the policy%s" % (j, e, _POLNAME[pol], v, st,
                                                     "" if len(alive[st]) == len(_RANKS[pol]) else " that fits the earlier evictions"))
                    alive[st] = ok
                # an unexpired entry leaving a store that is not full, outside a store: lost early, not ranked
            for x in lost:
                del before[x]
            # responses that entered the store
            for x in appeared:
                if mine is not None and x == mine[1]:
                    before[x] = _Ent([(mine[2], now, j)], j)
                    mine[3][4] = True          # pinned: the later polls of this miss store nothing
                else:
                    # not during a poll of a miss on that key: any miss on it whose inner call has completed Ok
                    cs_ = [(gate[c], now, j) for c, sx in state.items()
                           if isinstance(sx, list) and sx[1] == st and sx[2] == x and not sx[4] and gate.get(c, 0) > 0]
                    before[x] = _Ent(cs_, j)
                window[st] = set()
            if mine is not None and mine[1] not in appeared and mine[1] in before and pres_has(mine[1]):
                # the key was present before and still is: an overwrite now, or at an earlier / later poll of this miss
                _, k, g, rec, resolved = mine
                ent = before[k]
                first = rec[3]
                if first is None:
                    rec[3] = first = j
                    ent.upd_hi += 1
                if resolved and first == j:
                    ent.cands = [(g, now, j)]
                    ent.st_lo = ent.st_hi = j
                    ent.upd_lo += 1
                    ent.hls_lo = ent.hls_hi = 0
                elif resolved:
                    ent.cands = [c for c in ent.cands if c[2] >= first] + [(g, now, j)]
                    ent.st_lo, ent.st_hi = max(ent.st_lo, first), j
                    ent.upd_lo += 1
                    ent.hls_lo = 0
                else:
                    ent.cands.append((g, now, j))
                    ent.st_hi = j
                    ent.hls_lo = 0
                window[st] = set()
            if view[st] is not None and ms >= 1:
                cnt = bin(allm[j][view[st] + st]).count("1")
                if cnt > ms:
                    return "event %d %s: store %d holds %d entries, max_size %d" % (j, e, st, cnt, ms)
    return None


def nontrivial(s, t):
    d = decode(s, t)
    if not d:
        return True
    prev = [0, 0]
    for (e, o) in d:
        km = masks(o)
        if o[4] & 1:
            return True
        if (prev[0] & ~km[0]) or (prev[1] & ~km[1]):
            return True
        prev = [max(km[0], 0), max(km[1], 0)]
    return False


def classify(s, t):
    pol, ms, ttl, sh, n, m = header(s)
    tu = ttl_us_of(ttl, sh)
    unit = unit_of(sh)
    out = [["lru", "lfu", "fifo"][pol % 3],
           "max_size_%s" % (ms if ms <= 4 else ("5_8" if ms <= 8 else ("9_16" if ms <= 16 else ("17_33" if ms <= 33 else ("34_130" if ms <= 130 else ("huge" if ms <= 10 ** 6 else "usize_max")))))),
           "ttl_%s" % ("none" if tu < 0 else ("zero" if tu == 0 else ("submilli" if tu % unit else ("ge_1s" if tu >= 1000 * unit else "finite")))),
           "store_%s" % ("private" if mode_of(sh) == 0 else "shared")]
    if unit == 10 ** 6:
        out.append("nanosecond_clock")
    d = decode(s, t)
    if d:
        prev = [0, 0]
        seen = set()
        maxinfl = 0
        maxheld = 0
        keys = set()
        reused = {}
        uses = {}
        for (e, o) in d:
            km = masks(o)
            c = call_of(e) if e[0] in (0, 5, 7) else None
            if c:
                keys.add(c[1])
                uses[c[1]] = uses.get(c[1], 0) + 1
                if c[2]:
                    reused[c[0]] = reused.get(c[0], 0) + 1
            if o[4] & 1:
                seen.add("saw_hit")
            if e[0] in (0, 5, 7) and o[2]:
                seen.add("saw_miss")
            if o[0] == 2:
                seen.add("saw_inner_err")
            if o[0] == 5:
                seen.add("saw_panic")
            if min(km) < 0:
                seen.add("content_view_broken")
            k0, k1 = max(km[0], 0), max(km[1], 0)
            lost = (prev[0] & ~k0) | (prev[1] & ~k1)
            if lost and e[0] == 1:
                seen.add("saw_eviction")
                held = max(bin(prev[0]).count("1"), bin(prev[1]).count("1"))
                if held > 8:
                    seen.add("eviction_from_more_than_8")
                if held > 64:
                    seen.add("eviction_from_more_than_64")
                if held > 128:
                    seen.add("eviction_from_more_than_128")
            if lost and e[0] in (0, 5, 7):
                seen.add("saw_expiry")
            if e[0] == 2:
                seen.add("has_cancel")
            if e[0] == 6 and e[1] % 1000:
                seen.add("submilli_advance")
            if k1:
                seen.add("second_store_used")
            maxinfl = max(maxinfl, o[3])
            maxheld = max(maxheld, bin(k0).count("1"), bin(k1).count("1"))
            prev = [k0, k1]
        if maxinfl >= 2:
            seen.add("overlapping_misses")
        if any(v >= 2 for v in reused.values()):
            seen.add("one_service_value_called_repeatedly")
        if len(keys) > 8:
            seen.add("more_than_8_keys")
        if len(keys) > 120:
            seen.add("more_than_120_keys")
        if uses and max(uses.values()) > 256:
            seen.add("one_key_used_more_than_256_times")
        if maxheld > 8:
            seen.add("held_more_than_8")
        if maxheld > 64:
            seen.add("held_more_than_64")
        out += sorted(seen)
    return out


def shrink(s):
    """candidate smaller scripts: drop a closed call (call+complete+poll of one caller), drop one event"""
    pol, ms, ttl, sh, n, m = header(s)
    evs = events(s)
    if len(evs) > 30:
        for c in sorted({e[1] for e in evs if e[0] in (0, 5, 7)}, reverse=True):
            rest = [e for e in evs if not (e[0] in (0, 1, 2, 4, 5, 7) and e[1] == c)]
            if len(rest) < len(evs):
                yield mk(pol, ms, ttl, sh, n, rest)
    for i in range(len(evs)):
        yield mk(pol, ms, ttl, sh, n, evs[:i] + evs[i + 1:])
