"""C10 cache: generator, oracle extraction (LFU victim), independent reference-cache monitor."""
import itertools

PROP = "C10"
DRIVER = "c10"
MODEL = "C10"
MODEL_QUALID = "Model.Cache.run_script"
FORMAT = ("script [policy 0=LRU 1=LFU 2=FIFO; max_size; ttl_ms (-1 none); shared 0=private(CacheLayer) 1=SharedCacheLayer::builder 2=CacheLayer::shared(); "
          "n callers; m events; (op a b)*m] op 0=Call a on service b//8 with key b%8, 1=Poll a, 2=Drop a, 3=Advance a ms, "
          "4=Complete a b (b>0 Ok with value b, 0 Err, <0 panic); the model additionally reads m oracle values appended by model_input "
          "(key that left a store during each event of the implementation run; consulted only when an LFU insert must evict). "
          "trace: per event [r; value; inner calls started; inner calls in flight; listener events 1=hit 2=miss 4=eviction (+64 model: oracle not a minimal-frequency key); "
          "bitmask of keys present in store 0; in store 1] with r: -1 no poll, 0 pending, 1 Ok, 2 Err(Inner), 5 panicked, 9 nothing to poll")
RULE = ("random histories over 2-5 keys and two services (private or shared store), three policies, max_size 0..4, TTL none/0/short/long with advances "
        "landing exactly on, just before and just after the TTL, overlapping misses (also on one key), ok (unique serial values) / err / panic / never-completing inner "
        "calls, cancellations; all short histories over a tiny alphabet in thorough; non-trivial = an eviction, an expiry or a hit happened")
TRUSTED = ["lru 0.16 LruCache (get/push/pop), std HashMap/VecDeque inside LfuStore/FifoStore are modelled as one ordered list; tied to the libraries only by this correspondence run",
           "presence of keys in a store is observed by counting live instances of the harness's key type (store copies = live - pending misses)",
           "LFU victim among minimal-frequency keys (HashMap iteration order) is taken from the implementation run as an oracle; the model checks it is a minimal-frequency key and the theorems hold for every oracle",
           "poll atomicity: the store mutex is never held across an await"]
ASSUMPTIONS = ["whole-millisecond instants", "single-threaded deterministic executor: one poll at a time",
               "max_size >= 1 for the size/victim theorems (0 is exercised by the correspondence run only: LRU turns it into 100, LFU/FIFO into 1)"]

REC = 7


def header(s):
    s = list(s) + [0] * 6
    return s[0], s[1], s[2], s[3], s[4], s[5]


def events(s):
    pol, ms, ttl, sh, n, m = header(s)
    body = list(s[6:6 + 3 * m])
    body += [0] * (3 * m - len(body))
    return [tuple(body[3 * j:3 * j + 3]) for j in range(m)]


def decode(s, t):
    evs = events(s)
    if len(t) != REC * len(evs):
        return None
    return [(e, t[REC * j:REC * j + REC]) for j, e in enumerate(evs)]


def model_input(s, t):
    """script ++ per-event oracle: the key whose presence bit went 1 -> 0 during the event (-1: none)"""
    d = decode(s, t)
    pol, ms, ttl, sh, n, m = header(s)
    base = list(s[:6 + 3 * m])
    if d is None:
        return base
    prev = [0, 0]
    orc = []
    for (_, o) in d:
        gone = -1
        for st in (0, 1):
            lost = prev[st] & ~o[5 + st] if o[5 + st] >= 0 else 0
            if lost and gone < 0:
                gone = lost.bit_length() - 1
            prev[st] = o[5 + st]
        orc.append(gone)
    return base + orc


# ----------------------------------------------------------------------------
def mk(pol, ms, ttl, sh, n, evs):
    s = [pol, ms, ttl, sh, n, len(evs)]
    for e in evs:
        s += list(e)
    return s


def corpus():
    C, P, D, A, K = 0, 1, 2, 3, 4
    return [
        # miss, store, hit returns the stored serial; second key; eviction by LRU after a use of key 0
        mk(0, 2, -1, 0, 6, [(C, 0, 0), (K, 0, 101), (P, 0, 0), (C, 1, 0), (P, 1, 0), (C, 2, 1), (K, 2, 102), (P, 2, 0),
                            (C, 3, 0), (P, 3, 0), (C, 4, 2), (K, 4, 103), (P, 4, 0), (C, 5, 1), (P, 5, 0)]),
        # hit exactly at the TTL, miss one ms later (expired entry removed on read)
        mk(0, 2, 20, 0, 4, [(C, 0, 3), (K, 0, 7), (P, 0, 0), (A, 20, 0), (C, 1, 3), (P, 1, 0), (A, 1, 0), (C, 2, 3), (P, 2, 0)]),
        # two overlapping misses on one key: both call the inner service, the later completion wins
        mk(2, 2, -1, 1, 4, [(C, 0, 1), (C, 1, 9), (K, 1, 11), (K, 0, 12), (P, 1, 0), (P, 0, 0), (C, 2, 1), (P, 2, 0)]),
        # errors and panics are not cached
        mk(1, 1, -1, 0, 4, [(C, 0, 2), (K, 0, 0), (P, 0, 0), (C, 1, 2), (K, 1, -1), (P, 1, 0), (C, 2, 2), (K, 2, 5), (P, 2, 0), (C, 3, 2), (P, 3, 0)]),
        # LFU tie: keys 0 and 1 both have frequency 1 when key 2 arrives (victim = HashMap order)
        mk(1, 2, -1, 0, 5, [(C, 0, 0), (K, 0, 1), (P, 0, 0), (C, 1, 1), (K, 1, 2), (P, 1, 0), (C, 2, 2), (K, 2, 3), (P, 2, 0),
                            (C, 3, 0), (P, 3, 0), (C, 4, 1), (P, 4, 0)]),
        # FIFO: update of a present key keeps its queue position
        mk(2, 2, -1, 0, 6, [(C, 0, 0), (C, 1, 0), (K, 0, 1), (P, 0, 0), (C, 2, 1), (K, 2, 2), (P, 2, 0), (K, 1, 3), (P, 1, 0),
                            (C, 3, 2), (K, 3, 4), (P, 3, 0), (C, 4, 0), (P, 4, 0), (C, 5, 1), (P, 5, 0)]),
        # private stores: service 1 does not see service 0's entry
        mk(0, 2, -1, 0, 3, [(C, 0, 4), (K, 0, 9), (P, 0, 0), (C, 1, 12), (P, 1, 0), (C, 2, 4), (P, 2, 0)]),
        # shared (CacheLayer::shared): it does
        mk(0, 2, -1, 2, 3, [(C, 0, 4), (K, 0, 9), (P, 0, 0), (C, 1, 12), (P, 1, 0), (C, 2, 4), (P, 2, 0)]),
        # max_size 0
        mk(2, 0, -1, 0, 3, [(C, 0, 0), (K, 0, 5), (P, 0, 0), (C, 1, 1), (K, 1, 6), (P, 1, 0), (C, 2, 0), (P, 2, 0)]),
    ]


def random_script(rng, maxlen=40):
    pol = rng.randrange(3)
    ms = rng.choice([1, 1, 2, 2, 2, 3, 3, 4, 0] if rng.random() < 0.5 else [1, 2, 2, 3])
    ttl = rng.choice([-1, -1, 0, 5, 5, 20, 20, 60])
    sh = rng.choice([0, 0, 1, 2])
    nkeys = rng.choice([2, 3, 3, 4, 5])
    two_svcs = rng.random() < (0.6 if sh == 0 else 0.4)
    L = rng.randint(4, maxlen)
    evs = []
    ncall = 0
    open_ = []       # callers with a live future
    serial = [rng.choice([1, 100, 1000])]
    hot = rng.randrange(nkeys)
    advs = [1, 1, 2] + ([ttl, ttl, ttl + 1, max(ttl - 1, 1)] if ttl > 0 else [5, 20])

    def nxt():
        serial[0] += 1
        return serial[0]

    while len(evs) < L:
        x = rng.random()
        if x < 0.30 or not open_:
            k = hot if rng.random() < 0.35 else rng.randrange(nkeys)
            svc = rng.randrange(2) if two_svcs else 0
            evs.append((0, ncall, 8 * svc + k))
            open_.append(ncall)
            # often decide the outcome right away (possibly before the call is polled)
            y = rng.random()
            if y < 0.55:
                evs.append((4, ncall, nxt()))
            elif y < 0.65:
                evs.append((4, ncall, rng.choice([0, 0, -1])))
            if rng.random() < 0.5:
                evs.append((1, ncall, 0))
            ncall += 1
        elif x < 0.62:
            i = rng.choice(open_)
            evs.append((1, i, 0))
        elif x < 0.76:
            i = rng.choice(open_)
            evs.append((4, i, nxt() if rng.random() < 0.8 else rng.choice([0, -1])))
        elif x < 0.80:
            i = rng.choice(open_)
            evs.append((2, i, 0))
            open_.remove(i)
        elif x < 0.97:
            evs.append((3, rng.choice(advs), 0))
        else:
            evs.append((rng.choice([0, 1, 2, 4, 5, 7]), rng.choice([-1, ncall + 3, rng.randrange(max(ncall, 1))]), rng.choice([0, 3, 16, -2, 200])))
        if rng.random() < 0.15 and open_:
            # forget callers that are certainly finished to keep polls useful
            open_ = open_[-4:]
    return mk(pol, ms, ttl, sh, ncall + rng.choice([0, 0, 1]), evs)


def sequential_script(rng, n=14):
    """closed calls (call, complete, poll) — long sequential histories that fill, hit, update, expire and evict"""
    pol = rng.randrange(3)
    ms = rng.choice([1, 2, 2, 3, 3, 4])
    ttl = rng.choice([-1, -1, 10, 30])
    sh = rng.choice([0, 1, 2])
    nkeys = ms + rng.choice([0, 1, 1, 2])
    nkeys = min(max(nkeys, 2), 8)
    evs = []
    v = rng.choice([10, 500])
    for i in range(n):
        k = rng.randrange(nkeys)
        svc = rng.randrange(2) if rng.random() < 0.3 else 0
        evs.append((0, i, 8 * svc + k))
        v += 1
        evs.append((4, i, v if rng.random() < 0.9 else 0))
        evs.append((1, i, 0))
        if ttl > 0 and rng.random() < 0.4:
            evs.append((3, rng.choice([1, ttl // 2, ttl, ttl + 1]), 0))
    return mk(pol, ms, ttl, sh, n, evs)


def overlap_script(rng):
    """several misses in flight at once, many on one key, completed and polled in random order"""
    pol = rng.randrange(3)
    ms = rng.choice([1, 2, 3])
    ttl = rng.choice([-1, 10])
    sh = rng.choice([0, 1, 2])
    n = rng.randint(3, 7)
    keys = [rng.choice([0, 0, 1, 2, 3]) for _ in range(n)]
    evs = [(0, i, keys[i] + (8 if rng.random() < 0.15 else 0)) for i in range(n)]
    rest = []
    v = 40
    for i in range(n):
        v += 1
        y = rng.random()
        rest.append((4, i, v if y < 0.8 else (0 if y < 0.9 else -1)))
    rng.shuffle(rest)
    polls = [(1, i, 0) for i in range(n)]
    rng.shuffle(polls)
    tail = []
    for j in range(n):
        tail.append(rest[j])
        if rng.random() < 0.5:
            tail.append(polls[j])
        if rng.random() < 0.2:
            tail.append((3, rng.choice([1, 10, 11]), 0))
        if rng.random() < 0.1:
            tail.append((2, rng.randrange(n), 0))
    tail += polls
    # then force evictions with closed calls on further keys, so that the order left behind
    # by updates of present keys (overlapping misses) becomes visible
    m = n
    for k in rng.sample([4, 5, 6, 7], rng.randint(0, 3)):
        v += 1
        tail += [(0, m, k), (4, m, v), (1, m, 0)]
        m += 1
    # probe every key afterwards
    probes = []
    for k in sorted(set(keys)):
        probes += [(0, m, k), (1, m, 0)]
        m += 1
    return mk(pol, ms, ttl, sh, m, evs + tail + probes)


def exhaustive(depth, pol, ms, ttl, sh):
    """all histories of `depth` closed steps over 3 keys: step = call+complete(ok)+poll of key k, call+err, or advance"""
    alpha = [("ok", 0), ("ok", 1), ("ok", 2), ("err", 0), ("adv", ttl if ttl > 0 else 1), ("adv", 1)]
    for steps in itertools.product(alpha, repeat=depth):
        evs, i, v = [], 0, 0
        for (kind, x) in steps:
            if kind == "adv":
                evs.append((3, x, 0))
            else:
                v += 1
                evs += [(0, i, x), (4, i, v if kind == "ok" else 0), (1, i, 0)]
                i += 1
        yield mk(pol, ms, ttl, sh, i, evs)


def exhaustive_raw(depth, pol, ms, ttl):
    """all event lists of `depth` events over 3 callers, 2 keys (overlap, drops, late completes)"""
    alpha = [(0, 0, 0), (0, 1, 0), (0, 2, 1), (1, 0, 0), (1, 1, 0), (1, 2, 0), (2, 0, 0), (4, 0, 7), (4, 1, 8), (4, 2, 9), (4, 1, 0), (3, ttl if ttl > 0 else 1, 0)]
    for evs in itertools.product(alpha, repeat=depth):
        yield mk(pol, ms, ttl, 0, 3, list(evs))


def generate(rng, tier):
    out = []
    if tier == "quick":
        out += [random_script(rng) for _ in range(900)]
        out += [sequential_script(rng) for _ in range(500)]
        out += [overlap_script(rng) for _ in range(600)]
        for pol in range(3):
            out += list(exhaustive(3, pol, 2, 2, 0))
    else:
        out += [random_script(rng, 80) for _ in range(15000)]
        out += [sequential_script(rng, 30) for _ in range(8000)]
        out += [overlap_script(rng) for _ in range(5000)]
        for pol in range(3):
            out += list(exhaustive(5, pol, 2, 2, 0))
            out += list(exhaustive(4, pol, 1, -1, 1))
            out += list(exhaustive_raw(4, pol, 1, 1))
    return out


# ----------------------------------------------------------------------------
# Independent reference cache over the implementation's trace.
def cap_ref(pol, ms):
    return (100 if ms == 0 else ms) if pol == 0 else max(1, ms)


def monitor(s, t):
    d = decode(s, t)
    if d is None:
        return "malformed or panicking run: %s" % t[:10]
    pol, ms, ttl, sh, n, m = header(s)
    cap = cap_ref(pol, ms)
    now = 0
    ref = [dict(), dict()]     # store -> key -> [value, stored_at, last_use, inserted_seq, freq]
    state = {}                 # caller -> ("hit", value) | ("miss", store, key) | "done"
    gate = {}                  # caller -> outcome decided by the script (first Complete wins)
    prev = [0, 0]
    for j, (e, o) in enumerate(d):
        op, a, b = e
        r, val, started, infl, evt, p0, p1 = o
        pres = [p0, p1]
        if p0 < 0 or p1 < 0:
            return "event %d: key instance accounting went negative" % j
        valid = 0 <= a < n
        expect_pres = None
        if op == 3:
            now += max(a, 0)
        if op != 0 and started:
            return "event %d %s: inner service called outside call()" % (j, e)
        if op == 0 and valid and 0 <= b < 16 and a not in state:
            st = 0 if sh else b // 8
            k = b % 8
            ent = ref[st].get(k)
            if (evt & 1) and started:
                return "event %d %s: a cache hit called the inner service" % (j, e)
            if started == 0:
                # hit: must be the latest stored value of this key, not older than the TTL
                if not (evt & 1):
                    return "event %d %s: no inner call but no Hit event either" % (j, e)
                if ent is None:
                    return "event %d %s: hit for a key that holds no stored value in store %d" % (j, e, st)
                if ttl >= 0 and now - ent[1] > ttl:
                    return "event %d %s: hit returns a value stored %d ms ago, ttl %d" % (j, e, now - ent[1], ttl)
                state[a] = ("hit", ent[0], k)
                ent[2] = j
                ent[4] += 1
            else:
                if started != 1:
                    return "event %d %s: a miss called the inner service %d times" % (j, e, started)
                if not (evt & 2):
                    return "event %d %s: inner call without a Miss event" % (j, e)
                # A miss although the reference cache holds a fresh entry is NOT a violation of C10 (the property
                # constrains what a hit may return, not when a lookup must hit); it is a deviation from the
                # model, reported by the correspondence comparison. The reference simply forgets the entry.
                if ent is not None:
                    del ref[st][k]          # expired (or dropped early by the implementation): gone after the read
                state[a] = ("miss", st, k)
        elif op == 1 and valid:
            stt = state.get(a)
            if stt is None or stt == "done":
                if r != 9:
                    return "event %d %s: poll of a finished/absent call returned %d" % (j, e, r)
            elif stt[0] == "hit":
                if r != 1 or val != stt[1]:
                    return "event %d %s: hit for key %d returned (%d,%d), latest stored value is %d" % (j, e, stt[2], r, val, stt[1])
                state[a] = "done"
            else:
                _, st, k = stt
                g = gate.get(a)
                if g is None:
                    if r != 0:
                        return "event %d %s: miss resolved (%d) before the inner service completed" % (j, e, r)
                elif g > 0:
                    if r != 1 or val != g:
                        return "event %d %s: miss returned (%d,%d), inner response was %d" % (j, e, r, val, g)
                    # store it in the reference cache
                    ent = ref[st].get(k)
                    if ent is not None:
                        ref[st][k] = [g, now, j, ent[3], ent[4] + 1]
                        if prev[st] & ~pres[st]:
                            return "event %d %s: updating a present key evicted another entry" % (j, e)
                    else:
                        if len(ref[st]) >= cap:
                            lost = prev[st] & ~pres[st]
                            if lost == 0 or lost & (lost - 1):
                                return "event %d %s: insert into a full store must evict exactly one entry (lost mask %d)" % (j, e, lost)
                            vk = lost.bit_length() - 1
                            if vk not in ref[st]:
                                return "event %d %s: evicted key %d is not in the reference cache" % (j, e, vk)
                            others = [x for kk, x in ref[st].items() if kk != vk]
                            ve = ref[st][vk]
                            if pol == 0 and any(x[2] < ve[2] for x in others):
                                return "event %d %s: LRU evicted key %d although another entry was used less recently" % (j, e, vk)
                            if pol == 1 and any(x[4] < ve[4] for x in others):
                                return "event %d %s: LFU evicted key %d (frequency %d) although another entry has a lower frequency" % (j, e, vk, ve[4])
                            if pol == 2 and any(x[3] < ve[3] for x in others):
                                return "event %d %s: FIFO evicted key %d although another entry was inserted earlier" % (j, e, vk)
                            del ref[st][vk]
                        ref[st][k] = [g, now, j, j, 1]
                    state[a] = "done"
                elif g == 0:
                    if r != 2:
                        return "event %d %s: inner error must come back as Inner, got %d" % (j, e, r)
                    state[a] = "done"
                else:
                    if r != 5:
                        return "event %d %s: inner panic, got %d" % (j, e, r)
                    state[a] = "done"
        elif op == 2 and valid:
            if a in state:
                state[a] = "done"
        elif op == 4 and valid:
            gate.setdefault(a, b)
        # the store holds exactly the reference cache's keys (errors, drops, advances change nothing)
        for st in (0, 1):
            want = sum(1 << k for k in ref[st] if k < 8)
            if pres[st] != want:
                # Entries the implementation no longer holds are forgotten by the reference as well (losing an
                # entry early is not a C10 violation; the model comparison reports it). Entries it holds beyond the
                # reference can only follow a wrong eviction, which the victim clauses above have already reported.
                for k in [k for k in ref[st] if k < 8 and not (pres[st] >> k) & 1]:
                    del ref[st][k]
            if ms >= 1 and bin(pres[st]).count("1") > ms:
                return "event %d %s: store %d holds %d entries, max_size %d" % (j, e, st, bin(pres[st]).count("1"), ms)
        pend = sum(1 for x in state.values() if x != "done" and x[0] == "miss")
        if infl != pend:
            return "event %d %s: %d inner calls in flight, %d misses pending" % (j, e, infl, pend)
        prev = pres
    return None


def nontrivial(s, t):
    d = decode(s, t)
    if not d:
        return True
    prev = [0, 0]
    for (e, o) in d:
        if o[4] & 1:
            return True
        if (prev[0] & ~o[5]) or (prev[1] & ~o[6]):
            return True
        prev = [o[5], o[6]]
    return False


def classify(s, t):
    pol, ms, ttl, sh, n, m = header(s)
    out = [["lru", "lfu", "fifo"][pol % 3], "max_size_%d" % ms,
           "ttl_%s" % ("none" if ttl < 0 else ("zero" if ttl == 0 else "finite")),
           "store_%s" % ("private" if sh == 0 else "shared")]
    d = decode(s, t)
    if d:
        prev = [0, 0]
        seen = set()
        maxinfl = 0
        for (e, o) in d:
            if o[4] & 1:
                seen.add("saw_hit")
            if e[0] == 0 and o[2]:
                seen.add("saw_miss")
            if o[0] == 2:
                seen.add("saw_inner_err")
            if o[0] == 5:
                seen.add("saw_panic")
            lost = (prev[0] & ~o[5]) | (prev[1] & ~o[6])
            if lost and e[0] == 1:
                seen.add("saw_eviction")
            if lost and e[0] == 0:
                seen.add("saw_expiry")
            if e[0] == 2:
                seen.add("has_cancel")
            if o[6]:
                seen.add("second_store_used")
            maxinfl = max(maxinfl, o[3])
            prev = [o[5], o[6]]
        if maxinfl >= 2:
            seen.add("overlapping_misses")
        out += sorted(seen)
    return out


def shrink(s):
    """candidate smaller scripts: remove one event"""
    pol, ms, ttl, sh, n, m = header(s)
    evs = events(s)
    for i in range(len(evs)):
        yield mk(pol, ms, ttl, sh, n, evs[:i] + evs[i + 1:])
