"""C13 adaptive limiter: AimdController / Aimd / Vegas under a baton scheduler, and the
AdaptiveService over a gated inner service: generator + independent monitor."""
import itertools

PROP = "C13"
DRIVER = "c13"
MODEL = "C13"
MODEL_QUALID = "Model.Adaptive.run_script"
# Flip to True once /repo's service.rs takes its atomics from verif::atomic (notes/hook-patches/0001): from then
# on a tree whose service atomics are NOT instrumented is reported by the monitor instead of being skipped.
REQUIRE_SERVICE_HOOK = True

FORMAT = ("kinds 1..3 [kind 1=AimdController 2=Aimd 3=Vegas; p0..p6 (initial, min, max, increase_by|alpha, "
          "dec_num|beta, dec_den, latency threshold ns); npre; (code arg)*; nthreads; {ncalls; (code arg)*}*; "
          "nsched; thread-id*] calls 0 record_success(arg: latency ns) 1 record_failure 2 record_successes(arg) "
          "3 limit() 4 reset() (kind 1); each schedule entry = ONE atomic operation -> per entry [op 0 skip/1 load/2 store/3 cas/"
          "4 rmw; return value of the call completed by this step or -1; limit()] after the prelude's return values, per worker [steps; results], "
          "[limit()].  kind 4 [4; initial; min; max; increase_by; dec_num; dec_den; threshold_ms; (op a b)*] "
          "op 1 poll_ready 2 call a 3 poll a 4 complete a b(0 ok 1 err 2 panic) 5 drop a 6 advance a ms "
          "7 inner readiness a(0 ready 1 pending 2 err) 8 call a with panicking inner.call() 9 algorithm()."
          "record_failure() 10 algorithm().record_success(0) (feedback not caused by this service's calls) 11 poll_ready by parked caller a (own clone + own waker) "
          "12 was a's waker woken since its last check (91/90) 13 caller a goes away (92) -> per event "
          "[code; in_flight(); limit()] + after dropping everything [probe poll_ready code; in_flight(); limit()]; "
          "codes 10 Pending(inner) 11 Ready 12 Err 13 Pending(at limit) 20 created 21 id in use 26 inner.call() "
          "panicked 30 Pending 31 Ok 32 Err 35 panicked 39 not alive 40 50 dropped 59 nothing 60 70 80 81.  "
          "kind 6: the events of kind 4 on AdaptiveService<_, Vegas> [6; initial; min; max; alpha; beta; 0; 0; ...]; "
          "kinds 7 / 8: as 4 / 6 with the algorithm made by its builder, wrapped in the Algorithm enum, the service made "
          "by AdaptiveLimiterLayer::layer.  kind 5 [5; initial; min; max; increase_by; dec_num; dec_den; 0; threads as in "
          "kinds 1..3]: clones of one AdaptiveService<_, Aimd> on worker threads, one schedule entry = one atomic step "
          "on in_flight / current_limit / the limit; calls 0 poll_ready (11/13) 1 call into slot arg (20) 2 finish slot "
          "arg/10 with arg%10 = 0 ok (31) 1 err (32) 2 inner future panics (35) 3 dropped unpolled (50) 3 call with "
          "panicking inner.call() (26) -> prelude results, per entry [op; completed result or -1; in_flight(); limit()], "
          "per worker [steps; results], [in_flight(); limit()]; the trace [-5] = the service's atomics are not instrumented "
          "on this tree (kind 5 cannot be scheduled)")
RULE = ("algorithms: exhaustive schedules for 2-3 workers x <=2 feedback calls, random schedules for up to 4 "
        "workers x 6 calls (successes, slow successes, failures, record_successes, limit reads), limits at "
        "min/max, factors 0..1 and >1, Vegas with >= 10 warm-up samples so that adjust_limit runs, power-of-two "
        "RTTs; service: exhaustive event words up to length 3-5 over two call ids plus random histories with "
        "drops at every point, panicking inner futures and panicking inner.call(), slow responses around the latency threshold, inner "
        "readiness Pending/Err, feedback reaching the shared algorithm from outside (limit moves while calls are "
        "in flight, poll_ready checked before any own call starts or completes), the same over Vegas (latencies in ms "
        "chosen so that binary64 and the exact instance agree, checked in Python), over the Algorithm enum and the "
        "layer/builder route; clones on 2-3 worker threads (kind 5): exhaustive schedules for ready/call/finish "
        "programs at limits 1-2, random ones with panics and drops; non-trivial = two workers interleaved, or a call "
        "ended by drop/panic/error")
TRUSTED = [
    "verif-hooks atomics (see C08); per-location sequential consistency; Vegas' cross-location reads (min_rtt, "
    "smoothed, sample_count, limit) are modelled as interleaved single-location operations",
    "f64 arithmetic: the AIMD decrease is an abstract function dec in the theorems (bounds hold for EVERY dec); "
    "the executable instance floor(x*num/den) is used only on (factor, max) pairs where IEEE binary64 agrees "
    "(checked with Python floats); Vegas smoothing (0.5/0.5) = floor((a+b)/2) below 2^52 and the queue estimate "
    "= floor((sm-mn)*limit/mn) when min_rtt is a power of two: the generator only uses power-of-two RTTs; "
    "the theorems hold for every smoothing and queue-estimate function",
    "the semaphore/current_limit bookkeeping of AdaptiveService has no observable effect (no admission decision "
    "reads it) and is not modelled",
]
ASSUMPTIONS = ["0 <= min_limit <= max_limit <= usize::MAX = 2^64-1 (AimdController::new / Vegas::new panic when "
               "min > max); limits up to usize::MAX are inside the algorithm-level statements: the model saturates "
               "at usize::MAX exactly where the code does (Vegas::adjust_limit since /repo 96e4b2b)",
               "service level: since /repo 3fb3ccc the service's tokio Semaphore mirror saturates at MAX_PERMITS "
               "(usize::MAX >> 3) instead of panicking; limits up to usize::MAX are driven through the service"]
U64 = (1 << 64) - 1

S, F, N, LIM, RESET = 0, 1, 2, 3, 4      # RESET: AimdController::reset(), kind 1 only
# kind 5 call codes
RDY, CALL, FIN, CPANIC = 0, 1, 2, 3


def model_input(s, impl_trace):
    """kind 5 needs the service's in_flight / current_limit atomics under the scheduler; a driver built against
    a tree without that hook answers [-5] and the model is asked the same question (kind 55)"""
    if s and s[0] == 5 and list(impl_trace) == [-5] and not REQUIRE_SERVICE_HOOK:
        return [55] + list(s[1:])
    return s


def mk(kind, params, pre, progs, sched):
    s = [kind] + list(params) + [0] * (7 - len(params))
    s.append(len(pre))
    for c in pre:
        s += list(c)
    s.append(len(progs))
    for p in progs:
        s.append(len(p))
        for c in p:
            s += list(c)
    s.append(len(sched))
    s += list(sched)
    return s


SVC_KINDS = (4, 6, 7, 8)


def mk_svc(params, evs, kind=4):
    s = [kind] + list(params) + [0] * (7 - len(params))
    for e in evs:
        s += list(e)
    return s


def parse(s):
    kind, params = s[0], s[1:8]
    if kind in SVC_KINDS:
        evs = [tuple(s[8 + 3 * i:11 + 3 * i]) for i in range((len(s) - 8) // 3)]
        return kind, params, evs, None, None
    pos = 8
    npre = s[pos]; pos += 1
    pre = [(s[pos + 2 * i], s[pos + 2 * i + 1]) for i in range(npre)]; pos += 2 * npre
    nth = s[pos]; pos += 1
    progs = []
    for _ in range(nth):
        nc = s[pos]; pos += 1
        progs.append([(s[pos + 2 * i], s[pos + 2 * i + 1]) for i in range(nc)]); pos += 2 * nc
    ns = s[pos]; pos += 1
    return kind, params, pre, progs, s[pos:pos + ns]


def r53(x):
    """(x as f64) for 0 <= x < 2^64 as an integer: round to nearest even at 53 bits (= Model.Budget.r53)"""
    if x < 1 << 53:
        return x
    e = x.bit_length() - 53
    p = 1 << e
    q, r = divmod(x, p)
    if 2 * r > p or (2 * r == p and q % 2 == 1):
        q += 1
    return q * p


assert all(r53(x) == int(float(x)) for x in [(1 << 64) - 1, (1 << 64) - 2, (1 << 53) + 3, (1 << 53) + 1, (1 << 63) + 1024,
                                             (1 << 63) + 1025, (1 << 60) + (1 << 59), 12345678901234567890, 3 << 61])


def float_exact(num, den, mx):
    """is Model.Budget.dec_q num den = ((x as f64) * (num/den)) as usize for all x <= mx?  Factors 0, 1 and
    1/2^k are exact for EVERY x (rounding of x modelled by r53, product by a power of two exact)"""
    if den == 0:
        return False
    if num == 0 or num == den or (num == 1 and den in (2, 4, 8)):
        return True
    if mx > 1000:
        return False
    f = num / den
    return all(int(float(x) * f) == (x * num) // den for x in range(0, mx + 1))


FACTORS = [(1, 2), (0, 1), (1, 4), (3, 4), (1, 1), (3, 2), (9, 10), (1, 3), (7, 10), (2, 1)]


def corpus():
    out = []
    # two concurrent feedbacks on the controller: the second compare-exchange fails and retries
    out.append(mk(1, [5, 1, 10, 1, 1, 2], [], [[(S, 0)], [(S, 0)]], [0, 1, 0, 1, 1]))
    out.append(mk(1, [8, 1, 10, 1, 1, 2], [], [[(F, 0)], [(S, 0), (LIM, 0)]], [0, 1, 1, 0, 0, 1]))
    out.append(mk(2, [4, 2, 6, 2, 1, 2, 1000], [], [[(S, 500), (S, 1001)], [(F, 0), (LIM, 0)]], [0, 1, 0, 1, 0, 0, 1, 1]))
    # Vegas: 10 warm-up samples, then a racing success and failure
    warm = [(S, 1024)] * 9 + [(S, 2048)]
    out.append(mk(3, [10, 1, 20, 3, 6], warm, [[(S, 4096)], [(F, 0)]], [0, 0, 0, 1, 0, 0, 0, 0, 0, 0, 1, 0]))
    out.append(mk(3, [10, 1, 20, 3, 6], warm, [[(S, 512), (LIM, 0)], [(S, 8192)]], [0, 1] * 10))
    # Vegas pushed against max (equal RTTs: queue 0 < alpha) and against min (queue > beta)
    out.append(mk(3, [3, 1, 3, 3, 6], [(S, 1024)] * 10, [[(S, 1024), (LIM, 0)], [(S, 1024)]], [0, 1] * 12))
    out.append(mk(3, [2, 2, 9, 3, 6], [(S, 1024)] + [(S, 65536)] * 9, [[(S, 65536), (LIM, 0)], [(S, 65536)]], [0, 1] * 12))
    # the usize boundary (review C13 item 1): initial = max = usize::MAX, ten equal RTTs (queue estimate 0 <
    # alpha: increase). Before /repo 96e4b2b `current_limit + 1` overflowed: panic with overflow checks,
    # wrap to 0 < min_limit without. Now saturating_add: the limit stays at usize::MAX.
    eq10 = [(S, 1024)] * 10
    out.append(mk(3, [U64, 1, U64, 3, 6], eq10, [[(LIM, 0)]], []))
    out.append(mk(3, [U64, 1, U64, 3, 6], eq10, [[(S, 1024), (LIM, 0)], [(S, 1024)]], [0, 1] * 12))
    out.append(mk(3, [U64 - 1, U64 - 2, U64, 3, 6], eq10, [[(S, 1024), (LIM, 0)], [(S, 1024), (S, 1024)]], [0, 1] * 12))
    out.append(mk(3, [U64, U64, U64, 0, 0], eq10, [[(S, 1024), (F, 0)], [(S, 1024), (LIM, 0)]], [0, 1, 1, 0] * 6))
    # ... and huge limits pushed down again (queue estimate >> beta) and halved
    out.append(mk(3, [U64, 1, U64, 3, 6], [(S, 1024)] + [(S, 65536)] * 9, [[(S, 65536), (LIM, 0)], [(F, 0), (LIM, 0)]], [0, 1] * 12))
    # AimdController at the boundary: saturating_add / saturating_mul (factor 0: the decrease is exact)
    out.append(mk(1, [U64, 0, U64, 1, 0, 1], [(S, 0)], [[(S, 0), (LIM, 0)], [(N, 5), (LIM, 0)]], [0, 1, 0, 1, 0, 1]))
    out.append(mk(1, [U64 - 3, 1, U64, 1 << 62, 0, 1], [], [[(N, 5), (LIM, 0)], [(S, 0), (LIM, 0)]], [0, 1, 0, 1, 0, 1]))
    out.append(mk(1, [5, 1, U64, U64, 0, 1], [(S, 0), (LIM, 0), (F, 0)], [[(N, U64), (LIM, 0)], [(S, 0), (F, 0)]], [0, 1, 0, 1, 0, 1, 1]))
    out.append(mk(2, [U64, U64 - 1, U64, 3, 0, 1, 1000], [(S, 5)], [[(S, 500), (LIM, 0)], [(S, 1001), (S, 1)]], [0, 1, 0, 1, 0, 1, 1]))
    # the service: two calls cancelled while in flight (the upstream defect shape), limit 2
    out.append(mk_svc([2, 1, 2, 1, 1, 2, 100],
                      [(1, 0, 0), (2, 0, 0), (1, 0, 0), (2, 1, 0), (1, 0, 0), (3, 0, 0), (3, 1, 0),
                       (5, 0, 0), (5, 1, 0), (1, 0, 0)]))
    out.append(mk_svc([2, 1, 4, 1, 1, 2, 100],
                      [(2, 0, 0), (2, 1, 0), (2, 2, 0), (4, 0, 0), (4, 1, 1), (4, 2, 2), (3, 0, 0), (3, 1, 0),
                       (3, 2, 0), (1, 0, 0)]))
    # inner.call() panics synchronously: the slot must come back (leaked before /repo 0debd80:
    # in_flight() stayed 2 and the probe was Pending for ever)
    out.append(mk_svc([2, 1, 2, 1, 1, 2, 100], [(8, 0, 0), (1, 0, 0), (8, 1, 0), (1, 0, 0)]))
    out.append(mk_svc([1, 1, 2, 1, 1, 2, 100], [(2, 0, 0), (8, 1, 0), (1, 0, 0), (5, 0, 0), (8, 2, 0), (1, 0, 0)]))
    # the limit moves without a call/completion of this service (shared algorithm): two calls in
    # flight at limit 3, an external failure lowers the limit to 1 < in_flight: poll_ready must be
    # Pending; external successes raise it above in_flight: poll_ready must be Ready.
    # (a poll_ready that compares with a limit cached at the service's own calls gets both wrong)
    out.append(mk_svc([3, 1, 4, 1, 1, 2, 100],
                      [(2, 0, 0), (2, 1, 0), (1, 0, 0), (9, 0, 0), (1, 0, 0), (10, 0, 0), (1, 0, 0),
                       (10, 0, 0), (1, 0, 0)]))
    out.append(mk_svc([1, 1, 3, 1, 1, 2, 100],
                      [(2, 0, 0), (1, 0, 0), (10, 0, 0), (1, 0, 0), (9, 0, 0), (1, 0, 0)]))
    out.append(mk_svc([2, 0, 2, 1, 0, 1, 100], [(1, 0, 0), (9, 0, 0), (1, 0, 0), (10, 0, 0), (1, 0, 0)]))
    # slow success (latency > threshold) is a congestion signal
    out.append(mk_svc([4, 1, 8, 1, 1, 2, 10],
                      [(2, 0, 0), (6, 11, 0), (4, 0, 0), (3, 0, 0), (2, 1, 0), (6, 10, 0), (4, 1, 0), (3, 1, 0)]))
    # inner readiness is passed through only below the limit
    out.append(mk_svc([1, 1, 3, 1, 1, 2, 100],
                      [(7, 1, 0), (1, 0, 0), (7, 2, 0), (1, 0, 0), (7, 0, 0), (2, 0, 0), (1, 0, 0), (7, 1, 0), (1, 0, 0)]))
    # ---- the service over Vegas (kind 6), and over the Algorithm enum through builder + layer (7 Aimd, 8 Vegas)
    def one(a, ms, o=0):
        return [(1, 0, 0), (2, a, 0), (6, ms, 0), (4, a, o), (3, a, 0)]
    warm = [e for a in range(10) for e in one(a, 2)]
    slow = one(10, 64) + one(11, 64)
    for k in (6, 8):
        out.append(mk_svc([3, 1, 5, 3, 6], warm + slow + [(9, 0, 0), (1, 0, 0)], k))
        # cancelled and panicking calls under Vegas: the slots come back, the limit is untouched
        out.append(mk_svc([2, 1, 5, 3, 6], [(2, 0, 0), (2, 1, 0), (1, 0, 0), (5, 0, 0), (4, 1, 2), (3, 1, 0), (1, 0, 0),
                                            (8, 2, 0), (1, 0, 0)], k))
        # limit pushed against max (equal latencies) and halved by failures down to min
        out.append(mk_svc([4, 2, 5, 3, 6], [e for a in range(12) for e in one(a, 4)]
                          + [e for a in range(12, 16) for e in one(a, 4, 1)], k))
    out.append(mk_svc([2, 1, 2, 1, 1, 2, 100],
                      [(1, 0, 0), (2, 0, 0), (1, 0, 0), (2, 1, 0), (1, 0, 0), (3, 0, 0), (3, 1, 0),
                       (5, 0, 0), (5, 1, 0), (1, 0, 0)], 7))
    out.append(mk_svc([4, 1, 8, 1, 1, 2, 10],
                      [(2, 0, 0), (6, 11, 0), (4, 0, 0), (3, 0, 0), (2, 1, 0), (6, 10, 0), (4, 1, 0), (3, 1, 0)], 7))
    # two callers parked by a refusal at limit 1, the first goes away, the call in flight completes: the second
    # must learn that the slot is free (a wake handed only to the longest-waiting, departed, caller is lost)
    out.append(mk_svc([1, 1, 1, 1, 1, 2, 100], [(1, 0, 0), (2, 0, 0), (11, 0, 0), (11, 1, 0), (13, 0, 0), (4, 0, 0), (3, 0, 0),
                                                (12, 1, 0), (11, 1, 0)]))
    out.append(mk_svc([2, 1, 2, 1, 1, 2, 100], [(2, 0, 0), (2, 1, 0), (11, 0, 0), (11, 1, 0), (11, 2, 0), (13, 0, 0), (13, 1, 0),
                                                (5, 0, 0), (12, 2, 0), (5, 1, 0), (12, 2, 0), (11, 2, 0)]))
    # ---- review 2 ----
    # record_failure's upper clamp with a factor <= 1: (2^64-2) as f64 = 2^64, cast saturates to usize::MAX > max;
    # 2^53+3 rounds to 2^53+4 > max (an upper clamp applied only for factors > 1 stores a limit above max)
    for mxl in (U64 - 1, (1 << 53) + 3):
        out.append(mk(1, [mxl, 0, mxl, 1, 1, 1], [(F, 0), (LIM, 0)], [[(F, 0), (LIM, 0)], [(S, 0), (F, 0)]], [0, 1, 0, 1, 0, 1, 1]))
        out.append(mk(2, [mxl, 1, mxl, 1, 1, 1, 1000], [(S, 1001), (LIM, 0)], [[(F, 0), (LIM, 0)], [(S, 5), (S, 2000)]], [0, 1, 0, 1, 0, 1, 1]))
    out.append(mk(1, [1 << 60, 1, U64, 1 << 59, 1, 2], [(F, 0), (S, 0)], [[(F, 0), (LIM, 0)], [(S, 0), (F, 0)]], [0, 1, 0, 1, 0, 1, 1]))
    # AimdController::reset() goes back to the CLAMPED configured initial limit (500 with max 10 -> 10; 0 with min 2 -> 2)
    out.append(mk(1, [500, 1, 10, 1, 1, 2], [(F, 0), (RESET, 0), (LIM, 0)], [[(RESET, 0), (LIM, 0)], [(F, 0), (S, 0)]], [0, 1, 0, 1, 0, 1]))
    out.append(mk(1, [0, 2, 9, 1, 1, 2], [(S, 0), (RESET, 0), (LIM, 0)], [[(S, 0), (RESET, 0)], [(F, 0), (LIM, 0)]], [0, 1, 1, 0, 0, 1]))
    # Vegas::new / the builder clamp the initial limit from BOTH sides (initial 0 or below min -> min)
    out.append(mk(3, [0, 2, 5, 3, 6], [(LIM, 0)], [[(S, 1024), (LIM, 0)], [(F, 0), (LIM, 0)]], [0, 1, 0, 1] * 3))
    out.append(mk(3, [1, 4, 8, 3, 6], [(LIM, 0), (F, 0), (LIM, 0)], [[(S, 1024)], [(LIM, 0)]], [0, 1, 0, 0]))
    for k in (6, 8):
        out.append(mk_svc([0, 2, 5, 3, 6], [(1, 0, 0), (2, 0, 0), (2, 1, 0), (1, 0, 0), (9, 0, 0), (1, 0, 0), (5, 0, 0), (1, 0, 0)], k))
        out.append(mk_svc([1, 4, 8, 3, 6], [(1, 0, 0), (2, 0, 0), (6, 2, 0), (4, 0, 0), (3, 0, 0), (1, 0, 0)], k))
    # limits beyond tokio's Semaphore::MAX_PERMITS = usize::MAX >> 3 through the service (3fb3ccc: it panicked in
    # Semaphore::new at construction, or in add_permits in the middle of a call after a few upward moves)
    big = 1 << 60
    ok = lambda a: [(1, 0, 0), (2, a, 0), (4, a, 0), (3, a, 0)]
    out.append(mk_svc([big, 1, U64, big, 1, 2, 1000], [e for a in range(10) for e in ok(a)], 7))      # notes/fix-demos/adaptive_big_limit.rs
    out.append(mk_svc([big, 1, big, 1 << 59, 1, 2, 1000],
                      [(1, 0, 0), (2, 0, 0), (4, 0, 1), (3, 0, 0)] + ok(1) + [(1, 0, 0), (2, 2, 0), (4, 2, 1), (3, 2, 0)] + ok(3) + ok(4), 4))
    out.append(mk_svc([U64, 1, U64, 1, 0, 1, 1000], ok(0) + [(9, 0, 0), (1, 0, 0)] + ok(1), 4))          # construction above MAX_PERMITS
    out.append(mk_svc([(U64 >> 3) + 1, 1, U64, 1, 1, 2, 1000], ok(0) + ok(1), 7))
    out.append(mk_svc([U64 >> 3, 1, U64, 1, 1, 2, 1000], ok(0) + ok(1) + [(9, 0, 0)] + ok(2) + ok(3), 4))
    # ---- clones of one service on worker threads (kind 5; the leading -1 entry only takes a snapshot)
    # limit 1: worker 0 is admitted and calls; worker 1's check, made while that call is in flight, is refused
    out.append(mk(5, [1, 1, 1, 1, 1, 2], [], [[(RDY, 0), (CALL, 0), (FIN, 0)], [(RDY, 0), (RDY, 0)]],
                  [-1, 0, 0, 0, 0, 0, 1, 1, 0, 0, 0, 0, 0, 0, 1, 1]))
    # two completions interleaved step by step (a release that is load;store would lose a decrement)
    out.append(mk(5, [2, 1, 2, 1, 1, 2], [], [[(CALL, 0), (FIN, 0), (RDY, 0)], [(CALL, 0), (FIN, 1), (RDY, 0)]],
                  [-1] + [0, 1] * 12))
    out.append(mk(5, [2, 1, 2, 1, 1, 2], [], [[(CALL, 0), (FIN, 3), (RDY, 0)], [(CALL, 0), (FIN, 2), (RDY, 0)]],
                  [-1, 0, 0, 0, 1, 1, 1, 0, 1, 0, 1, 0, 1]))
    # a synchronous panic in inner.call() races with a readiness check of the other clone
    out.append(mk(5, [1, 1, 2, 1, 1, 2], [(RDY, 0)], [[(CPANIC, 0), (RDY, 0)], [(RDY, 0), (CALL, 0), (FIN, 0)]],
                  [-1, 0, 1, 1, 0, 0, 1, 1, 1]))
    return out


def words(n, length):
    return itertools.product(range(n), repeat=length)


def rand_sched(rng, nth, total):
    style = rng.randrange(3)
    if style == 0:
        return [rng.randrange(nth) for _ in range(rng.randint(0, total))]
    if style == 1:
        sched = []
        while len(sched) < total:
            sched += [rng.randrange(nth)] * rng.randint(1, 4)
        return sched
    slow = rng.randrange(nth)
    sched = [rng.choice([t for t in range(nth) if t != slow] + ([slow] if rng.random() < 0.1 else []))
             for _ in range(total)]
    k = rng.randrange(len(sched) + 1)
    sched[k:k] = [slow] * rng.randint(1, 3)
    return sched


def rand_ctl_cfg(rng):
    mx = rng.choice([1, 2, 4, 8, 16, 100])
    mn = rng.choice([0, 1, mx // 2, mx])
    init = rng.choice([mn, mx, (mn + mx) // 2, mx + 3, 0])
    num, den = rng.choice(FACTORS)
    if not float_exact(num, den, mx):
        num, den = 1, 2
    return [init, mn, mx, rng.choice([0, 1, 1, 2, 5]), num, den]


RTTS = [1 << k for k in range(10, 21)]

BIGLIM = [U64, U64 - 1, U64 - 1, 1 << 63, (1 << 53) + 1, (1 << 53) + 3, (1 << 53) + 3, 1 << 32, 1 << 60]
BIGFACT = [(0, 1), (1, 1), (1, 1), (1, 2), (1, 4)]


def rand_big(rng, kind, nth):
    """limits at the usize boundary: the saturating adds/multiplications of the controller and of Vegas;
    decrease factors 0, 1 and 1/2^k (exact for every limit: at factor 1 the f64 round trip of a limit above 2^53
    can exceed max -- the reason for the upper clamp in record_failure)"""
    mx = rng.choice(BIGLIM)
    mn = rng.choice([0, 1, mx - 1, mx - 2, mx])
    init = rng.choice([mx, mx, mx - 1, mn, U64, 0])
    if kind == 3:
        params = [init, mn, mx, rng.choice([0, 1, 3]), rng.choice([3, 6, 1])]
        if rng.random() < 0.6:    # equal RTTs: increase against max
            base = rng.choice(RTTS[:6])
            alpha = [(S, base)] * 4 + [(F, 0), (LIM, 0)]
            pre = [(S, base)] * rng.choice([9, 10, 12])
        else:                     # queue estimate far above beta: decrease
            alpha = [(S, rng.choice(RTTS[8:])) for _ in range(4)] + [(F, 0), (LIM, 0)]
            pre = [(S, RTTS[0])] + [(S, RTTS[10])] * rng.choice([8, 9, 11])
        per_call = 8
    else:
        inc = rng.choice([0, 1, 2, 1 << 62, U64, mx])
        num, den = rng.choice(BIGFACT)
        params = [init, mn, mx, inc, num, den] + ([1000] if kind == 2 else [])
        if kind == 1:
            alpha = [(S, 0), (F, 0), (F, 0), (N, rng.choice([0, 1, 3, 1000, U64])), (LIM, 0), (RESET, 0)]
        else:
            alpha = [(S, 500), (S, 1001), (S, 1001), (F, 0), (LIM, 0)]
        pre = [rng.choice(alpha[:3]) for _ in range(rng.choice([0, 0, 2]))]
        per_call = 3
    progs = [[rng.choice(alpha) for _ in range(rng.randint(1, 5))] for _ in range(nth)]
    total = sum(len(p) for p in progs) * per_call
    return mk(kind, params, pre, progs, rand_sched(rng, nth, total))

SVC_ALPHA = [(1, 0, 0), (2, 0, 0), (3, 0, 0), (4, 0, 0), (4, 0, 1), (4, 0, 2), (5, 0, 0),
             (2, 1, 0), (3, 1, 0), (4, 1, 0), (5, 1, 0), (8, 2, 0), (9, 0, 0), (10, 0, 0)]


def rand_service(rng):
    mx = rng.choice([1, 2, 3, 5])
    mn = rng.choice([0, 1, 1, mx])
    init = rng.choice([mn, mx, max(mn, 1), 2])
    num, den = rng.choice([(1, 2), (0, 1), (3, 4), (1, 1), (1, 4)])
    thr = rng.choice([5, 10, 100000])
    n = rng.randint(3, 40)
    ids = rng.randint(1, 8)
    evs = []
    polite = rng.random() < 0.5      # every call() is preceded by a readiness check
    for _ in range(n):
        x = rng.random()
        a = rng.randrange(ids)
        if x < 0.15:
            evs.append((1, 0, 0))
        elif x < 0.35:
            if polite:
                evs.append((1, 0, 0))
            evs.append((2, a, 0))
        elif x < 0.55:
            evs.append((3, a, 0))
        elif x < 0.72:
            evs.append((4, a, rng.choice([0, 0, 1, 2])))
        elif x < 0.84:
            evs.append((5, a, 0))
        elif x < 0.92:
            evs.append((6, rng.choice([1, 4, 5, 6, 10, 11]), 0))
        elif x < 0.96:
            evs.append((7, rng.choice([0, 0, 1, 2]), 0))
        elif x < 0.98:
            if polite:
                evs.append((1, 0, 0))
            evs.append((8, a, 0))
        else:
            evs.append((rng.choice([9, 10]), 0, 0))
            evs.append((1, 0, 0))
    return mk_svc([init, mn, mx, rng.choice([1, 1, 2]), num, den, thr], evs)


def ext_feedback_service(rng):
    """calls in flight up to (or near) the limit, then feedback that reaches the shared algorithm
    from outside, with a readiness check after every limit move and before own calls/completions"""
    mx = rng.choice([2, 3, 4, 6])
    mn = rng.choice([0, 1, 1, 2 if mx > 2 else 1])
    init = rng.choice([mx, mx, max(mn, mx - 1), max(mn, 2)])
    num, den = rng.choice([(1, 2), (1, 2), (0, 1), (3, 4), (1, 4), (1, 1)])
    inc = rng.choice([1, 1, 2])
    evs = []
    nxt = 0
    fill = rng.choice([init, init, max(0, init - 1), init + 1])
    for _ in range(fill):
        if rng.random() < 0.5:
            evs.append((1, 0, 0))
        evs.append((2, nxt, 0)); nxt += 1
    evs.append((1, 0, 0))
    for _ in range(rng.randint(2, 10)):
        x = rng.random()
        if x < 0.4:
            evs.append((9, 0, 0))
        elif x < 0.8:
            evs.append((10, 0, 0))
        elif x < 0.9 and nxt > 0:
            a = rng.randrange(nxt)
            evs.append(rng.choice([(5, a, 0), (4, a, rng.choice([0, 1, 2])), (3, a, 0)]))
        else:
            evs.append((2, nxt, 0)); nxt += 1
        evs.append((1, 0, 0))
    return mk_svc([init, mn, mx, inc, num, den, 100000], evs)


# ---- Vegas under the service: latencies are whole ms; keep a script only when IEEE binary64 (what the code
# computes) and the model's exact integer instance agree at every feedback (checked with Python floats)
def svc_feedback(evs):
    """the feedback the service gives its algorithm, in order: ('ok', latency_ms) | ('err',) from the script alone"""
    now, start, sent, live, used, fb = 0, {}, {}, set(), set(), []
    for op, a, b in evs:
        a = max(a, 0)
        if op == 2:
            if a not in used:
                used.add(a); live.add(a); start[a] = now
        elif op == 3:
            if a in live and a in sent:
                live.discard(a)
                if sent[a] == 0:
                    fb.append(("ok", now - start[a]))
                elif sent[a] == 1:
                    fb.append(("err",))
        elif op == 4:
            sent.setdefault(a, b if b in (0, 1) else 2)
        elif op == 5:
            live.discard(a)
        elif op == 6:
            now += max(a, 0)
        elif op == 8 or op not in (1, 7, 9, 10, 11, 12, 13):
            used.add(a)
        elif op == 9:
            fb.append(("err",))
        elif op == 10:
            fb.append(("ok", 0))
    return fb


def vegas_exact(params, evs):
    init, mn_l, mx_l, alpha, beta = params[:5]
    lim = min(max(init, mn_l), mx_l)
    mn, sm, cnt = U64, 0, 0
    for f in svc_feedback(evs):
        if f[0] == "err":
            lim = max(lim // 2, mn_l)
            continue
        rtt = f[1] * 1000000
        if rtt < mn:
            mn = rtt
        if sm == 0:
            sm = rtt
        else:
            exact = (rtt + sm) // 2
            if int(0.5 * float(rtt) + (1.0 - 0.5) * float(sm)) != exact:
                return False
            sm = exact
        cnt += 1
        if cnt < 10 or mn == U64 or mn == 0 or sm == 0:
            continue
        if sm > mn:
            q = ((sm - mn) * lim) // mn
            if int(float(sm - mn) / float(mn) * float(lim)) != q:
                return False
        else:
            q = 0
        if q < alpha:
            lim = min(lim + 1, mx_l)
        elif q > beta:
            lim = max(max(lim - 1, 0), mn_l)
    return True


def rand_vegas_service(rng, kind):
    mx = rng.choice([2, 3, 5, 8])
    mn = rng.choice([0, 1, 1, 2, mx - 1])
    init = rng.choice([mn, mx, max(mn, 2), (mn + mx) // 2, 0, max(mn - 1, 0), mx + 2])
    alpha, beta = rng.choice([(3, 6), (1, 3), (0, 1), (3, 3)])
    base = rng.choice([1, 2, 4, 8])
    lats = [base] * 4 + [base * 2, base * 4, base * 16, base * 64, 0]
    evs, nxt, live = [], 0, []
    for _ in range(rng.randint(8, 40)):
        x = rng.random()
        if x < 0.15:
            evs.append((1, 0, 0))
        elif x < 0.5 or not live:
            if rng.random() < 0.7:
                evs.append((1, 0, 0))
            evs.append((2, nxt, 0)); live.append(nxt); nxt += 1
            if nxt >= 24:
                break
        elif x < 0.85:
            a = live.pop(rng.randrange(len(live)))
            evs += [(6, rng.choice(lats), 0), (4, a, rng.choice([0, 0, 0, 0, 1, 2])), (3, a, 0)]
        elif x < 0.92:
            a = live.pop(rng.randrange(len(live)))
            evs.append((5, a, 0))
        elif x < 0.96:
            evs.append((rng.choice([9, 10]), 0, 0)); evs.append((1, 0, 0))
        else:
            evs.append((8, nxt, 0)); nxt += 1
    params = [init, mn, mx, alpha, beta]
    if not vegas_exact(params, evs):
        return None
    return mk_svc(params, evs, kind)


# ---- clones on worker threads (kind 5)
def clone_prog(rng, ncalls):
    """a well-formed worker program: a slot is free when it is used, every future is finished"""
    prog, live = [], []
    free = [0, 1, 2, 3]
    for _ in range(ncalls):
        x = rng.random()
        if x < 0.3:
            prog.append((RDY, 0))
        elif x < 0.6 and free:
            if rng.random() < 0.6:
                prog.append((RDY, 0))
            sl = free.pop(0); live.append(sl); prog.append((CALL, sl))
        elif x < 0.92 and live:
            sl = live.pop(rng.randrange(len(live))); free.append(sl)
            prog.append((FIN, sl * 10 + rng.choice([0, 0, 0, 1, 2, 3])))
        else:
            prog.append((CPANIC, 0))
    for sl in live:
        prog.append((FIN, sl * 10 + rng.choice([0, 1, 2, 3])))
    return prog or [(RDY, 0)]


def rand_clones(rng):
    nth = rng.randint(2, 3)
    mx = rng.choice([1, 2, 2, 3])
    mn = rng.choice([0, 1, mx])
    init = rng.choice([mn, mx, mx])
    num, den = rng.choice([(1, 2), (0, 1), (3, 4), (1, 1)])
    progs = [clone_prog(rng, rng.randint(2, 7)) for _ in range(nth)]
    pre = rng.choice([[], [], [(RDY, 0)], [(CALL, 0)], [(CALL, 0), (FIN, 0)], [(CPANIC, 0)]])
    total = sum(8 if c[0] == FIN else 4 for p in progs for c in p)
    return mk(5, [init, mn, mx, rng.choice([1, 1, 2]), num, den], pre, progs, [-1] + rand_sched(rng, nth, total))


def parked_service(rng, kind):
    """callers parked by a refusal at the limit (own clone, own waker); some go away; slots are freed by
    completions, drops, panics or by the limit moving up; then every parked caller is asked whether it was woken"""
    mx = rng.choice([1, 2, 3, 4])
    mn = rng.choice([0, 1, 1])
    init = rng.choice([mx, mx, max(mn, 1)])
    if kind in (6, 8):
        params = [init, mn, mx, 3, 6]
    else:
        params = [init, mn, mx, rng.choice([1, 2]), rng.choice([1, 0, 3]), rng.choice([2, 1, 4]), 100000]
        if not float_exact(params[4], params[5], mx):
            params[4], params[5] = 1, 2
    evs, nxt = [], 0
    for _ in range(rng.choice([init, init, init + 1, max(init - 1, 0)])):
        evs += [(1, 0, 0), (2, nxt, 0)]; nxt += 1
    np = rng.randint(1, 4)
    for p in range(np):
        evs.append((11, p, 0))
        if rng.random() < 0.3:
            evs.append((12, p, 0))
    gone = [p for p in range(np) if rng.random() < 0.35]
    for p in gone:
        evs.append((13, p, 0))
    for _ in range(rng.randint(1, 4)):
        x = rng.random()
        if x < 0.5 and nxt > 0:
            a = rng.randrange(nxt)
            evs += rng.choice([[(5, a, 0)], [(4, a, 0), (3, a, 0)], [(4, a, 2), (3, a, 0)], [(4, a, 1), (3, a, 0)]])
        elif x < 0.7:
            evs.append((10, 0, 0))
        elif x < 0.8:
            evs.append((9, 0, 0))
        else:
            evs.append((6, 1, 0))
    for p in range(np):
        evs.append((12, p, 0))
    for p in range(np):
        if p not in gone and rng.random() < 0.7:
            evs.append((11, p, 0))
    if kind in (6, 8) and not vegas_exact(params, evs):
        return None
    return mk_svc(params, evs, kind)


def big_limit_service(rng):
    mxl = rng.choice([1 << 60, U64 >> 3, (U64 >> 3) + 1, 1 << 61, 1 << 63, U64])
    init = rng.choice([mxl, mxl, 1 << 60, 1 << 59])
    inc = rng.choice([1 << 59, 1 << 60, 1 << 58, 1])
    num, den = rng.choice([(1, 2), (1, 2), (0, 1), (1, 1), (1, 4)])
    evs, nxt = [], 0
    for _ in range(rng.randint(3, 14)):
        if nxt >= 24:
            break
        x = rng.random()
        evs.append((1, 0, 0)); evs.append((2, nxt, 0))
        if x < 0.75:
            evs += [(4, nxt, rng.choice([0, 0, 1])), (3, nxt, 0)]
        elif x < 0.85:
            evs.append((5, nxt, 0))
        nxt += 1
        if rng.random() < 0.2:
            evs.append((rng.choice([9, 10]), 0, 0))
    return mk_svc([init, rng.choice([0, 1, 1 << 58]), mxl, inc, num, den, 1000], evs, rng.choice([4, 4, 7]))


def generate(rng, tier):
    out = []
    thorough = tier == "thorough"
    ctl_cfgs = [[5, 1, 10, 1, 1, 2], [2, 2, 3, 2, 0, 1], [9, 0, 9, 1, 3, 4]]
    one = [[(S, 0)], [(F, 0)]]
    two = one + [[(a, 0), (b, 0)] for a in (S, F) for b in (S, F, LIM)]
    # exhaustive: controller, 2 workers x 1 call
    L = 7 if thorough else 6
    for cfg in ctl_cfgs:
        for p0 in one:
            for p1 in one:
                for w in words(2, L):
                    out.append(mk(1, cfg, [], [p0, p1], w))
    if thorough:
        for cfg in ctl_cfgs[:2]:
            for p0 in two:
                for p1 in two:
                    for w in words(2, 9):
                        out.append(mk(1, cfg, [], [p0, p1], w))
        for p0 in one:
            for p1 in one:
                for p2 in one:
                    for w in words(3, 7):
                        out.append(mk(1, ctl_cfgs[0], [], [p0, p1, p2], w))
    else:
        allw = list(words(2, 8))
        for p0 in two:
            for p1 in two:
                for w in rng.sample(allw, 4):
                    out.append(mk(1, ctl_cfgs[0], [], [p0, p1], w))
        allw3 = list(words(3, 6))
        for p0 in one:
            for p1 in one:
                for p2 in one:
                    for w in rng.sample(allw3, 20):
                        out.append(mk(1, ctl_cfgs[0], [], [p0, p1, p2], w))
    # exhaustive: Vegas after warm-up, 2 workers x 1 call (success takes up to 10 atomic steps)
    warm = [(S, 1024)] * 9 + [(S, 2048)]
    vcalls = [[(S, 512)], [(S, 4096)], [(F, 0)]]
    L = 12 if thorough else 7
    for p0 in vcalls:
        for p1 in vcalls:
            for w in words(2, L):
                out.append(mk(3, [10, 1, 20, 3, 6], warm, [p0, p1], w))
    # random: up to 4 workers x 6 calls
    n = 15000 if thorough else 700
    for _ in range(n):
        nth = rng.randint(2, 4)
        kind = rng.choice([1, 2, 3, 3])
        if rng.random() < 0.08:
            out.append(rand_big(rng, kind, nth))
            continue
        if kind == 1:
            params = rand_ctl_cfg(rng)
            alpha = [(S, 0), (S, 0), (F, 0), (F, 0), (N, rng.choice([0, 1, 3, 1000])), (LIM, 0), (RESET, 0)]
            pre = [rng.choice(alpha[:4]) for _ in range(rng.choice([0, 0, 3]))]
        elif kind == 2:
            params = rand_ctl_cfg(rng) + [1000]
            alpha = [(S, 500), (S, 1000), (S, 1001), (S, 90000), (F, 0), (LIM, 0)]
            pre = [rng.choice(alpha[:5]) for _ in range(rng.choice([0, 0, 3]))]
        else:
            mx = rng.choice([2, 3, 5, 20, 100])
            mn = rng.choice([0, 1, mx // 2, mx - 1])
            params = [rng.choice([mn, mx, mx, (mn + mx) // 2, mx + 1, 0, max(mn - 1, 0)]), mn, mx, rng.choice([0, 1, 3]),
                      rng.choice([3, 6, 1])]
            mode = rng.randrange(3)
            if mode == 0:      # all RTTs equal: queue estimate 0 -> increase (pushes against max)
                base = rng.choice(RTTS[:6])
                alpha = [(S, base)] * 4 + [(F, 0), (LIM, 0)]
                pre = [(S, base)] * rng.choice([9, 10, 12])
            elif mode == 1:    # one tiny RTT then big ones: large queue estimate -> decrease (against min)
                alpha = [(S, rng.choice(RTTS[6:])) for _ in range(4)] + [(S, RTTS[0]), (LIM, 0)]
                pre = [(S, RTTS[0])] + [(S, rng.choice(RTTS[5:])) for _ in range(rng.choice([8, 9, 11]))]
            else:
                alpha = [(S, rng.choice(RTTS)) for _ in range(4)] + [(F, 0), (LIM, 0)]
                pre = [(S, rng.choice(RTTS[:6])) for _ in range(rng.choice([0, 8, 9, 10, 12]))]
        progs = [[rng.choice(alpha) for _ in range(rng.randint(1, 6))] for _ in range(nth)]
        total = sum(len(p) for p in progs) * (3 if kind != 3 else 8)
        out.append(mk(kind, params, pre, progs, rand_sched(rng, nth, total)))
    # the service: exhaustive short histories, random long ones
    depth = 4 if thorough else 3
    for k in range(1, depth + 1):
        for w in itertools.product(SVC_ALPHA, repeat=k):
            out.append(mk_svc([1, 1, 2, 1, 1, 2, 100], w))
    for _ in range(20000 if thorough else 1200):
        out.append(rand_service(rng))
    for _ in range(8000 if thorough else 600):
        out.append(ext_feedback_service(rng))
    for _ in range(6000 if thorough else 500):
        sc = parked_service(rng, rng.choice([4, 4, 4, 7, 6]))
        if sc is not None:
            out.append(sc)
    # limits around and above Semaphore::MAX_PERMITS through the service (sawtooth: failures halve, successes add)
    for _ in range(1500 if thorough else 120):
        out.append(big_limit_service(rng))
    # the same event machine over the Algorithm enum / builder / layer route (kind 7) and over Vegas (6, 8)
    for _ in range(3000 if thorough else 250):
        sc = rand_service(rng) if rng.random() < 0.6 else ext_feedback_service(rng)
        out.append([7] + sc[1:])
    for k in range(1, 3):
        for w in itertools.product(SVC_ALPHA, repeat=k):
            out.append(mk_svc([1, 1, 2, 3, 6], w, 6))
    for _ in range(12000 if thorough else 700):
        sc = rand_vegas_service(rng, rng.choice([6, 6, 8]))
        if sc is not None:
            out.append(sc)
    # clones on worker threads: exhaustive schedules for two clones at limit 1 and 2
    cl_progs = [[(RDY, 0), (CALL, 0), (FIN, 0)], [(CALL, 0), (FIN, 3)], [(RDY, 0), (RDY, 0)], [(CALL, 0), (FIN, 1)],
                [(CPANIC, 0), (RDY, 0)]]
    L = 9 if thorough else 6
    for lim in (1, 2):
        for p0 in cl_progs:
            for p1 in cl_progs:
                ws = list(words(2, L))
                for w in (ws if thorough else rng.sample(ws, 24)):
                    out.append(mk(5, [lim, 1, 2, 1, 1, 2], [], [p0, p1], [-1] + list(w) + [0, 1] * 4))
    for _ in range(6000 if thorough else 500):
        out.append(rand_clones(rng))
    return out


# ----------------------------------------------------------------------------
def split_trace(s, t):
    kind, params, pre, progs, sched = parse(s)
    n = len(sched)
    need = len(pre) + 3 * n + sum(1 + len(p) for p in progs) + 1
    if len(t) != need:
        return None
    pre_rets = t[:len(pre)]
    t = t[len(pre):]
    entries = [t[3 * i:3 * i + 3] for i in range(n)]
    pos = 3 * n
    per = []
    for p in progs:
        per.append((t[pos], t[pos + 1:pos + 1 + len(p)]))
        pos += 1 + len(p)
    return entries, per, t[pos], pre_rets


def monitor_alg(s, t):
    kind, params, pre, progs, sched = parse(s)
    if list(t) == [-5]:
        return None     # workers completed calls without reaching the scheduler: atomics not instrumented
    sp = split_trace(s, t)
    if sp is None:
        return "malformed or panicking run: %s" % t[:12]
    entries, per, final, pre_rets = sp
    mn, mx = params[1], params[2]
    for c, r in zip(pre, pre_rets):
        if (c[0] == LIM and not (mn <= r <= mx)) or (c[0] != LIM and r != 2):
            return "prelude call %s returned %d" % (c, r)
    done_idx = [0] * len(progs)
    for k, (op, done, lim) in enumerate(entries):
        if not (mn <= lim <= mx):
            return "limit %d outside [%d, %d] after entry %d" % (lim, mn, mx, k)
        tid = sched[k]
        if op == 0:
            if done != -1:
                return "skipped entry %d reports a completed call" % k
            continue
        if not (0 <= tid < len(progs)) or done_idx[tid] >= len(progs[tid]):
            return "entry %d: worker %d stepped although it has no call left" % (k, tid)
        if done != -1:
            if per[tid][1][done_idx[tid]] != done:
                return "worker %d call %d: per-step completion %d != reported result %d" % (
                    tid, done_idx[tid], done, per[tid][1][done_idx[tid]])
            done_idx[tid] += 1
    if not (mn <= final <= mx):
        return "final limit %d outside [%d, %d]" % (final, mn, mx)
    for (st, rs), p in zip(per, progs):
        for r, c in zip(rs, p):
            if c[0] == LIM:
                if not (mn <= r <= mx):
                    return "limit() returned %d outside [%d, %d]" % (r, mn, mx)
            elif r != 2:
                return "feedback call returned %d" % r
    return None


def monitor_svc(s, t):
    kind, params, evs, _, _ = parse(s)
    panic_at = None
    if len(t) != 3 * len(evs) + 3:
        # a panic escaping the limiter ends the trace with [-999, k]: it happened in event k, events before it
        # are judged as usual
        if len(t) >= 2 and t[-2] == -999 and 0 <= t[-1] < len(evs) and len(t) == 3 * t[-1] + 2:
            panic_at = t[-1]
            evs_all, evs = evs, evs[:panic_at]
        else:
            return "malformed or panicking run: %s" % t[:12]
    init, mn, mx = params[0], params[1], params[2]
    live = set()
    used = set()
    sent = {}
    inner = 0
    parked = {}
    prev_inflight, prev_limit = 0, min(max(init, mn), mx)
    for k, e in enumerate(evs):
        op, a, b = e
        a = max(a, 0)
        r, infl, lim = t[3 * k:3 * k + 3]
        if not (mn <= lim <= mx):
            return "limit %d outside [%d, %d] after event %d" % (lim, mn, mx, k)
        if op in (1, 11):
            if op == 11:
                parked[a % 8] = {"at_limit": prev_inflight >= prev_limit and r in (10, 13), "ready": r == 11}
            if prev_inflight >= prev_limit:
                if r not in (10, 13):
                    return "event %d: poll_ready returned %d with in_flight %d >= limit %d" % (k, r, prev_inflight, prev_limit)
            else:
                want = {0: 11, 1: 10}.get(inner, 12)
                if r != want:
                    return "event %d: poll_ready returned %d with in_flight %d < limit %d and inner readiness %d" % (
                        k, r, prev_inflight, prev_limit, inner)
        elif op == 12:
            if r not in (90, 91):
                return "event %d: wake query gave %d" % (k, r)
            me = parked.get(a % 8)
            if r == 90 and me is not None and me["at_limit"]:
                # "never refuses readiness while fewer than limit calls are in flight": a caller parked by a
                # refusal at the limit must learn that capacity is free. Its waker must have been woken once there
                # is room for EVERY caller parked that way (callers admitted and not gone yet count as using a slot;
                # an implementation that wakes one caller per freed slot is fine)
                waiting = sum(1 for x in parked.values() if x["at_limit"])
                holders = sum(1 for x in parked.values() if x["ready"])
                if prev_limit - prev_inflight - holders >= waiting:
                    return ("event %d: caller %d was refused at the limit and never woken although %d of %d slots "
                            "are free (%d callers waiting)" % (k, a % 8, prev_limit - prev_inflight, prev_limit, waiting))
        elif op == 13:
            parked.pop(a % 8, None)
            if r != 92:
                return "event %d: departure of a parked caller gave %d" % (k, r)
        elif op == 2 or op == 8 or op not in (1, 3, 4, 5, 6, 7, 9, 10):
            if a in used:
                if r != 21:
                    return "event %d: reused id gave %d" % (k, r)
            else:
                used.add(a)
                if r == 20:
                    live.add(a)
                elif r != 26:
                    return "event %d: call returned code %d" % (k, r)
        elif op == 3:
            if a in live:
                want = {None: 30, 0: 31, 1: 32}.get(sent.get(a), 35)
                if r != want:
                    return "event %d: poll of call %d gave %d, the inner outcome says %d" % (k, a, r, want)
                if r != 30:
                    live.discard(a)
            elif r != 39:
                return "event %d: poll of a finished/unknown call gave %d" % (k, r)
        elif op == 4:
            sent.setdefault(a, b if b in (0, 1) else 2)
        elif op == 5:
            if a in live:
                if r != 50:
                    return "event %d: drop of live call gave %d" % (k, r)
                live.discard(a)
            elif r != 59:
                return "event %d: drop of a finished/unknown call gave %d" % (k, r)
        elif op == 7:
            inner = a
        elif op in (9, 10):
            if r != {9: 80, 10: 81}[op]:
                return "event %d: external feedback gave code %d" % (k, r)
        # the property: in_flight = calls created and not yet finished / failed / panicked / dropped
        if infl != len(live):
            return "after event %d in_flight() = %d but %d calls are in flight (%s)" % (k, infl, len(live), sorted(live))
        prev_inflight, prev_limit = infl, lim
    if panic_at is not None:
        op, a, b = evs_all[panic_at]
        announced = panic_at > 0 and evs_all[panic_at - 1][0] == 1 and t[3 * (panic_at - 1)] == 11
        if op in (2, 8) and not announced:
            # the property quantifies over callers that check readiness: an implementation that rejects (panics
            # on) a call() not directly preceded by a poll_ready that returned Ready is outside it -- the trace
            # comparison reports the difference
            return None
        return "the limiter panicked in event %d %s" % (panic_at, (op, a, b))
    r, infl, lim = t[-3:]
    if infl != 0:
        return "everything dropped, in_flight() = %d" % infl
    if not (mn <= lim <= mx):
        return "final limit %d outside [%d, %d]" % (lim, mn, mx)
    if (lim > 0 and r != 11) or (lim == 0 and r not in (10, 13)):
        return "idle service with limit %d: probe poll_ready returned %d" % (lim, r)
    return None


def split_clones(s, t):
    kind, params, pre, progs, sched = parse(s)
    n = len(sched)
    need = len(pre) + 4 * n + sum(1 + len(p) for p in progs) + 2
    if len(t) != need:
        return None
    pre_rets = t[:len(pre)]
    t = t[len(pre):]
    entries = [t[4 * i:4 * i + 4] for i in range(n)]
    pos = 4 * n
    per = []
    for p in progs:
        per.append((t[pos], t[pos + 1:pos + 1 + len(p)]))
        pos += 1 + len(p)
    return entries, per, t[pos:pos + 2], pre_rets


INF = float("inf")


def monitor_clones(s, t):
    """kind 5: the property for clones of one service used from several threads. Every call of a worker occupies
    an interval (invoked when the previous one returned .. the atomic step at which it returned); a future is
    CERTAINLY in flight between the return of its call() and the invocation of its finish, POSSIBLY in flight
    between the invocation of call() and the return of the finish.
      * in_flight() read after every step lies between the two counts; when everything has returned it is exactly
        futures created - futures finished (0 once nothing is running);
      * a readiness check that was Ready although limit calls were certainly in flight during its whole interval
        admitted a caller it must not admit; one that was Pending although fewer than limit calls were possibly in
        flight during its whole interval refused readiness below the limit (the limit may move during the check,
        and the check reads limit and counter at two instants: any limit value and any count of the interval
        may explain the decision);
      * min <= limit() <= max after every step."""
    if list(t) == [-5]:
        # the driver could not schedule the workers (the service's atomics do not go through the instrumented
        # wrappers on this tree): nothing to judge; with REQUIRE_SERVICE_HOOK the model still answers the script,
        # so the difference is reported as a correspondence failure (no failing input is claimed)
        return None
    kind, params, pre, progs, sched = parse(s)
    sp = split_clones(s, t)
    if sp is None:
        return "malformed or panicking run: %s" % t[:12]
    entries, per, final, pre_rets = sp
    mn, mx = params[1], params[2]
    want = {0: (31,), 1: (32,), 2: (35,), 3: (50,)}

    def bad(c, r):
        if c[0] == RDY:
            return r not in (11, 13)
        if c[0] == CALL:
            return r != 20
        if c[0] == FIN:
            return r not in want.get(c[1] % 10, (35,))
        return r != 26
    # intervals of all calls: (worker, index, call, ret, inv, res); the prelude ran alone before everything
    calls = []
    for i, (c, r) in enumerate(zip(pre, pre_rets)):
        if bad(c, r):
            return "prelude call %s returned %d" % (c, r)
        calls.append((len(progs), i, c, r, -100000 + 4 * i, -100000 + 4 * i + 2))
    n = len(sched)
    idx = [0] * len(progs)
    inv = [-1] * len(progs)
    for k, (op, done, infl, lim) in enumerate(entries):
        tid = sched[k]
        if op == 0:
            if done != -1:
                return "skipped entry %d reports a completed call" % k
        else:
            if not (0 <= tid < len(progs)) or idx[tid] >= len(progs[tid]):
                return "entry %d: worker %d stepped although it has no call left" % (k, tid)
            if done != -1:
                c = progs[tid][idx[tid]]
                if per[tid][1][idx[tid]] != done:
                    return "worker %d call %d: per-step completion %d != reported result %d" % (
                        tid, idx[tid], done, per[tid][1][idx[tid]])
                if bad(c, done):
                    return "worker %d: call %s returned %d" % (tid, c, done)
                calls.append((tid, idx[tid], c, done, inv[tid], 4 * k + 2))
                idx[tid] += 1
                inv[tid] = 4 * k + 3
        if not (mn <= lim <= mx):
            return "limit %d outside [%d, %d] after entry %d" % (lim, mn, mx, k)
    for tid, p in enumerate(progs):
        base = 4 * n + 10 + 1000 * tid
        for j in range(idx[tid], len(p)):
            r = per[tid][1][j]
            if bad(p[j], r):
                return "worker %d: call %s returned %d" % (tid, p[j], r)
            calls.append((tid, j, p[j], r, inv[tid], base + 2))
            inv[tid] = base + 3
            base += 4
    # futures: (invocation of call(), return of call(), invocation of the finish, return of the finish)
    futs, maybe = [], []
    slot = {}
    for (tid, j, c, r, a, b) in sorted(calls, key=lambda x: x[5]):
        if c[0] == CALL:
            slot[(tid, c[1] % 4)] = len(futs)
            futs.append([a, b, INF, INF])
        elif c[0] == FIN:
            f = slot.pop((tid, (c[1] // 10) % 4), None)
            if f is None:
                return "worker %d finishes a future it does not hold (script not well-formed)" % tid
            futs[f][2], futs[f][3] = a, b
        elif c[0] == CPANIC:
            maybe.append((a, b))

    def certain(at):
        return sum(1 for f in futs if f[1] < at < f[2])

    def possible(at):
        return sum(1 for f in futs if f[0] < at < f[3]) + sum(1 for (a, b) in maybe if a < at < b)
    for k, (op, done, infl, lim) in enumerate(entries):
        at = 4 * k + 4
        lo, hi = certain(at), possible(at)
        if not (lo <= infl <= hi):
            return "after entry %d in_flight() = %d but between %d and %d calls are in flight" % (k, infl, lo, hi)
    live_end = sum(1 for f in futs if f[3] == INF)
    if final[0] != live_end:
        return "everything returned, %d futures not finished, in_flight() = %d" % (live_end, final[0])
    if not (mn <= final[1] <= mx):
        return "final limit %d outside [%d, %d]" % (final[1], mn, mx)
    # readiness decisions whose whole interval lies inside the scheduled part
    for (tid, j, c, r, a, b) in calls:
        if c[0] != RDY or tid == len(progs) or b > 4 * n or a < -1:
            continue
        k1 = (b - 2) // 4                       # the entry at which it returned
        k0 = 0 if a == -1 else (a - 3) // 4     # state after entry k0 holds when it is invoked
        if a == -1 and (not entries or entries[0][0] != 0):
            continue                            # no snapshot of the state before the first step
        ks = range(k0, k1)
        if not ks:
            continue
        # the check reads the limit and the counter at two instants of its interval (in either order): a decision
        # is wrong only if NO limit value and NO count seen during the interval explain it
        lims = [entries[k][3] for k in ks]
        if r == 11 and min(certain(4 * k + 4) for k in ks) >= max(lims):
            return ("worker %d call %d: poll_ready was Ready although at least limit calls were in flight during "
                    "the whole check (entries %d..%d)" % (tid, j, k0, k1))
        if r == 13 and max(possible(4 * k + 4) for k in ks) < min(lims):
            return ("worker %d call %d: poll_ready was Pending although fewer than limit calls were in flight "
                    "during the whole check (entries %d..%d)" % (tid, j, k0, k1))
    return None


def monitor(s, t):
    """Independent restatement of C13 over the implementation's trace."""
    if s[0] in SVC_KINDS:
        return monitor_svc(s, t)
    if s[0] == 5:
        return monitor_clones(s, t)
    return monitor_alg(s, t)


def nontrivial(s, t):
    if s[0] in SVC_KINDS:
        codes = t[0::3]
        return any(c in (32, 35, 50, 13, 80, 81) for c in codes)
    if s[0] == 5:
        sp = split_clones(s, t)
        if sp is None:
            return False
        sched = parse(s)[4]
        return len({sched[k] for k, e in enumerate(sp[0]) if e[0] != 0}) >= 2
    kind, params, pre, progs, sched = parse(s)
    sp = split_trace(s, t)
    if sp is None:
        return False
    return len({sched[k] for k, e in enumerate(sp[0]) if e[0] != 0}) >= 2


def classify(s, t):
    if s[0] == 5:
        if list(t) == [-5]:
            return ["service_clones_threads", "service_atomics_not_instrumented"]
        out = ["service_clones_threads"]
        sp = split_clones(s, t)
        if sp is None:
            return out + ["malformed"]
        entries, per, final, pre_rets = sp
        rets = [r for (st, rs) in per for r in rs]
        for c, name in ((13, "clone_refused_at_limit"), (35, "inner_panic"), (50, "dropped_in_flight"),
                        (26, "sync_call_panic"), (31, "ok"), (32, "inner_err")):
            if c in rets:
                out.append(name)
        if any(e[2] >= 2 for e in entries):
            out.append("two_or_more_in_flight")
        if any(e[2] > e[3] for e in entries):
            out.append("in_flight_above_limit(check-then-act)")
        return out
    if s[0] in SVC_KINDS:
        codes = t[0::3]
        out = ["service" if s[0] == 4 else {6: "service_vegas", 7: "service_enum_aimd_layer", 8: "service_enum_vegas_layer"}[s[0]]]
        for c, name in ((13, "pending_at_limit"), (10, "inner_pending"), (12, "inner_error"), (35, "inner_panic"),
                        (32, "inner_err"), (31, "ok"), (50, "dropped_in_flight"), (26, "sync_call_panic")):
            if c in codes[:-1]:
                out.append(name)
        kind, params, evs, _, _ = parse(s)
        if len(t) != 3 * len(evs) + 3:
            return out + ["panicked_or_malformed"]
        lims = t[2::3]
        infl = t[1::3]
        for k, e in enumerate(evs):
            if e[0] in (9, 10) and k + 1 < len(evs) and evs[k + 1][0] == 1 and k > 0:
                moved = lims[k] != lims[k - 1]
                if e[0] == 9 and moved and infl[k] >= lims[k] and infl[k] < lims[k - 1] and infl[k] > 0:
                    out.append("ext_failure_closes_readiness_with_calls_in_flight")
                if e[0] == 10 and moved and infl[k] < lims[k] and infl[k] >= lims[k - 1] and infl[k] > 0:
                    out.append("ext_success_opens_readiness_with_calls_in_flight")
        if any(e[0] in (9, 10) for e in evs):
            out.append("external_feedback")
        if any(e[0] == 11 for e in evs):
            out.append("parked_callers")
            if any(e[0] == 12 and codes[k] == 91 for k, e in enumerate(evs)):
                out.append("parked_caller_woken")
            if any(e[0] == 13 for e in evs):
                out.append("parked_caller_departed")
        if params[2] >= 1 << 59:
            out.append("limits_around_semaphore_max")
        if any(b < a for a, b in zip(lims, lims[1:])):
            out.append("limit_decreased")
        if any(b > a for a, b in zip(lims, lims[1:])):
            out.append("limit_increased")
        out.append("events_%s" % ("0-5" if len(evs) <= 5 else "6-20" if len(evs) <= 20 else "21+"))
        return out
    kind, params, pre, progs, sched = parse(s)
    out = [{1: "controller", 2: "aimd", 3: "vegas"}.get(kind, "?"), "workers%d" % len(progs)]
    sp = split_trace(s, t)
    if sp is None:
        return out + ["malformed"]
    entries, per, final, pre_rets = sp
    lims = [e[2] for e in entries] + [final]
    if any(l == params[1] for l in lims):
        out.append("at_min")
    if any(l == params[2] for l in lims):
        out.append("at_max")
    if any(b < a for a, b in zip(lims, lims[1:])):
        out.append("limit_decreased")
    if any(b > a for a, b in zip(lims, lims[1:])):
        out.append("limit_increased")
    if kind == 3:
        if any(e[0] == 2 and e[2] != lims[max(0, k - 1)] for k, e in enumerate(entries)):
            out.append("vegas_store_changed_limit")
        if len(pre) + sum(len(p) for p in progs) >= 10:
            out.append("vegas_adjusting")
    cas = sum(1 for e in entries if e[0] == 3)
    comp = sum(1 for e in entries if e[0] == 3 and e[1] != -1)
    if cas > comp:
        out.append("cas_retry")
    out.append("sched_len_%s" % ("0-8" if len(sched) <= 8 else "9-20" if len(sched) <= 20 else "21+"))
    return out


def shrink(s):
    if s[0] in SVC_KINDS:
        kind, params, evs, _, _ = parse(s)
        for i in range(len(evs)):
            yield mk_svc(params, evs[:i] + evs[i + 1:], kind)
        return
    if s[0] == 5:
        kind, params, pre, progs, sched = parse(s)
        for i in range(1, len(sched)):
            yield mk(kind, params[:6], pre, progs, sched[:i] + sched[i + 1:])
        return
    kind, params, pre, progs, sched = parse(s)
    for i in range(len(sched)):
        yield mk(kind, params, pre, progs, sched[:i] + sched[i + 1:])
    for ti, p in enumerate(progs):
        for j in range(len(p)):
            q = [list(x) for x in progs]
            del q[ti][j]
            if all(len(x) > 0 for x in q):
                yield mk(kind, params, pre, q, sched)
