"""C13 adaptive limiter: AimdController / Aimd / Vegas under a baton scheduler, and the
AdaptiveService over a gated inner service: generator + independent monitor."""
import itertools

PROP = "C13"
DRIVER = "c13"
MODEL = "C13"
MODEL_QUALID = "Model.Adaptive.run_script"
FORMAT = ("kinds 1..3 [kind 1=AimdController 2=Aimd 3=Vegas; p0..p6 (initial, min, max, increase_by|alpha, "
          "dec_num|beta, dec_den, latency threshold ns); npre; (code arg)*; nthreads; {ncalls; (code arg)*}*; "
          "nsched; thread-id*] calls 0 record_success(arg: latency ns) 1 record_failure 2 record_successes(arg) "
          "3 limit(); each schedule entry = ONE atomic operation -> per entry [op 0 skip/1 load/2 store/3 cas/"
          "4 rmw; return value of the call completed by this step or -1; limit()] after the prelude's return values, per worker [steps; results], "
          "[limit()].  kind 4 [4; initial; min; max; increase_by; dec_num; dec_den; threshold_ms; (op a b)*] "
          "op 1 poll_ready 2 call a 3 poll a 4 complete a b(0 ok 1 err 2 panic) 5 drop a 6 advance a ms "
          "7 inner readiness a(0 ready 1 pending 2 err) 8 call a with panicking inner.call() 9 algorithm()."
          "record_failure() 10 algorithm().record_success(0) (feedback not caused by this service's calls) -> per event "
          "[code; in_flight(); limit()] + after dropping everything [probe poll_ready code; in_flight(); limit()]; "
          "codes 10 Pending(inner) 11 Ready 12 Err 13 Pending(at limit) 20 created 21 id in use 26 inner.call() "
          "panicked 30 Pending 31 Ok 32 Err 35 panicked 39 not alive 40 50 dropped 59 nothing 60 70 80 81")
RULE = ("algorithms: exhaustive schedules for 2-3 workers x <=2 feedback calls, random schedules for up to 4 "
        "workers x 6 calls (successes, slow successes, failures, record_successes, limit reads), limits at "
        "min/max, factors 0..1 and >1, Vegas with >= 10 warm-up samples so that adjust_limit runs, power-of-two "
        "RTTs; service: exhaustive event words up to length 3-5 over two call ids plus random histories with "
        "drops at every point, panicking inner futures and panicking inner.call(), slow responses around the latency threshold, inner "
        "readiness Pending/Err, feedback reaching the shared algorithm from outside (limit moves while calls are "
        "in flight, poll_ready checked before any own call starts or completes); non-trivial = two workers interleaved, or a call ended by drop/panic/error")
TRUSTED = [
    "verif-hooks atomics (see C08); per-location sequential consistency; Vegas' cross-location reads (min_rtt, "
    "smoothed, sample_count, limit) are modelled as interleaved single-location operations",
    "f64 arithmetic: the AIMD decrease is an abstract function dec in the theorems (bounds hold for EVERY dec); "
    "the executable instance floor(x*num/den) is used only on (factor, max) pairs where IEEE binary64 agrees "
    "(checked with Python floats); Vegas smoothing (0.5/0.5) = floor((a+b)/2) below 2^52 and the queue estimate "
    "= floor((sm-mn)*limit/mn) when min_rtt is a power of two: the generator only uses power-of-two RTTs; "
    "the theorems hold for every smoothing and queue-estimate function",
    "the semaphore/current_limit bookkeeping of AdaptiveService has no observable effect (no admission decision "
    "reads it) and is not modelled",
]
ASSUMPTIONS = ["0 <= min_limit <= max_limit (AimdController::new / Vegas::new panic otherwise)"]

S, F, N, LIM = 0, 1, 2, 3


def mk(kind, params, pre, progs, sched):
    s = [kind] + list(params) + [0] * (7 - len(params))
    s.append(len(pre))
    for c in pre:
        s += list(c)
    s.append(len(progs))
    for p in progs:
        s.append(len(p))
        for c in p:
            s += list(c)
    s.append(len(sched))
    s += list(sched)
    return s


def mk_svc(params, evs):
    s = [4] + list(params)
    for e in evs:
        s += list(e)
    return s


def parse(s):
    kind, params = s[0], s[1:8]
    if kind == 4:
        evs = [tuple(s[8 + 3 * i:11 + 3 * i]) for i in range((len(s) - 8) // 3)]
        return kind, params, evs, None, None
    pos = 8
    npre = s[pos]; pos += 1
    pre = [(s[pos + 2 * i], s[pos + 2 * i + 1]) for i in range(npre)]; pos += 2 * npre
    nth = s[pos]; pos += 1
    progs = []
    for _ in range(nth):
        nc = s[pos]; pos += 1
        progs.append([(s[pos + 2 * i], s[pos + 2 * i + 1]) for i in range(nc)]); pos += 2 * nc
    ns = s[pos]; pos += 1
    return kind, params, pre, progs, s[pos:pos + ns]


def float_exact(num, den, mx):
    if den == 0:
        return False
    f = num / den
    return all(int(float(x) * f) == (x * num) // den for x in range(0, mx + 1))


FACTORS = [(1, 2), (0, 1), (1, 4), (3, 4), (1, 1), (3, 2), (9, 10), (1, 3), (7, 10), (2, 1)]


def corpus():
    out = []
    # two concurrent feedbacks on the controller: the second compare-exchange fails and retries
    out.append(mk(1, [5, 1, 10, 1, 1, 2], [], [[(S, 0)], [(S, 0)]], [0, 1, 0, 1, 1]))
    out.append(mk(1, [8, 1, 10, 1, 1, 2], [], [[(F, 0)], [(S, 0), (LIM, 0)]], [0, 1, 1, 0, 0, 1]))
    out.append(mk(2, [4, 2, 6, 2, 1, 2, 1000], [], [[(S, 500), (S, 1001)], [(F, 0), (LIM, 0)]], [0, 1, 0, 1, 0, 0, 1, 1]))
    # Vegas: 10 warm-up samples, then a racing success and failure
    warm = [(S, 1024)] * 9 + [(S, 2048)]
    out.append(mk(3, [10, 1, 20, 3, 6], warm, [[(S, 4096)], [(F, 0)]], [0, 0, 0, 1, 0, 0, 0, 0, 0, 0, 1, 0]))
    out.append(mk(3, [10, 1, 20, 3, 6], warm, [[(S, 512), (LIM, 0)], [(S, 8192)]], [0, 1] * 10))
    # Vegas pushed against max (equal RTTs: queue 0 < alpha) and against min (queue > beta)
    out.append(mk(3, [3, 1, 3, 3, 6], [(S, 1024)] * 10, [[(S, 1024), (LIM, 0)], [(S, 1024)]], [0, 1] * 12))
    out.append(mk(3, [2, 2, 9, 3, 6], [(S, 1024)] + [(S, 65536)] * 9, [[(S, 65536), (LIM, 0)], [(S, 65536)]], [0, 1] * 12))
    # the service: two calls cancelled while in flight (the upstream defect shape), limit 2
    out.append(mk_svc([2, 1, 2, 1, 1, 2, 100],
                      [(1, 0, 0), (2, 0, 0), (1, 0, 0), (2, 1, 0), (1, 0, 0), (3, 0, 0), (3, 1, 0),
                       (5, 0, 0), (5, 1, 0), (1, 0, 0)]))
    out.append(mk_svc([2, 1, 4, 1, 1, 2, 100],
                      [(2, 0, 0), (2, 1, 0), (2, 2, 0), (4, 0, 0), (4, 1, 1), (4, 2, 2), (3, 0, 0), (3, 1, 0),
                       (3, 2, 0), (1, 0, 0)]))
    # inner.call() panics synchronously: the slot must come back (leaked before /repo 0debd80:
    # in_flight() stayed 2 and the probe was Pending for ever)
    out.append(mk_svc([2, 1, 2, 1, 1, 2, 100], [(8, 0, 0), (1, 0, 0), (8, 1, 0), (1, 0, 0)]))
    out.append(mk_svc([1, 1, 2, 1, 1, 2, 100], [(2, 0, 0), (8, 1, 0), (1, 0, 0), (5, 0, 0), (8, 2, 0), (1, 0, 0)]))
    # the limit moves without a call/completion of this service (shared algorithm): two calls in
    # flight at limit 3, an external failure lowers the limit to 1 < in_flight: poll_ready must be
    # Pending; external successes raise it above in_flight: poll_ready must be Ready.
    # (a poll_ready that compares with a limit cached at the service's own calls gets both wrong)
    out.append(mk_svc([3, 1, 4, 1, 1, 2, 100],
                      [(2, 0, 0), (2, 1, 0), (1, 0, 0), (9, 0, 0), (1, 0, 0), (10, 0, 0), (1, 0, 0),
                       (10, 0, 0), (1, 0, 0)]))
    out.append(mk_svc([1, 1, 3, 1, 1, 2, 100],
                      [(2, 0, 0), (1, 0, 0), (10, 0, 0), (1, 0, 0), (9, 0, 0), (1, 0, 0)]))
    out.append(mk_svc([2, 0, 2, 1, 0, 1, 100], [(1, 0, 0), (9, 0, 0), (1, 0, 0), (10, 0, 0), (1, 0, 0)]))
    # slow success (latency > threshold) is a congestion signal
    out.append(mk_svc([4, 1, 8, 1, 1, 2, 10],
                      [(2, 0, 0), (6, 11, 0), (4, 0, 0), (3, 0, 0), (2, 1, 0), (6, 10, 0), (4, 1, 0), (3, 1, 0)]))
    # inner readiness is passed through only below the limit
    out.append(mk_svc([1, 1, 3, 1, 1, 2, 100],
                      [(7, 1, 0), (1, 0, 0), (7, 2, 0), (1, 0, 0), (7, 0, 0), (2, 0, 0), (1, 0, 0), (7, 1, 0), (1, 0, 0)]))
    return out


def words(n, length):
    return itertools.product(range(n), repeat=length)


def rand_sched(rng, nth, total):
    style = rng.randrange(3)
    if style == 0:
        return [rng.randrange(nth) for _ in range(rng.randint(0, total))]
    if style == 1:
        sched = []
        while len(sched) < total:
            sched += [rng.randrange(nth)] * rng.randint(1, 4)
        return sched
    slow = rng.randrange(nth)
    sched = [rng.choice([t for t in range(nth) if t != slow] + ([slow] if rng.random() < 0.1 else []))
             for _ in range(total)]
    k = rng.randrange(len(sched) + 1)
    sched[k:k] = [slow] * rng.randint(1, 3)
    return sched


def rand_ctl_cfg(rng):
    mx = rng.choice([1, 2, 4, 8, 16, 100])
    mn = rng.choice([0, 1, mx // 2, mx])
    init = rng.choice([mn, mx, (mn + mx) // 2, mx + 3, 0])
    num, den = rng.choice(FACTORS)
    if not float_exact(num, den, mx):
        num, den = 1, 2
    return [init, mn, mx, rng.choice([0, 1, 1, 2, 5]), num, den]


RTTS = [1 << k for k in range(10, 21)]

SVC_ALPHA = [(1, 0, 0), (2, 0, 0), (3, 0, 0), (4, 0, 0), (4, 0, 1), (4, 0, 2), (5, 0, 0),
             (2, 1, 0), (3, 1, 0), (4, 1, 0), (5, 1, 0), (8, 2, 0), (9, 0, 0), (10, 0, 0)]


def rand_service(rng):
    mx = rng.choice([1, 2, 3, 5])
    mn = rng.choice([0, 1, 1, mx])
    init = rng.choice([mn, mx, max(mn, 1), 2])
    num, den = rng.choice([(1, 2), (0, 1), (3, 4), (1, 1), (1, 4)])
    thr = rng.choice([5, 10, 100000])
    n = rng.randint(3, 40)
    ids = rng.randint(1, 8)
    evs = []
    for _ in range(n):
        x = rng.random()
        a = rng.randrange(ids)
        if x < 0.15:
            evs.append((1, 0, 0))
        elif x < 0.35:
            evs.append((2, a, 0))
        elif x < 0.55:
            evs.append((3, a, 0))
        elif x < 0.72:
            evs.append((4, a, rng.choice([0, 0, 1, 2])))
        elif x < 0.84:
            evs.append((5, a, 0))
        elif x < 0.92:
            evs.append((6, rng.choice([1, 4, 5, 6, 10, 11]), 0))
        elif x < 0.96:
            evs.append((7, rng.choice([0, 0, 1, 2]), 0))
        elif x < 0.98:
            evs.append((8, a, 0))
        else:
            evs.append((rng.choice([9, 10]), 0, 0))
            evs.append((1, 0, 0))
    return mk_svc([init, mn, mx, rng.choice([1, 1, 2]), num, den, thr], evs)


def ext_feedback_service(rng):
    """calls in flight up to (or near) the limit, then feedback that reaches the shared algorithm
    from outside, with a readiness check after every limit move and before own calls/completions"""
    mx = rng.choice([2, 3, 4, 6])
    mn = rng.choice([0, 1, 1, 2 if mx > 2 else 1])
    init = rng.choice([mx, mx, max(mn, mx - 1), max(mn, 2)])
    num, den = rng.choice([(1, 2), (1, 2), (0, 1), (3, 4), (1, 4), (1, 1)])
    inc = rng.choice([1, 1, 2])
    evs = []
    nxt = 0
    fill = rng.choice([init, init, max(0, init - 1), init + 1])
    for _ in range(fill):
        if rng.random() < 0.5:
            evs.append((1, 0, 0))
        evs.append((2, nxt, 0)); nxt += 1
    evs.append((1, 0, 0))
    for _ in range(rng.randint(2, 10)):
        x = rng.random()
        if x < 0.4:
            evs.append((9, 0, 0))
        elif x < 0.8:
            evs.append((10, 0, 0))
        elif x < 0.9 and nxt > 0:
            a = rng.randrange(nxt)
            evs.append(rng.choice([(5, a, 0), (4, a, rng.choice([0, 1, 2])), (3, a, 0)]))
        else:
            evs.append((2, nxt, 0)); nxt += 1
        evs.append((1, 0, 0))
    return mk_svc([init, mn, mx, inc, num, den, 100000], evs)


def generate(rng, tier):
    out = []
    thorough = tier == "thorough"
    ctl_cfgs = [[5, 1, 10, 1, 1, 2], [2, 2, 3, 2, 0, 1], [9, 0, 9, 1, 3, 4]]
    one = [[(S, 0)], [(F, 0)]]
    two = one + [[(a, 0), (b, 0)] for a in (S, F) for b in (S, F, LIM)]
    # exhaustive: controller, 2 workers x 1 call
    L = 7 if thorough else 6
    for cfg in ctl_cfgs:
        for p0 in one:
            for p1 in one:
                for w in words(2, L):
                    out.append(mk(1, cfg, [], [p0, p1], w))
    if thorough:
        for cfg in ctl_cfgs[:2]:
            for p0 in two:
                for p1 in two:
                    for w in words(2, 9):
                        out.append(mk(1, cfg, [], [p0, p1], w))
        for p0 in one:
            for p1 in one:
                for p2 in one:
                    for w in words(3, 7):
                        out.append(mk(1, ctl_cfgs[0], [], [p0, p1, p2], w))
    else:
        allw = list(words(2, 8))
        for p0 in two:
            for p1 in two:
                for w in rng.sample(allw, 4):
                    out.append(mk(1, ctl_cfgs[0], [], [p0, p1], w))
        allw3 = list(words(3, 6))
        for p0 in one:
            for p1 in one:
                for p2 in one:
                    for w in rng.sample(allw3, 20):
                        out.append(mk(1, ctl_cfgs[0], [], [p0, p1, p2], w))
    # exhaustive: Vegas after warm-up, 2 workers x 1 call (success takes up to 10 atomic steps)
    warm = [(S, 1024)] * 9 + [(S, 2048)]
    vcalls = [[(S, 512)], [(S, 4096)], [(F, 0)]]
    L = 12 if thorough else 7
    for p0 in vcalls:
        for p1 in vcalls:
            for w in words(2, L):
                out.append(mk(3, [10, 1, 20, 3, 6], warm, [p0, p1], w))
    # random: up to 4 workers x 6 calls
    n = 15000 if thorough else 700
    for _ in range(n):
        nth = rng.randint(2, 4)
        kind = rng.choice([1, 2, 3, 3])
        if kind == 1:
            params = rand_ctl_cfg(rng)
            alpha = [(S, 0), (S, 0), (F, 0), (F, 0), (N, rng.choice([0, 1, 3, 1000])), (LIM, 0)]
            pre = [rng.choice(alpha[:4]) for _ in range(rng.choice([0, 0, 3]))]
        elif kind == 2:
            params = rand_ctl_cfg(rng) + [1000]
            alpha = [(S, 500), (S, 1000), (S, 1001), (S, 90000), (F, 0), (LIM, 0)]
            pre = [rng.choice(alpha[:5]) for _ in range(rng.choice([0, 0, 3]))]
        else:
            mx = rng.choice([2, 3, 5, 20, 100])
            mn = rng.choice([0, 1, mx // 2, mx - 1])
            params = [rng.choice([mn, mx, mx, (mn + mx) // 2, mx + 1]), mn, mx, rng.choice([0, 1, 3]), rng.choice([3, 6, 1])]
            mode = rng.randrange(3)
            if mode == 0:      # all RTTs equal: queue estimate 0 -> increase (pushes against max)
                base = rng.choice(RTTS[:6])
                alpha = [(S, base)] * 4 + [(F, 0), (LIM, 0)]
                pre = [(S, base)] * rng.choice([9, 10, 12])
            elif mode == 1:    # one tiny RTT then big ones: large queue estimate -> decrease (against min)
                alpha = [(S, rng.choice(RTTS[6:])) for _ in range(4)] + [(S, RTTS[0]), (LIM, 0)]
                pre = [(S, RTTS[0])] + [(S, rng.choice(RTTS[5:])) for _ in range(rng.choice([8, 9, 11]))]
            else:
                alpha = [(S, rng.choice(RTTS)) for _ in range(4)] + [(F, 0), (LIM, 0)]
                pre = [(S, rng.choice(RTTS[:6])) for _ in range(rng.choice([0, 8, 9, 10, 12]))]
        progs = [[rng.choice(alpha) for _ in range(rng.randint(1, 6))] for _ in range(nth)]
        total = sum(len(p) for p in progs) * (3 if kind != 3 else 8)
        out.append(mk(kind, params, pre, progs, rand_sched(rng, nth, total)))
    # the service: exhaustive short histories, random long ones
    depth = 4 if thorough else 3
    for k in range(1, depth + 1):
        for w in itertools.product(SVC_ALPHA, repeat=k):
            out.append(mk_svc([1, 1, 2, 1, 1, 2, 100], w))
    for _ in range(20000 if thorough else 1200):
        out.append(rand_service(rng))
    for _ in range(8000 if thorough else 600):
        out.append(ext_feedback_service(rng))
    return out


# ----------------------------------------------------------------------------
def split_trace(s, t):
    kind, params, pre, progs, sched = parse(s)
    n = len(sched)
    need = len(pre) + 3 * n + sum(1 + len(p) for p in progs) + 1
    if len(t) != need:
        return None
    pre_rets = t[:len(pre)]
    t = t[len(pre):]
    entries = [t[3 * i:3 * i + 3] for i in range(n)]
    pos = 3 * n
    per = []
    for p in progs:
        per.append((t[pos], t[pos + 1:pos + 1 + len(p)]))
        pos += 1 + len(p)
    return entries, per, t[pos], pre_rets


def monitor_alg(s, t):
    kind, params, pre, progs, sched = parse(s)
    sp = split_trace(s, t)
    if sp is None:
        return "malformed or panicking run: %s" % t[:12]
    entries, per, final, pre_rets = sp
    mn, mx = params[1], params[2]
    for c, r in zip(pre, pre_rets):
        if (c[0] == LIM and not (mn <= r <= mx)) or (c[0] != LIM and r != 2):
            return "prelude call %s returned %d" % (c, r)
    done_idx = [0] * len(progs)
    for k, (op, done, lim) in enumerate(entries):
        if not (mn <= lim <= mx):
            return "limit %d outside [%d, %d] after entry %d" % (lim, mn, mx, k)
        tid = sched[k]
        if op == 0:
            if done != -1:
                return "skipped entry %d reports a completed call" % k
            continue
        if not (0 <= tid < len(progs)) or done_idx[tid] >= len(progs[tid]):
            return "entry %d: worker %d stepped although it has no call left" % (k, tid)
        if done != -1:
            if per[tid][1][done_idx[tid]] != done:
                return "worker %d call %d: per-step completion %d != reported result %d" % (
                    tid, done_idx[tid], done, per[tid][1][done_idx[tid]])
            done_idx[tid] += 1
    if not (mn <= final <= mx):
        return "final limit %d outside [%d, %d]" % (final, mn, mx)
    for (st, rs), p in zip(per, progs):
        for r, c in zip(rs, p):
            if c[0] == LIM:
                if not (mn <= r <= mx):
                    return "limit() returned %d outside [%d, %d]" % (r, mn, mx)
            elif r != 2:
                return "feedback call returned %d" % r
    return None


def monitor_svc(s, t):
    kind, params, evs, _, _ = parse(s)
    if len(t) != 3 * len(evs) + 3:
        return "malformed or panicking run: %s" % t[:12]
    init, mn, mx = params[0], params[1], params[2]
    live = set()
    used = set()
    sent = {}
    inner = 0
    prev_inflight, prev_limit = 0, min(max(init, mn), mx)
    for k, e in enumerate(evs):
        op, a, b = e
        a = max(a, 0)
        r, infl, lim = t[3 * k:3 * k + 3]
        if not (mn <= lim <= mx):
            return "limit %d outside [%d, %d] after event %d" % (lim, mn, mx, k)
        if op == 1:
            if prev_inflight >= prev_limit:
                if r not in (10, 13):
                    return "event %d: poll_ready returned %d with in_flight %d >= limit %d" % (k, r, prev_inflight, prev_limit)
            else:
                want = {0: 11, 1: 10}.get(inner, 12)
                if r != want:
                    return "event %d: poll_ready returned %d with in_flight %d < limit %d and inner readiness %d" % (
                        k, r, prev_inflight, prev_limit, inner)
        elif op == 2 or op == 8 or op not in (1, 3, 4, 5, 6, 7, 9, 10):
            if a in used:
                if r != 21:
                    return "event %d: reused id gave %d" % (k, r)
            else:
                used.add(a)
                if r == 20:
                    live.add(a)
                elif r != 26:
                    return "event %d: call returned code %d" % (k, r)
        elif op == 3:
            if a in live:
                want = {None: 30, 0: 31, 1: 32}.get(sent.get(a), 35)
                if r != want:
                    return "event %d: poll of call %d gave %d, the inner outcome says %d" % (k, a, r, want)
                if r != 30:
                    live.discard(a)
            elif r != 39:
                return "event %d: poll of a finished/unknown call gave %d" % (k, r)
        elif op == 4:
            sent.setdefault(a, b if b in (0, 1) else 2)
        elif op == 5:
            if a in live:
                if r != 50:
                    return "event %d: drop of live call gave %d" % (k, r)
                live.discard(a)
            elif r != 59:
                return "event %d: drop of a finished/unknown call gave %d" % (k, r)
        elif op == 7:
            inner = a
        elif op in (9, 10):
            if r != {9: 80, 10: 81}[op]:
                return "event %d: external feedback gave code %d" % (k, r)
        # the property: in_flight = calls created and not yet finished / failed / panicked / dropped
        if infl != len(live):
            return "after event %d in_flight() = %d but %d calls are in flight (%s)" % (k, infl, len(live), sorted(live))
        prev_inflight, prev_limit = infl, lim
    r, infl, lim = t[-3:]
    if infl != 0:
        return "everything dropped, in_flight() = %d" % infl
    if not (mn <= lim <= mx):
        return "final limit %d outside [%d, %d]" % (lim, mn, mx)
    if (lim > 0 and r != 11) or (lim == 0 and r != 13):
        return "idle service with limit %d: probe poll_ready returned %d" % (lim, r)
    return None


def monitor(s, t):
    """Independent restatement of C13 over the implementation's trace."""
    if s[0] == 4:
        return monitor_svc(s, t)
    return monitor_alg(s, t)


def nontrivial(s, t):
    if s[0] == 4:
        codes = t[0::3]
        return any(c in (32, 35, 50, 13, 80, 81) for c in codes)
    kind, params, pre, progs, sched = parse(s)
    sp = split_trace(s, t)
    if sp is None:
        return False
    return len({sched[k] for k, e in enumerate(sp[0]) if e[0] != 0}) >= 2


def classify(s, t):
    if s[0] == 4:
        codes = t[0::3]
        out = ["service"]
        for c, name in ((13, "pending_at_limit"), (10, "inner_pending"), (12, "inner_error"), (35, "inner_panic"),
                        (32, "inner_err"), (31, "ok"), (50, "dropped_in_flight"), (26, "sync_call_panic")):
            if c in codes[:-1]:
                out.append(name)
        kind, params, evs, _, _ = parse(s)
        lims = t[2::3]
        infl = t[1::3]
        for k, e in enumerate(evs):
            if e[0] in (9, 10) and k + 1 < len(evs) and evs[k + 1][0] == 1 and k > 0:
                moved = lims[k] != lims[k - 1]
                if e[0] == 9 and moved and infl[k] >= lims[k] and infl[k] < lims[k - 1] and infl[k] > 0:
                    out.append("ext_failure_closes_readiness_with_calls_in_flight")
                if e[0] == 10 and moved and infl[k] < lims[k] and infl[k] >= lims[k - 1] and infl[k] > 0:
                    out.append("ext_success_opens_readiness_with_calls_in_flight")
        if any(e[0] in (9, 10) for e in evs):
            out.append("external_feedback")
        if any(b < a for a, b in zip(lims, lims[1:])):
            out.append("limit_decreased")
        if any(b > a for a, b in zip(lims, lims[1:])):
            out.append("limit_increased")
        out.append("events_%s" % ("0-5" if len(evs) <= 5 else "6-20" if len(evs) <= 20 else "21+"))
        return out
    kind, params, pre, progs, sched = parse(s)
    out = [{1: "controller", 2: "aimd", 3: "vegas"}.get(kind, "?"), "workers%d" % len(progs)]
    sp = split_trace(s, t)
    if sp is None:
        return out + ["malformed"]
    entries, per, final, pre_rets = sp
    lims = [e[2] for e in entries] + [final]
    if any(l == params[1] for l in lims):
        out.append("at_min")
    if any(l == params[2] for l in lims):
        out.append("at_max")
    if any(b < a for a, b in zip(lims, lims[1:])):
        out.append("limit_decreased")
    if any(b > a for a, b in zip(lims, lims[1:])):
        out.append("limit_increased")
    if kind == 3:
        if any(e[0] == 2 and e[2] != lims[max(0, k - 1)] for k, e in enumerate(entries)):
            out.append("vegas_store_changed_limit")
        if len(pre) + sum(len(p) for p in progs) >= 10:
            out.append("vegas_adjusting")
    cas = sum(1 for e in entries if e[0] == 3)
    comp = sum(1 for e in entries if e[0] == 3 and e[1] != -1)
    if cas > comp:
        out.append("cas_retry")
    out.append("sched_len_%s" % ("0-8" if len(sched) <= 8 else "9-20" if len(sched) <= 20 else "21+"))
    return out


def shrink(s):
    if s[0] == 4:
        kind, params, evs, _, _ = parse(s)
        for i in range(len(evs)):
            yield mk_svc(params, evs[:i] + evs[i + 1:])
        return
    kind, params, pre, progs, sched = parse(s)
    for i in range(len(sched)):
        yield mk(kind, params, pre, progs, sched[:i] + sched[i + 1:])
    for ti, p in enumerate(progs):
        for j in range(len(p)):
            q = [list(x) for x in progs]
            del q[ti][j]
            if all(len(x) > 0 for x in q):
                yield mk(kind, params, pre, q, sched)
