"""C09: half-open circuit breaker lets through at most the permitted trial calls."""
from circuit_common import *
PROP = "C09"
RULE = ("half-open bursts (open the breaker, wait, then many callers polled in random order with trial completions, cancellations and panics interleaved), "
        "both window types, permitted 1..3 + multi-phase bursts (trials of an earlier half-open phase still in flight across re-open and the next half-open phase, then cancelled/completed, then more callers) + random concurrent scripts; non-trivial = the breaker left Closed at least once")


def generate(rng, tier):
    k = 1 if tier == "quick" else 12
    return ([half_open_burst(rng) for _ in range(1000 * k)] + [multi_phase_burst(rng) for _ in range(500 * k)]
            + [random_concurrent(rng) for _ in range(500 * k)])


def monitor(s, t):
    d = decode(s, t)
    if d is None:
        return "malformed or panicking run: %s" % t[:12]
    perm, fb = s[11], s[12]
    if perm < 1:
        return None
    prev_state = 0
    cur = None          # current half-open phase: dict(starts, hb, members)
    seen, running = set(), set()
    for (e, o) in d:
        op, a, b = e
        r, started, st = o[0], o[1], o[2]
        if op == 1:
            fresh = a not in seen
            seen.add(a)
            if prev_state == 2 and fresh and cur is not None and cur["starts"] - cur["hb"] >= perm:
                if started or r not in (3, 4):
                    return "caller %d beyond the %d permitted trial calls was not rejected (r=%d started=%d)" % (a, perm, r, started)
            if started:
                running.add(a)
                if prev_state == 2 and cur is not None:
                    cur["starts"] += 1
                    cur["members"].add(a)
                elif prev_state == 1:
                    cur = {"starts": 1, "hb": 0, "members": {a}}
                if cur is not None and (prev_state in (1, 2)) and cur["starts"] - cur["hb"] > perm:
                    return "%d trial calls (excluding %d cancelled) reached the inner service in one half-open phase, permitted %d" % (cur["starts"], cur["hb"], perm)
            if r in (1, 2, 5):
                running.discard(a)
                if cur is not None and a in cur["members"]:
                    cur["members"].discard(a)
                    if r == 5:
                        cur["hb"] += 1
        elif op == 2:
            if a in running:
                running.discard(a)
                if cur is not None and a in cur["members"]:
                    cur["members"].discard(a)
                    cur["hb"] += 1
            seen.add(a)
        if st != 2:
            cur = None
        prev_state = st
    return None
