"""C09: half-open circuit breaker lets through at most the permitted trial calls."""
from circuit_common import *
PROP = "C09"
RULE = ("half-open bursts (open the breaker, wait, then many callers polled in random order with trial completions, cancellations and panics interleaved), "
        "both window types, permitted 1..3 + multi-phase bursts (trials of an earlier half-open phase still in flight across re-open and the next half-open phase, then cancelled/completed, then more callers) + random concurrent scripts + classifier-panic trials; bursts include permitted 4..8, wait 0, slow (successful) trials and calls admitted while closed that complete during the phase, microsecond bursts (wait not a whole number of ms, some callers 1 µs early); non-trivial = the breaker left Closed at least once")


def generate(rng, tier):
    k = 1 if tier == "quick" else 12
    return ([half_open_burst(rng) for _ in range(1000 * k)] + [multi_phase_burst(rng) for _ in range(500 * k)]
            + [random_concurrent(rng) for _ in range(500 * k)] + [classifier_panic_trials(rng) for _ in range(100 * k)]
            + [half_open_burst(rng, us=True) for _ in range(100 * k)] + [half_open_burst(rng, us=2) for _ in range(80 * k)] +
            [slow_listener(rng) for _ in range(120 * k)] + [marathon_phase_wrap()])


def monitor(s, t):
    """The property over the implementation's trace (the same statement as Coq's c09_mon, Proof/Circuit.v, proved
    to accept every trace of the model — theorem C09_monitor_accepts):
    a half-open phase = a maximal run of events after each of which state().await is HalfOpen, together with the
    event that entered it. Per phase: S = inner calls started by polls (the trial calls; the poll that takes the
    breaker out of Open starts the first), M = the trial callers whose call is still in flight, C = trial calls
    that ended WITHOUT an outcome (the caller was dropped while in M, or its poll panicked): such a trial may hand
    its slot back (otherwise a cancelled trial would wedge the breaker half-open).
      (B) after every event of the phase S - C <= permitted — hence at most `permitted` trial calls are in the
          wrapped service at any instant, and at most `permitted` trial outcomes are recorded or awaited;
      (R) a caller polled for the first time when S - C >= permitted is answered in that poll with OpenCircuit /
          the fallback's response and starts nothing.
    Without cancellations and panics C = 0 and (B) is the literal bound on all trial calls of the phase."""
    d = decode(s, t)
    if d is None:
        return "malformed or panicking run: %s" % t[:12]
    perm = s[11]
    if perm < 1:
        return None
    prev = 0
    cur = None          # current half-open phase: [S, C, M]
    seen = set()
    for (e, o) in d:
        op, a, b = e
        r, started, st = o[0], o[1], o[2]
        if op == 1:
            fresh = a not in seen
            seen.add(a)
            if prev == 2 and fresh and cur is not None and cur[0] - cur[1] >= perm:
                if started or r not in (3, 4):
                    return "caller %d beyond the %d permitted trial calls was not rejected (r=%d started=%d; %d started, %d ended without an outcome in this phase)" % (a, perm, r, started, cur[0], cur[1])
            if started:
                if prev == 2 and cur is not None:
                    cur[0] += started
                    cur[2].add(a)
                elif prev == 1:
                    cur = [started, 0, {a}]
            if r in (1, 2, 5) and cur is not None and a in cur[2]:
                cur[2].discard(a)
                if r == 5:
                    cur[1] += 1
        elif op == 2:
            seen.add(a)
            if cur is not None and a in cur[2]:
                cur[2].discard(a)
                cur[1] += 1
        elif started:
            if prev == 2 and cur is not None:
                cur[0] += started       # a start not caused by a poll still reaches the wrapped service
        if st != 2:
            cur = None
        else:
            if cur is None:
                cur = [0, 0, set()]     # half-open entered without a starting poll
            if cur[0] - cur[1] > perm:
                return "%d trial calls reached the inner service in one half-open phase and only %d of them ended without an outcome; permitted %d" % (cur[0], cur[1], perm)
        prev = st
    return None


# ---- marathon: 65536 state transitions (the trial-guard phase stamp must not repeat) ---------------------------------
# The model is cubic in the number of callers and is not run on this script (model_input -> [], compare skipped): it is
# judged by the monitor alone, like C05's marathon scripts. A trial hung since phase p is dropped in phase p + 65536
# (wait 0; 32767 fail-and-reopen cycles in between): the drop must not free a slot of the CURRENT phase.
MARATHON_N = 32767 + 6


def marathon_phase_wrap(cycles=32767):
    s = cfg(0, 1, 100, 1, 1, 1, 0, 50, 1, 2, 0, 2, 0, cycles + 6)
    s += seq_call(0, 2, 0)                 # one failure: open
    s += [1, 1, 0]                         # wait 0: half-open, caller 1 is a trial and hangs
    s += [5, 0, 0]                         # force_open
    for k in range(2, cycles + 2):
        s += [1, k, 0, 4, k, 2, 1, k, 0]   # open -> half-open (trial k), trial fails -> open: two transitions
    a = cycles + 2
    s += [1, a, 0]                         # half-open again: trial a hangs (1 of 2 slots)
    s += [2, 1, 0]                         # the trial of 65536 transitions ago is dropped
    s += [1, a + 1, 0, 1, a + 2, 0]        # second slot, then one too many
    return s


def is_marathon(s):
    return len(s) > 14 and s[13] >= 30000


def model_input(s, impl_trace):
    return [] if is_marathon(s) else s


def compare(s, impl, model):
    if is_marathon(s):
        return None
    return None if impl == model else "traces differ"


def shrink(s):
    """a marathon script is not shrunk (98 000 candidates of 295 000 integers each): it is its own minimal replay"""
    if is_marathon(s):
        return iter(())
    head, body = s[:NCFG], s[NCFG:]
    return (head + body[:3 * i] + body[3 * i + 3:] for i in range(len(body) // 3))
