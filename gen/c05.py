"""C05: retry makes a bounded number of attempts and returns the last outcome.
Generator, trace decoder and an independent monitor over the implementation's trace."""
import itertools

PROP = "C05"
DRIVER = "c05"
MODEL = "C05"
MODEL_QUALID = "Model.Retry.run_script"
FORMAT = ("script [ma_mode(bit0: 0 fixed max_attempts, 1 per-request; ma_mode//2: 0 one service per request, 1 all requests through one Retry handle, 2 through clones of one handle); ma_fixed; "
          "pred_mode(mod 4: 0 none,1 error flag,2 code even,3 never; //4 != 0: attempts beyond L fail retryably for ever); "
          "bkind(bit0: token bucket; //2 builder route: 0 .backoff(FnInterval table), 1 .fixed_backoff(backoff_0), 2 .exponential_backoff(backoff_0), 3 builder default, "
          "4 RetryLayer::exponential_backoff(), 5 aggressive(), 6 conservative() - the presets bring their own max_attempts 3/5/2); bmax; binit; nreq; L; "
          "backoff x L (a duration: below 2^40 milliseconds, 2^40+n = n nanoseconds); nreq blocks [max_i; (okind(0 ok,1 err flagged retryable,2 err flagged not) payload gated(0 immediate,1 on Complete) ready(0 ok,1 error 100000+payload,2 pending until MakeReady)) x L]; "
          "(op a)*] op 1=Poll a 2=Advance a(ms) 3=Complete a 4=MakeReady a. "
          "trace: per event [r(-1 no poll,0 pending,1 Ok,2 Err,5 poll panicked,9 nothing to poll); payload; wake mask; balance(-1 none); deposits; grants; denials] "
          "++ per request [ncalls; (start_ms, end_ms|-1) per inner call] ++ [calls on an instance not polled ready or with a changed request; retries started before a withdrawal had been granted to that request]")
RULE = ("structured schedules (complete/poll/advance-by-backoff rounds interleaved over 1-3 requests sharing one budget, with random omissions, late polls, early completions; "
        "requests through separate services, one shared Retry handle or its clones) "
        "+ uniformly random event lists + all outcome streams up to a small length x max_attempts 0..5 x predicate x budget 0..3 "
        "+ backoffs that are not whole milliseconds (1 ns .. 2.9 ms, polled every millisecond) + long backoffs (minutes to 2^36 ms, polled one millisecond before and at the deadline) "
        "+ bursts of 130-300 zero-backoff failures in one poll (tokio's cooperative budget of 128 per poll, incl. gated calls and a positive backoff at the budget edge, max_attempts up to 400) "
        "+ the built-in builder routes fixed_backoff / exponential_backoff / builder default / the three presets, whole-ms and sub-ms initial intervals "
        "+ one run of 10^4 attempts compared with the model, and marathon runs of 66000-70000 attempts judged by the monitor alone (the unary-nat model cannot run them; model_input gives the model an empty script and compare skips them); "
        "non-trivial = some request made a retry, was denied by the budget, or failed readiness")
TRUSTED = ["tokio::time::sleep (ready at the first poll at or after the deadline rounded UP to a whole millisecond), oneshot wake-ups, and tokio's cooperative budget "
           "(128 completed Sleep/oneshot operations per poll of a task; the next one returns Pending after waking the task itself): modelled in Lib/TokioTime.v + Model/Retry.v drive, tied to the library only by this correspondence run",
           "the scripted inner service, error type, predicates and FnInterval closure in harness/src/bin/c05.rs mirror Model/Retry.v run_script",
           "budget operations are observed through a logging wrapper around the real TokenBucketBudget"]
ASSUMPTIONS = ["polls and clock advances happen at whole-millisecond instants (backoffs are arbitrary nanosecond values below 2^40 ms; Duration::MAX, which tokio turns into a 30-year sleep, is not driven)",
               "polls of one future are sequential; a poll is atomic w.r.t. the budget (single-threaded executor; the atomic-step interleavings of the budget itself are C08, which is also where a change to the token bucket's atomics is caught)",
               "every poll of a call future starts with the cooperative budget of a fresh task poll (128), as under any tokio executor; a future polled inside tokio::task::unconstrained is outside the model",
               "the step machine's budget is the token bucket (TokenBucketBudget::new incl. its clamping); any other RetryBudget is covered by the stream-level theorems (arbitrary grant stream) only",
               "max_attempts is a unary nat in the model (values up to 400 in scripts)"]


# ---------------------------------------------------------------- scripts
def build(ma_mode, ma_fixed, pred, bkind, bmax, binit, backoffs, reqs, evs):
    L = len(backoffs)
    s = [ma_mode, ma_fixed, pred, bkind, bmax, binit, len(reqs), L] + list(backoffs)
    for (mx, entries) in reqs:
        assert len(entries) == L
        s.append(mx)
        for e in entries:
            s += list(e)
    for e in evs:
        s += list(e)
    return s


FLAG = 1 << 40
MS = 1000000


def ns_of(e):
    """duration encoding shared with Lib/TokioTime.v and the driver"""
    return max(0, e) * MS if e < FLAG else e - FLAG


def parse(s):
    s = list(s) + [0] * max(0, 8 - len(s))
    ma_mode, ma_fixed, pred, bkind, bmax, binit, n, L = s[:8]
    n, L = max(0, n), max(0, L)
    tail, pred = pred // 4 != 0, pred % 4
    route, bkind = bkind // 2, bkind % 2
    g = lambda i: s[i] if 0 <= i < len(s) else 0
    backoffs = [ns_of(g(8 + k)) for k in range(L)]
    preset_max = {4: 3, 5: 5, 6: 2}.get(route)
    blk = 1 + 4 * L
    reqs = []
    for i in range(n):
        base = 8 + L + i * blk
        mx = max(0, ma_fixed) if ma_mode % 2 == 0 else max(0, g(base))
        if preset_max is not None:
            mx = preset_max
        ent = [tuple(g(base + 1 + 4 * k + j) for j in range(4)) for k in range(L)]
        reqs.append((mx, ent))
    rest = s[8 + L + n * blk:]
    evs = []
    for j in range(0, len(rest) - 1, 2):
        op, a = rest[j], rest[j + 1]
        if op in (1, 3, 4) and 0 <= a < n:
            evs.append((op, a))
        elif op == 2:
            evs.append((op, a))
    return dict(tail=tail, route=route, ma_mode=ma_mode % 2, handle=ma_mode // 2, pred=pred, bkind=bkind, bmax=max(0, bmax), binit=max(0, binit), n=n, L=L,
                backoffs=backoffs, reqs=reqs, evs=evs)


def decode(s, t):
    p = parse(s)
    ne = len(p["evs"])
    if len(t) < 7 * ne + p["n"] + 2:
        return None
    evt = [t[7 * k:7 * k + 7] for k in range(ne)]
    pos = 7 * ne
    calls = []
    for i in range(p["n"]):
        if pos >= len(t):
            return None
        c = t[pos]; pos += 1
        if c < 0 or pos + 2 * c > len(t):
            return None
        calls.append([(t[pos + 2 * j], t[pos + 2 * j + 1]) for j in range(c)])
        pos += 2 * c
    if pos != len(t) - 2:
        return None
    return p, evt, calls, (t[-2], t[-1])


def entry(p, i, k):
    ent = p["reqs"][i][1]
    return ent[k] if k < len(ent) else ((1, k, 0, 0) if p["tail"] else (0, 0, 0, 0))


def backoff_ns(p, k):
    """the configured backoff before retry k+1 (RetryPolicy::next_backoff(k)) restated per builder route"""
    b0 = p["backoffs"][0] if p["L"] else 0
    r = p["route"]
    if r == 1:
        return b0
    if r == 2:
        return b0 * 2 ** k
    if r in (3, 4):
        return 100 * MS * 2 ** k
    if r == 5:
        return 50 * MS * 2 ** k
    if r == 6:
        return 500 * MS * 2 ** k
    return p["backoffs"][k] if k < p["L"] else 0


def terminal(p, i, k, mx):
    """the outcome of attempt k ends the request: success, refused error, or the last permitted attempt"""
    e = entry(p, i, k)
    return e[0] == 0 or not retryable(p, e) or k + 1 >= max(1, mx)


def retryable(p, e):
    kind, payload = e[0], e[1]
    if kind == 0:
        return False
    flag = kind == 1
    return {0: True, 1: flag, 2: payload % 2 == 0}.get(p["pred"], False)


# ---------------------------------------------------------------- monitor
def monitor(s, t):
    """C05 and nothing more: (a) every request that was polled made at least one inner call, and no
    request makes more than max(1, max_attempts); a request whose newest inner call ended with a terminal
    outcome (success, refused error, last permitted attempt) has returned, or at least has woken itself to do so; (b) a retry follows only an error the predicate
    accepts; the request returns the outcome of its last inner call (or, as the repaired code does,
    the readiness error of the service before the next attempt) and gives up on a retryable error
    only for a reason the statement allows (max_attempts, a denied withdrawal, service not ready);
    (c) retry k+1 starts no earlier than the failure of attempt k + backoff(k), in nanoseconds;
    (d) with a budget, a request never has more retries than withdrawals granted to it, and each retry
    starts only after its withdrawal was granted (counted by the driver at the inner call).
    How the budget computes its answers, when it is refilled, what balance() shows are C08's business
    and are pinned here by the model comparison only."""
    d = decode(s, t)
    if d is None:
        return "malformed or panicking run: %s" % t[:12]
    p, evt, calls, (viol, ungranted) = d
    n = p["n"]
    if viol != 0:
        return "inner service called %d times on an instance that was not polled ready (or with a changed request)" % viol
    if ungranted != 0:
        return "%d retries were started before the budget had granted a withdrawal for them (no grant, no retry)" % ungranted
    returned = {}          # request -> (r, payload)
    polled = set()
    grants_by = [0] * n
    denials_by = [0] * n
    for k, ((op, a), o) in enumerate(zip(p["evs"], evt)):
        r, payload, mask, b, dep, gr, dn = o
        if op == 1:
            polled.add(a)
            if r == 5:
                return "request %d: the poll panicked instead of returning a result (event %d)" % (a, k)
            if r in (1, 2):
                if a in returned:
                    return "request %d returned twice" % a
                returned[a] = (r, payload)
            grants_by[a] += gr
            denials_by[a] += dn
        if not p["bkind"] and (dep or gr or dn):
            return "budget activity without a budget"
    for i in range(n):
        mx = p["reqs"][i][0]
        cs = calls[i]
        nc = len(cs)
        if nc > max(1, mx):
            return "request %d: %d inner calls, max(1, max_attempts) = %d" % (i, nc, max(1, mx))
        if i in polled and nc < 1:
            return "request %d was polled but the inner service was never invoked" % i
        if (nc >= 1 and i not in returned and cs[nc - 1][1] >= 0 and terminal(p, i, nc - 1, mx)
                and evt and not (evt[-1][2] >> i) & 1):
            # the outcome was observed inside a poll of the request; the future is still pending and nothing
            # has woken it (a future that merely yields once more before returning has its wake flag set)
            return "request %d observed the terminal outcome %s of attempt %d but has not returned" % (i, entry(p, i, nc - 1)[:2], nc - 1)
        for k in range(nc - 1):
            e = entry(p, i, k)
            if not retryable(p, e):
                return "request %d: attempt %d followed outcome %s which must not be retried" % (i, k + 1, e[:2])
            st, en = cs[k]
            if en < 0:
                return "request %d: attempt %d started while attempt %d still in flight" % (i, k + 1, k)
            bk = backoff_ns(p, k)
            if cs[k + 1][0] * MS < en * MS + bk:
                return "request %d: attempt %d started at %d ms, earlier than failure at %d ms + backoff %d ns" % (
                    i, k + 1, cs[k + 1][0], en, bk)
        if p["bkind"]:
            retries = max(0, nc - 1)
            if retries > grants_by[i]:
                return "request %d: %d retries but only %d granted withdrawals" % (i, retries, grants_by[i])
        if i in returned:
            r, payload = returned[i]
            if nc < 1:
                return "request %d returned without calling the inner service" % i
            last = entry(p, i, nc - 1)
            nxt = entry(p, i, nc)
            if cs[nc - 1][1] < 0:
                return "request %d returned while its last inner call was still in flight" % i
            exp = (1, last[1]) if last[0] == 0 else (2, last[1])
            may_retry = last[0] != 0 and retryable(p, last) and nc < max(1, mx)
            if may_retry and nxt[3] == 1 and (r, payload) == (2, 100000 + nxt[1]):
                continue        # the service was not ready for the next attempt
            if (r, payload) != exp:
                return "request %d returned %s, last observed outcome is %s" % (i, (r, payload), exp)
            if may_retry and not denials_by[i]:
                return "request %d gave up after %d attempts on a retryable error (max_attempts %d, no denial)" % (i, nc, mx)
    return None


# ---------------------------------------------------------------- generators
def corpus():
    e = lambda kind, pay, gated=0, ready=0: (kind, pay, gated, ready)
    out = []
    # three failures then success, backoffs 5,10,20, prompt polling
    out.append(build(0, 4, 0, 0, 0, 0, [5, 10, 20, 0], [(0, [e(1, 11), e(1, 12), e(1, 13), e(0, 14)])],
                     [(1, 0), (2, 4), (1, 0), (2, 1), (1, 0), (2, 10), (1, 0), (2, 20), (1, 0)]))
    # max_attempts 0 and 1: exactly one call
    out.append(build(0, 0, 0, 0, 0, 0, [1], [(0, [e(1, 7)])], [(1, 0), (1, 0)]))
    out.append(build(1, 0, 1, 0, 0, 0, [1, 1], [(1, [e(1, 7), e(0, 8)]), (2, [e(1, 17), e(0, 18)])],
                     [(1, 0), (1, 1), (2, 1), (1, 1), (1, 0)]))
    # predicate refuses the second error
    out.append(build(0, 5, 1, 0, 0, 0, [2, 2, 2], [(0, [e(1, 1), e(2, 2), e(0, 3)])],
                     [(1, 0), (2, 2), (1, 0), (2, 2), (1, 0)]))
    # two requests, one token: the second is denied; a success refills
    out.append(build(0, 3, 0, 1, 2, 1, [3, 3, 3],
                     [(0, [e(1, 1, 1), e(0, 2, 1), e(0, 3)]), (0, [e(1, 11, 1), e(1, 12, 1), e(0, 13)])],
                     [(1, 0), (1, 1), (3, 0), (1, 0), (3, 1), (1, 1), (2, 3), (1, 0), (3, 0), (1, 0)]))
    # zero backoff: all attempts inside one poll; budget 2 of 3 needed
    out.append(build(0, 5, 0, 1, 5, 2, [0, 0, 0, 0, 0], [(0, [e(1, 1), e(1, 2), e(1, 3), e(1, 4), e(0, 5)])], [(1, 0), (1, 0)]))
    # readiness error before the second attempt, readiness pending before the third
    out.append(build(0, 4, 0, 0, 0, 0, [1, 1, 1, 1], [(0, [e(1, 1), e(1, 2, 0, 1), e(0, 3), e(0, 4)])],
                     [(1, 0), (2, 1), (1, 0)]))
    out.append(build(0, 4, 0, 0, 0, 0, [1, 1, 1, 1], [(0, [e(1, 1), e(1, 2, 0, 2), e(0, 3, 1, 2), e(0, 4)])],
                     [(1, 0), (2, 1), (1, 0), (4, 0), (1, 0), (2, 1), (1, 0), (1, 0), (4, 0), (1, 0), (3, 0), (1, 0)]))
    # initial tokens above max: the constructor caps the balance at max
    out.append(build(0, 3, 0, 1, 1, 3, [0, 0, 0], [(0, [e(1, 1), e(0, 2), e(0, 3)])], [(1, 0)]))
    # backoffs of 1 ns, 0.999999 ms, 1.000001 ms, 1.9 ms: the timer fires at the next whole millisecond
    out.append(build(0, 6, 0, 0, 0, 0, [FLAG + 1, FLAG + 999999, FLAG + 1000001, FLAG + 1900000, FLAG + 0],
                     [(0, [e(1, 1), e(1, 2), e(1, 3), e(1, 4), e(1, 5)])],
                     [(1, 0), (1, 0), (2, 1), (1, 0), (1, 0), (2, 1), (1, 0), (2, 1), (1, 0), (2, 1), (1, 0), (2, 1), (1, 0), (2, 1), (1, 0), (2, 1), (1, 0)]))
    # one minute, one hour, 2^36 ms
    out.append(build(0, 6, 0, 0, 0, 0, [61000, 3600000, 2 ** 36 + 7], [(0, [e(1, 1), e(1, 2), e(1, 3)])],
                     [(1, 0), (2, 60999), (1, 0), (2, 1), (1, 0), (2, 3599999), (1, 0), (2, 1), (1, 0), (2, 2 ** 36), (1, 0), (2, 6), (1, 0), (2, 1), (1, 0)]))
    # 150 immediate failures, zero backoff: the first poll stops at the 129th sleep (cooperative budget) and wakes itself
    out.append(build(0, 200, 0, 0, 0, 0, [0] * 150, [(0, [e(1, k) for k in range(150)])], [(1, 0), (1, 0), (1, 0)]))
    # ... with the first call gated (its completion costs one unit) and a gated call met with the budget exhausted
    out.append(build(0, 200, 0, 0, 0, 0, [0] * 150, [(0, [e(1, k, 1 if k in (0, 127) else 0) for k in range(150)])],
                     [(1, 0), (3, 0), (1, 0), (3, 0), (1, 0), (1, 0)]))
    # ... with a 3 ms backoff exactly where the budget runs out
    out.append(build(0, 200, 0, 0, 0, 0, [0] * 128 + [3] + [0] * 21, [(0, [e(1, k) for k in range(150)])],
                     [(1, 0), (1, 0), (2, 3), (1, 0), (1, 0)]))
    # fixed_backoff(0.9 ms) and fixed_backoff(1.9 ms): the retry waits until the next whole millisecond at or after it
    out.append(build(0, 3, 0, 2, 0, 0, [FLAG + 900000, 0], [(0, [e(1, 1), e(1, 2)])], [(1, 0), (1, 0), (2, 1), (1, 0), (1, 0), (2, 1), (1, 0)]))
    out.append(build(0, 3, 0, 2, 0, 0, [FLAG + 1900000, 0], [(0, [e(1, 1), e(1, 2)])], [(1, 0), (2, 1), (1, 0), (2, 1), (1, 0), (2, 1), (1, 0), (2, 1), (1, 0)]))
    # exponential_backoff(3 ms): 3, 6, 12 ms; builder default and the presets: 100/50/500 ms doubling, max_attempts 3/5/2 from the preset
    out.append(build(0, 5, 0, 4, 0, 0, [3, 0, 0, 0], [(0, [e(1, 1), e(1, 2), e(1, 3), e(0, 4)])],
                     [(1, 0), (2, 2), (1, 0), (2, 1), (1, 0), (2, 5), (1, 0), (2, 1), (1, 0), (2, 11), (1, 0), (2, 1), (1, 0)]))
    for route, d0 in ((3, 100), (4, 100), (5, 50), (6, 500)):
        evs = [(1, 0)]
        for k in range(5):
            evs += [(2, d0 * 2 ** k - 1), (1, 0), (2, 1), (1, 0)]
        out.append(build(0, 9, 0, 2 * route, 0, 0, [0] * 6, [(0, [e(1, k + 1) for k in range(6)])], evs))
    # 300 attempts on a table of 2: the tail fails retryably for ever (pred_mode 4)
    out.append(build(0, 300, 4, 0, 0, 0, [0, 0], [(0, [e(1, 1), e(1, 2)])], [(1, 0), (1, 0), (1, 0), (1, 0)]))
    # two requests through ONE Retry handle / through clones of it
    for hm in (1, 2):
        out.append(build(2 * hm, 3, 0, 1, 2, 1, [3, 3, 3],
                         [(0, [e(1, 1, 1), e(0, 2, 1), e(0, 3)]), (0, [e(1, 11, 1), e(1, 12, 1), e(0, 13)])],
                         [(1, 0), (1, 1), (3, 0), (1, 0), (3, 1), (1, 1), (2, 3), (1, 0), (3, 0), (1, 0)]))
    return out


def rand_entries(rng, i, L, p_ok, p_gated, p_rdy):
    ent = []
    for k in range(L):
        x = rng.random()
        kind = 0 if x < p_ok else (1 if x < p_ok + (1 - p_ok) * 0.75 else 2)
        y = rng.random()
        ready = 0 if y > p_rdy else rng.choice([1, 2, 2])
        ent.append((kind, 100 * i + 10 * k + rng.randrange(10), 1 if rng.random() < p_gated else 0, ready))
    return ent


def random_header(rng, small=False):
    n = rng.choice([1, 1, 2, 2, 3])
    L = rng.randint(1, 6)
    ma_mode = rng.choice([0, 1]) + 2 * rng.choice([0, 0, 0, 1, 2])
    ma_fixed = rng.choice([0, 1, 2, 3, 3, 4, 5, 7])
    pred = rng.choice([0, 0, 0, 1, 1, 1, 2, 3])
    bkind = rng.choice([0, 1, 1])
    bmax = rng.choice([0, 1, 2, 3, 5])
    binit = rng.choice([0, 1, 2, 3, 3, 6])
    backoffs = [rng.choice([0, 0, 1, 2, 3, 5, 10, 20]) for _ in range(L)]
    if rng.random() < 0.15:
        backoffs = [0] * L
    p_ok = rng.choice([0.05, 0.15, 0.4])
    p_gated = rng.choice([0.0, 0.5, 1.0])
    p_rdy = rng.choice([0.0, 0.0, 0.15, 0.3])
    reqs = [(rng.choice([0, 1, 2, 3, 4, 5, 6, 6]), rand_entries(rng, i, L, p_ok, p_gated, p_rdy)) for i in range(n)]
    return ma_mode, ma_fixed, pred, bkind, bmax, binit, backoffs, reqs


def structured(rng):
    """rounds of complete / poll / advance-by-a-backoff / poll / make-ready / poll on a random request"""
    h = random_header(rng)
    backoffs, reqs = h[6], h[7]
    n = len(reqs)
    evs = []
    i = rng.randrange(n)
    sticky = rng.choice([0.0, 0.5, 0.8])
    keep = rng.choice([0.85, 0.97])
    for _ in range(rng.randint(2, 18)):
        if rng.random() >= sticky:
            i = rng.randrange(n)
        rnd = [(3, i), (1, i), (2, rng.choice(backoffs + [1])), (1, i), (4, i), (1, i)]
        for e in rnd:
            if rng.random() < keep:
                evs.append(e)
            if rng.random() < 0.1:
                evs.append((1, rng.randrange(n)))
            if rng.random() < 0.05:
                evs.append((2, rng.choice([1, 1, 2, 19])))
    return build(*h[:6], backoffs, reqs, evs)


def unstructured(rng, maxlen=40):
    h = random_header(rng)
    n = len(h[7])
    evs = []
    for _ in range(rng.randint(1, maxlen)):
        x = rng.random()
        if x < 0.45:
            evs.append((1, rng.randrange(n)))
        elif x < 0.68:
            evs.append((2, rng.choice([0, 1, 1, 2, 3, 4, 5, 9, 10, 20])))
        elif x < 0.92:
            evs.append((3, rng.randrange(n)))
        else:
            evs.append((4, rng.randrange(n)))
    return build(*h[:6], h[6], h[7], evs)


SUB_MS = [1, 400000, 999999, 1000001, 1500000, 1900000, 2000001, 2999999, 900000, 500]
LONG_MS = [65, 1000, 61000, 120000, 3600000, 86400000, 2 ** 31, 2 ** 32 + 1, 2 ** 36 + 7]


def prompt_round(evs, i, gated, step_ms, n_steps):
    """complete (if gated), poll, then n_steps x (advance step_ms, poll)"""
    if gated:
        evs.append((3, i))
    evs.append((1, i))
    for _ in range(n_steps):
        evs += [(2, step_ms), (1, i)]


def submilli(rng):
    """backoffs that are not whole milliseconds; polled every millisecond so that the exact firing instant shows"""
    n = rng.choice([1, 1, 2])
    L = rng.randint(2, 5)
    backoffs = [FLAG + rng.choice(SUB_MS) for _ in range(L)]
    if rng.random() < 0.3:
        backoffs[rng.randrange(L)] = rng.choice([0, 1, 2])
    reqs = []
    for i in range(n):
        nf = rng.randint(1, L)
        ent = [((1 if k < nf else 0), 100 * i + 10 * k + rng.randrange(10), 1 if rng.random() < 0.3 else 0, 0) for k in range(L)]
        reqs.append((L + 1, ent))
    evs = []
    for _ in range(L + 1):
        for i in range(n):
            prompt_round(evs, i, True, 1, rng.choice([3, 4]))
        if rng.random() < 0.2:
            evs.append((2, rng.choice([1, 2])))
    bk = rng.choice([0, 1])
    return build(rng.choice([0, 2, 4]), L + 1, 0, bk, 8, 8, backoffs, reqs, evs)


def long_delays(rng):
    """backoffs of minutes .. 2^36 ms: still pending one millisecond before the deadline, retried at it"""
    L = rng.randint(1, 3)
    bms = [rng.choice(LONG_MS) for _ in range(L)]
    ent = [(1, 10 * k + 1, 1 if rng.random() < 0.3 else 0, 0) for k in range(L)] + [(0, 99, 0, 0)]
    evs = [(3, 0), (1, 0)]
    for b in bms:
        cut = rng.choice([1, 1, 2, 60, b // 2])
        cut = max(1, min(cut, b - 1))
        evs += [(2, b - cut), (1, 0), (2, cut - 1), (1, 0), (2, 1), (3, 0), (1, 0), (3, 0), (1, 0)]
    return build(0, L + 1, 0, 0, 0, 0, bms + [0], [(0, ent)], evs)


def coop_burst(rng):
    """130-300 immediately failing attempts with zero backoff: one poll can complete only 128 sleeps"""
    n = rng.choice([1, 1, 1, 2])
    L = rng.randint(130, 300)
    backoffs = [0] * L
    for _ in range(rng.choice([0, 0, 1, 2])):
        backoffs[rng.choice([126, 127, 128, 129, rng.randrange(L)])] = rng.choice([1, 3, FLAG + 500000])
    per_request = rng.choice([0, 1])
    mx_fixed = rng.choice([L + 50, 400, 200, 129, 128, 130])
    reqs = []
    for i in range(n):
        gated_at = set(rng.sample(range(L), rng.choice([0, 0, 0, 1, 2])))
        if rng.random() < 0.4:
            gated_at |= {rng.choice([0, 126, 127, 128, 129])}
        nf = rng.choice([L, L, rng.randint(100, L)])
        rdy_at = rng.choice([-1, -1, -1, -1, 1, 128, 129, rng.randrange(L)])
        ent = [((1 if k < nf else 0), 1000 * i + k, 1 if k in gated_at else 0,
                (rng.choice([1, 2, 2]) if k == rdy_at else 0)) for k in range(L)]
        reqs.append((rng.choice([L + 1, 400, 150, 129]), ent))
    bk = rng.choice([0, 0, 1])
    binit = rng.choice([400, 400, 400, 128, 127, 5])
    evs = []
    for _ in range(rng.randint(4, 14)):
        i = rng.randrange(n)
        x = rng.random()
        if x < 0.55:
            evs.append((1, i))
        elif x < 0.75:
            evs += [(3, i), (1, i)]
        elif x < 0.9:
            evs += [(2, rng.choice([1, 3])), (1, i)]
        else:
            evs += [(4, i), (1, i)]
    return build(per_request + 2 * rng.choice([0, 0, 1, 2]), mx_fixed, 0, bk, 400, binit, backoffs, reqs, evs)


def routes(rng):
    """the built-in builder routes: fixed_backoff, exponential_backoff, builder default and the three presets;
    polled one millisecond before each deadline and at it (and every millisecond for sub-ms initial intervals)"""
    route = rng.choice([1, 1, 1, 2, 2, 3, 4, 5, 6])
    L = rng.randint(1, 6)
    b0 = rng.choice([1, 2, 3, 5, 7, FLAG + 900000, FLAG + 1900000, FLAG + 300000, FLAG + 1, FLAG + 2500000, 0])
    n = rng.choice([1, 1, 2])
    pr = rng.choice([0, 0, 1])
    mx = rng.choice([L + 1, L + 1, 2, 3, 7])
    reqs = []
    for i in range(n):
        nf = rng.randint(1, L)
        reqs.append((mx, [((rng.choice([1, 1, 1, 2]) if k < nf else 0), 100 * i + 10 * k + rng.randrange(10), 0, 0) for k in range(L)]))
    p = dict(route=route, backoffs=[ns_of(b0)], L=1)
    evs = [(1, i) for i in range(n)]
    for k in range(L):
        d = backoff_ns(p, k)
        whole = -(-d // MS)
        if d % MS or whole <= 3:
            for _ in range(whole + 1):
                evs.append((2, 1))
                evs += [(1, i) for i in range(n)]
        else:
            evs.append((2, whole - 1))
            evs += [(1, i) for i in range(n)]
            evs.append((2, 1))
            evs += [(1, i) for i in range(n)]
    bk = rng.choice([0, 0, 1])
    return build(rng.choice([0, 1]) + 2 * rng.choice([0, 0, 1, 2]), mx, pr, bk + 2 * route, 8, 8, [b0] + [0] * (L - 1), reqs, evs)


def long_run(rng, attempts):
    """one request, zero backoff, every attempt fails retryably (tail mode): `attempts` inner calls, 128 per poll"""
    polls = attempts // 128 + 3
    return build(0, attempts, 4, 0, 0, 0, [], [(0, [])], [(1, 0)] * polls)


MARATHON = 20000          # above this many attempts the model is not run (unary nat): judged by the monitor alone


def is_marathon(s):
    p = parse(s)
    return p["tail"] and any(mx > MARATHON for (mx, _) in p["reqs"])


def model_input(s, impl_trace):
    return [] if is_marathon(s) else s


def compare(s, impl, model):
    if is_marathon(s):
        return None
    return None if impl == model else "traces differ"


def exhaustive(maxlen, maxes, budgets, preds=(0, 1), backoff=2):
    """every outcome stream up to maxlen over {ok, retryable, refused}: one request, prompt polling"""
    for L in range(1, maxlen + 1):
        for kinds in itertools.product((0, 1, 2), repeat=L):
            for mx in maxes:
                for pr in preds:
                    for bi in budgets:
                        ent = [(k, 10 * j + 1 + k, 0, 0) for j, k in enumerate(kinds)]
                        evs = [(1, 0)]
                        for _ in range(L):
                            evs += [(2, backoff), (1, 0)]
                        yield build(0, mx, pr, 0 if bi is None else 1, 3, bi or 0, [backoff] * L, [(0, ent)], evs)


def generate(rng, tier):
    out = []
    if tier == "quick":
        out += [structured(rng) for _ in range(1400)]
        out += [unstructured(rng) for _ in range(500)]
        out += list(exhaustive(3, (0, 1, 2, 3), (None, 0, 1)))
        out += [submilli(rng) for _ in range(150)]
        out += [long_delays(rng) for _ in range(60)]
        out += [coop_burst(rng) for _ in range(80)]
        out += [routes(rng) for _ in range(120)]
        out += [long_run(rng, 10000), long_run(rng, 66000), long_run(rng, 70000)]
    else:
        out += [structured(rng) for _ in range(30000)]
        out += [unstructured(rng, 80) for _ in range(10000)]
        out += list(exhaustive(5, (0, 1, 2, 3, 4, 5), (None, 0, 1, 2, 3)))
        out += list(exhaustive(4, (0, 1, 2, 3, 4), (None, 1), preds=(2, 3), backoff=0))
        out += [submilli(rng) for _ in range(3000)]
        out += [long_delays(rng) for _ in range(1000)]
        out += [coop_burst(rng) for _ in range(600)]
        out += [routes(rng) for _ in range(3000)]
        out += [long_run(rng, a) for a in (10000, 16000, 66000, 70000, 131100)]
    return out


def nontrivial(s, t):
    d = decode(s, t)
    if not d:
        return True
    p, evt, calls, _ = d
    return any(len(c) >= 2 for c in calls) or any(o[6] for o in evt) or any(o[0] == 2 and o[1] >= 100000 for o in evt)


def classify(s, t):
    d = decode(s, t)
    p = parse(s)
    out = ["nreq%d" % p["n"], "budget_%s" % ("none" if not p["bkind"] else "tb%d" % min(p["binit"], 3)),
           "pred%d" % p["pred"], "max_%s" % ("per_request" if p["ma_mode"] else "fixed"), "handle_mode_%d" % p["handle"]]
    if any(b % MS for b in p["backoffs"]):
        out.append("has_submillisecond_backoff")
    if any(b >= 60000 * MS for b in p["backoffs"]):
        out.append("has_backoff_of_a_minute_or_more")
    out.append("builder_route_%d" % p["route"])
    if p["tail"]:
        out.append("tail_fails_for_ever")
    for (mx, _) in p["reqs"]:
        if mx == 0:
            out.append("has_max0")
        if mx == 1:
            out.append("has_max1")
    if d:
        _, evt, calls, _ = d
        m = max([len(c) for c in calls] + [0])
        out.append("most_calls_%s" % (min(m, 5) if m < 129 else "129plus" if m < 10000 else "10000plus" if m < 65536 else "65536plus"))
        if any(o[0] == 0 and o[2] & (1 << a) for (op, a), o in zip(p["evs"], evt) if op == 1):
            out.append("poll_ended_self_woken_(coop_budget)")
        if any(o[6] for o in evt):
            out.append("saw_denial")
        if any(o[4] for o in evt):
            out.append("saw_deposit")
        if any(o[0] == 1 for o in evt):
            out.append("saw_ok")
        if any(o[0] == 2 and o[1] >= 100000 for o in evt):
            out.append("saw_readiness_error")
        elif any(o[0] == 2 for o in evt):
            out.append("saw_err")
        if sum(1 for c in calls if len(c) >= 2) >= 2:
            out.append("two_requests_retried")
        if any(o[5] >= 2 for o in evt):
            out.append("several_attempts_in_one_poll")
    return sorted(set(out))


def shrink(s):
    p = parse(s)
    L, n = p["L"], p["n"]
    head_len = 8 + L + n * (1 + 4 * L)
    head, body = list(s[:head_len]), list(s[head_len:])
    for i in range(len(body) // 2):
        yield head + body[:2 * i] + body[2 * i + 2:]
