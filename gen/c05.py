"""C05: retry makes a bounded number of attempts and returns the last outcome.
Generator, trace decoder and an independent monitor over the implementation's trace."""
import itertools

PROP = "C05"
DRIVER = "c05"
MODEL = "C05"
MODEL_QUALID = "Model.Retry.run_script"
FORMAT = ("script [ma_mode(0 fixed,1 per-request); ma_fixed; pred_mode(0 none,1 error flag,2 code even,3 never); bkind(0 none,1 token bucket); bmax; binit; nreq; L; "
          "backoff_ms x L; nreq blocks [max_i; (okind(0 ok,1 err flagged retryable,2 err flagged not) payload gated(0 immediate,1 on Complete) ready(0 ok,1 error 100000+payload,2 pending until MakeReady)) x L]; "
          "(op a)*] op 1=Poll a 2=Advance a(ms) 3=Complete a 4=MakeReady a. "
          "trace: per event [r(-1 no poll,0 pending,1 Ok,2 Err,9 nothing to poll); payload; wake mask; balance(-1 none); deposits; grants; denials] "
          "++ per request [ncalls; (start_ms, end_ms|-1) per inner call] ++ [calls on an instance not polled ready]")
RULE = ("structured schedules (complete/poll/advance-by-backoff rounds interleaved over 1-3 requests sharing one budget, with random omissions, late polls, early completions) "
        "+ uniformly random event lists + all outcome streams up to a small length x max_attempts 0..4 x predicate x budget 0..2; "
        "non-trivial = some request made a retry, was denied by the budget, or failed readiness")
TRUSTED = ["tokio::time::sleep (ready iff now >= deadline at whole-ms instants), oneshot wake-ups: modelled, tied to the library only by this correspondence run",
           "the scripted inner service, error type, predicates and FnInterval closure in harness/src/bin/c05.rs mirror Model/Retry.v run_script",
           "budget operations are observed through a logging wrapper around the real TokenBucketBudget"]
ASSUMPTIONS = ["whole-millisecond backoffs and instants", "polls of one future are sequential; a poll is atomic w.r.t. the budget (single-threaded executor; the atomic-step interleavings of the budget itself are C08)",
               "token bucket sizes below 2^64/1000", "max_attempts as a unary nat in the model (small values in scripts)"]


# ---------------------------------------------------------------- scripts
def build(ma_mode, ma_fixed, pred, bkind, bmax, binit, backoffs, reqs, evs):
    L = len(backoffs)
    s = [ma_mode, ma_fixed, pred, bkind, bmax, binit, len(reqs), L] + list(backoffs)
    for (mx, entries) in reqs:
        assert len(entries) == L
        s.append(mx)
        for e in entries:
            s += list(e)
    for e in evs:
        s += list(e)
    return s


def parse(s):
    s = list(s) + [0] * max(0, 8 - len(s))
    ma_mode, ma_fixed, pred, bkind, bmax, binit, n, L = s[:8]
    n, L = max(0, n), max(0, L)
    g = lambda i: s[i] if 0 <= i < len(s) else 0
    backoffs = [max(0, g(8 + k)) for k in range(L)]
    blk = 1 + 4 * L
    reqs = []
    for i in range(n):
        base = 8 + L + i * blk
        mx = max(0, ma_fixed) if ma_mode == 0 else max(0, g(base))
        ent = [tuple(g(base + 1 + 4 * k + j) for j in range(4)) for k in range(L)]
        reqs.append((mx, ent))
    rest = s[8 + L + n * blk:]
    evs = []
    for j in range(0, len(rest) - 1, 2):
        op, a = rest[j], rest[j + 1]
        if op in (1, 3, 4) and 0 <= a < n:
            evs.append((op, a))
        elif op == 2:
            evs.append((op, a))
    return dict(ma_mode=ma_mode, pred=pred, bkind=bkind, bmax=max(0, bmax), binit=max(0, binit), n=n, L=L,
                backoffs=backoffs, reqs=reqs, evs=evs)


def decode(s, t):
    p = parse(s)
    ne = len(p["evs"])
    if len(t) < 7 * ne + p["n"] + 1:
        return None
    evt = [t[7 * k:7 * k + 7] for k in range(ne)]
    pos = 7 * ne
    calls = []
    for i in range(p["n"]):
        if pos >= len(t):
            return None
        c = t[pos]; pos += 1
        if c < 0 or pos + 2 * c > len(t):
            return None
        calls.append([(t[pos + 2 * j], t[pos + 2 * j + 1]) for j in range(c)])
        pos += 2 * c
    if pos != len(t) - 1:
        return None
    return p, evt, calls, t[-1]


def entry(p, i, k):
    ent = p["reqs"][i][1]
    return ent[k] if k < len(ent) else (0, 0, 0, 0)


def retryable(p, e):
    kind, payload = e[0], e[1]
    if kind == 0:
        return False
    flag = kind == 1
    return {0: True, 1: flag, 2: payload % 2 == 0}.get(p["pred"], False)


# ---------------------------------------------------------------- monitor
def monitor(s, t):
    d = decode(s, t)
    if d is None:
        return "malformed or panicking run: %s" % t[:12]
    p, evt, calls, viol = d
    n = p["n"]
    if viol != 0:
        return "inner service called %d times on an instance that was not polled ready" % viol
    now = 0
    returned = {}          # request -> (r, payload, event index, denials in that event)
    grants_by = [0] * n
    bal = p["binit"] if p["bkind"] else -1
    deposits = grants = 0
    for k, ((op, a), o) in enumerate(zip(p["evs"], evt)):
        r, payload, mask, b, dep, gr, dn = o
        if op == 2:
            now += max(0, a)
        if op != 1:
            if r != -1 or dep or gr or dn:
                return "budget operation or result outside a poll (event %d)" % k
        else:
            if r in (1, 2):
                if a in returned:
                    return "request %d returned twice" % a
                returned[a] = (r, payload, k, dn)
            grants_by[a] += gr
            if r == 1 and p["bkind"] and dep != 1:
                return "success of request %d deposited %d times (exactly once expected)" % (a, dep)
            if r != 1 and dep:
                return "deposit without a success (event %d)" % k
            if dn and r != 2:
                return "denied withdrawal but the call did not fail at once (event %d)" % k
            if dn > 1:
                return "more than one denial in one poll"
        if p["bkind"]:
            # sequential token bucket restated: grants only from a positive balance,
            # a denial only at balance 0, deposit (+1 capped at max; min) last
            if gr > bal:
                return "granted %d withdrawals with balance %d (event %d)" % (gr, bal, k)
            bal -= gr
            if dn and bal != 0:
                return "withdrawal denied although %d tokens were left (event %d)" % (bal, k)
            if dep:
                bal = min(bal + 1, p["bmax"])
            if b != bal:
                return "balance %d after event %d, token bucket arithmetic gives %d" % (b, k, bal)
            deposits += dep
            grants += gr
            if grants > p["binit"] + deposits:
                return "more withdrawals granted (%d) than initial balance %d + deposits %d" % (grants, p["binit"], deposits)
        elif b != -1 or dep or gr or dn:
            return "budget activity without a budget"
    total_retries = 0
    for i in range(n):
        mx = p["reqs"][i][0]
        cs = calls[i]
        nc = len(cs)
        total_retries += max(0, nc - 1)
        if nc > max(1, mx):
            return "request %d: %d inner calls, max(1, max_attempts) = %d" % (i, nc, max(1, mx))
        for k in range(nc - 1):
            e = entry(p, i, k)
            if not retryable(p, e):
                return "request %d: attempt %d followed outcome %s which must not be retried" % (i, k + 1, e[:2])
            st, en = cs[k]
            if en < 0:
                return "request %d: attempt %d started while attempt %d still in flight" % (i, k + 1, k)
            bk = p["backoffs"][k] if k < p["L"] else 0
            if cs[k + 1][0] < en + bk:
                return "request %d: attempt %d started at %d, earlier than failure at %d + backoff %d" % (
                    i, k + 1, cs[k + 1][0], en, bk)
        if p["bkind"]:
            retries = max(0, nc - 1)
            if retries > grants_by[i]:
                return "request %d: %d retries but only %d granted withdrawals" % (i, retries, grants_by[i])
        if i in returned:
            r, payload, k, dn = returned[i]
            if nc < 1:
                return "request %d returned without calling the inner service" % i
            last = entry(p, i, nc - 1)
            nxt = entry(p, i, nc)
            ready_err = (nc >= 1 and cs[nc - 1][1] >= 0 and nxt[3] == 1 and r == 2 and payload == 100000 + nxt[1]
                         and retryable(p, last) and nc < max(1, mx))
            if ready_err:
                continue
            if cs[nc - 1][1] < 0:
                return "request %d returned while its last inner call was still in flight" % i
            exp = (1, last[1]) if last[0] == 0 else (2, last[1])
            if (r, payload) != exp:
                return "request %d returned %s, last observed outcome is %s" % (i, (r, payload), exp)
            if last[0] != 0 and retryable(p, last) and nc < max(1, mx) and not dn:
                return "request %d gave up after %d attempts on a retryable error (max_attempts %d, no denial)" % (i, nc, mx)
    if p["bkind"] and total_retries > p["binit"] + deposits:
        return "total retries %d exceed initial balance %d + deposits %d" % (total_retries, p["binit"], deposits)
    return None


# ---------------------------------------------------------------- generators
def corpus():
    e = lambda kind, pay, gated=0, ready=0: (kind, pay, gated, ready)
    out = []
    # three failures then success, backoffs 5,10,20, prompt polling
    out.append(build(0, 4, 0, 0, 0, 0, [5, 10, 20, 0], [(0, [e(1, 11), e(1, 12), e(1, 13), e(0, 14)])],
                     [(1, 0), (2, 4), (1, 0), (2, 1), (1, 0), (2, 10), (1, 0), (2, 20), (1, 0)]))
    # max_attempts 0 and 1: exactly one call
    out.append(build(0, 0, 0, 0, 0, 0, [1], [(0, [e(1, 7)])], [(1, 0), (1, 0)]))
    out.append(build(1, 0, 1, 0, 0, 0, [1, 1], [(1, [e(1, 7), e(0, 8)]), (2, [e(1, 17), e(0, 18)])],
                     [(1, 0), (1, 1), (2, 1), (1, 1), (1, 0)]))
    # predicate refuses the second error
    out.append(build(0, 5, 1, 0, 0, 0, [2, 2, 2], [(0, [e(1, 1), e(2, 2), e(0, 3)])],
                     [(1, 0), (2, 2), (1, 0), (2, 2), (1, 0)]))
    # two requests, one token: the second is denied; a success refills
    out.append(build(0, 3, 0, 1, 2, 1, [3, 3, 3],
                     [(0, [e(1, 1, 1), e(0, 2, 1), e(0, 3)]), (0, [e(1, 11, 1), e(1, 12, 1), e(0, 13)])],
                     [(1, 0), (1, 1), (3, 0), (1, 0), (3, 1), (1, 1), (2, 3), (1, 0), (3, 0), (1, 0)]))
    # zero backoff: all attempts inside one poll; budget 2 of 3 needed
    out.append(build(0, 5, 0, 1, 5, 2, [0, 0, 0, 0, 0], [(0, [e(1, 1), e(1, 2), e(1, 3), e(1, 4), e(0, 5)])], [(1, 0), (1, 0)]))
    # readiness error before the second attempt, readiness pending before the third
    out.append(build(0, 4, 0, 0, 0, 0, [1, 1, 1, 1], [(0, [e(1, 1), e(1, 2, 0, 1), e(0, 3), e(0, 4)])],
                     [(1, 0), (2, 1), (1, 0)]))
    out.append(build(0, 4, 0, 0, 0, 0, [1, 1, 1, 1], [(0, [e(1, 1), e(1, 2, 0, 2), e(0, 3, 1, 2), e(0, 4)])],
                     [(1, 0), (2, 1), (1, 0), (4, 0), (1, 0), (2, 1), (1, 0), (1, 0), (4, 0), (1, 0), (3, 0), (1, 0)]))
    # initial tokens above max: a deposit lowers the balance to max
    out.append(build(0, 3, 0, 1, 1, 3, [0, 0, 0], [(0, [e(1, 1), e(0, 2), e(0, 3)])], [(1, 0)]))
    return out


def rand_entries(rng, i, L, p_ok, p_gated, p_rdy):
    ent = []
    for k in range(L):
        x = rng.random()
        kind = 0 if x < p_ok else (1 if x < p_ok + (1 - p_ok) * 0.75 else 2)
        y = rng.random()
        ready = 0 if y > p_rdy else rng.choice([1, 2, 2])
        ent.append((kind, 100 * i + 10 * k + rng.randrange(10), 1 if rng.random() < p_gated else 0, ready))
    return ent


def random_header(rng, small=False):
    n = rng.choice([1, 1, 2, 2, 3])
    L = rng.randint(1, 6)
    ma_mode = rng.choice([0, 1])
    ma_fixed = rng.choice([0, 1, 2, 3, 3, 4, 5, 7])
    pred = rng.choice([0, 0, 0, 1, 1, 1, 2, 3])
    bkind = rng.choice([0, 1, 1])
    bmax = rng.choice([0, 1, 2, 3, 5])
    binit = rng.choice([0, 1, 2, 3, 3, 6])
    backoffs = [rng.choice([0, 0, 1, 2, 3, 5, 10, 20]) for _ in range(L)]
    if rng.random() < 0.15:
        backoffs = [0] * L
    p_ok = rng.choice([0.05, 0.15, 0.4])
    p_gated = rng.choice([0.0, 0.5, 1.0])
    p_rdy = rng.choice([0.0, 0.0, 0.15, 0.3])
    reqs = [(rng.choice([0, 1, 2, 3, 4, 5, 6, 6]), rand_entries(rng, i, L, p_ok, p_gated, p_rdy)) for i in range(n)]
    return ma_mode, ma_fixed, pred, bkind, bmax, binit, backoffs, reqs


def structured(rng):
    """rounds of complete / poll / advance-by-a-backoff / poll / make-ready / poll on a random request"""
    h = random_header(rng)
    backoffs, reqs = h[6], h[7]
    n = len(reqs)
    evs = []
    i = rng.randrange(n)
    sticky = rng.choice([0.0, 0.5, 0.8])
    keep = rng.choice([0.85, 0.97])
    for _ in range(rng.randint(2, 18)):
        if rng.random() >= sticky:
            i = rng.randrange(n)
        rnd = [(3, i), (1, i), (2, rng.choice(backoffs + [1])), (1, i), (4, i), (1, i)]
        for e in rnd:
            if rng.random() < keep:
                evs.append(e)
            if rng.random() < 0.1:
                evs.append((1, rng.randrange(n)))
            if rng.random() < 0.05:
                evs.append((2, rng.choice([1, 1, 2, 19])))
    return build(*h[:6], backoffs, reqs, evs)


def unstructured(rng, maxlen=40):
    h = random_header(rng)
    n = len(h[7])
    evs = []
    for _ in range(rng.randint(1, maxlen)):
        x = rng.random()
        if x < 0.45:
            evs.append((1, rng.randrange(n)))
        elif x < 0.68:
            evs.append((2, rng.choice([0, 1, 1, 2, 3, 4, 5, 9, 10, 20])))
        elif x < 0.92:
            evs.append((3, rng.randrange(n)))
        else:
            evs.append((4, rng.randrange(n)))
    return build(*h[:6], h[6], h[7], evs)


def exhaustive(maxlen, maxes, budgets, preds=(0, 1), backoff=2):
    """every outcome stream up to maxlen over {ok, retryable, refused}: one request, prompt polling"""
    for L in range(1, maxlen + 1):
        for kinds in itertools.product((0, 1, 2), repeat=L):
            for mx in maxes:
                for pr in preds:
                    for bi in budgets:
                        ent = [(k, 10 * j + 1 + k, 0, 0) for j, k in enumerate(kinds)]
                        evs = [(1, 0)]
                        for _ in range(L):
                            evs += [(2, backoff), (1, 0)]
                        yield build(0, mx, pr, 0 if bi is None else 1, 3, bi or 0, [backoff] * L, [(0, ent)], evs)


def generate(rng, tier):
    out = []
    if tier == "quick":
        out += [structured(rng) for _ in range(1400)]
        out += [unstructured(rng) for _ in range(500)]
        out += list(exhaustive(3, (0, 1, 2, 3), (None, 0, 1)))
    else:
        out += [structured(rng) for _ in range(30000)]
        out += [unstructured(rng, 80) for _ in range(10000)]
        out += list(exhaustive(5, (0, 1, 2, 3, 4, 5), (None, 0, 1, 2, 3)))
        out += list(exhaustive(4, (0, 1, 2, 3, 4), (None, 1), preds=(2, 3), backoff=0))
    return out


def nontrivial(s, t):
    d = decode(s, t)
    if not d:
        return True
    p, evt, calls, _ = d
    return any(len(c) >= 2 for c in calls) or any(o[6] for o in evt) or any(o[0] == 2 and o[1] >= 100000 for o in evt)


def classify(s, t):
    d = decode(s, t)
    p = parse(s)
    out = ["nreq%d" % p["n"], "budget_%s" % ("none" if not p["bkind"] else "tb%d" % min(p["binit"], 3)),
           "pred%d" % p["pred"], "max_%s" % ("per_request" if p["ma_mode"] else "fixed")]
    for (mx, _) in p["reqs"]:
        if mx == 0:
            out.append("has_max0")
        if mx == 1:
            out.append("has_max1")
    if d:
        _, evt, calls, _ = d
        m = max([len(c) for c in calls] + [0])
        out.append("most_calls_%d" % min(m, 5))
        if any(o[6] for o in evt):
            out.append("saw_denial")
        if any(o[4] for o in evt):
            out.append("saw_deposit")
        if any(o[0] == 1 for o in evt):
            out.append("saw_ok")
        if any(o[0] == 2 and o[1] >= 100000 for o in evt):
            out.append("saw_readiness_error")
        elif any(o[0] == 2 for o in evt):
            out.append("saw_err")
        if sum(1 for c in calls if len(c) >= 2) >= 2:
            out.append("two_requests_retried")
        if any(o[5] >= 2 for o in evt):
            out.append("several_attempts_in_one_poll")
    return sorted(set(out))


def shrink(s):
    p = parse(s)
    L, n = p["L"], p["n"]
    head_len = 8 + L + n * (1 + 4 * L)
    head, body = list(s[:head_len]), list(s[head_len:])
    for i in range(len(body) // 2):
        yield head + body[:2 * i] + body[2 * i + 2:]
