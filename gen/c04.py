"""C04: circuit breaker trips and recovers exactly as its documented state machine."""
from fractions import Fraction
from circuit_common import *
from circuit_common import classify as circuit_common_classify
PROP = "C04"
RULE = ("sequential histories over {success, failure, slow success, slow failure, wait, force_open, force_closed, reset} with a custom classifier, "
        "both window types, window sizes 1..5, thresholds {0,1/10,1/3,1/2,2/3,1}, minimum below/equal/above the window, permitted 1..3, slow detection on/off; "
        "plus long histories without a transition (the window must slide), histories whose failure rate — and, separately, whose slow-call rate — EQUALS a threshold num/den for which binary64 arithmetic is fragile "
        "(with the companion history one short of the threshold), histories with minimum_number_of_calls left unset (default = window size), and microsecond and nanosecond histories (wait, window duration and slow threshold not whole ms / µs; waits and latencies 1 unit short of / at / 1 unit past them), Farey-neighbour histories (windows of den+1, 2*den+1, 97, 100 calls whose failure or slow-call rate is the smallest fraction reaching the threshold num/den, or the largest one below it), runs of 251..511 successes without a transition followed by a window of failures (so that exactly 256*m recorded calls fall on the trip) (the extracted model is cubic in the number of callers; 65 536 calls are out of reach), operator actions also through the service's own (fallback) handle; non-trivial = the breaker left Closed at least once")


def generate(rng, tier):
    k = 1 if tier == "quick" else 15
    md = 45 if tier == 'quick' else 100
    return ([random_seq_history(rng) for _ in range(1500 * k)] + [long_no_transition(rng) for _ in range(30 * k)] +
            rate_boundary_scripts(rng, md) + slow_rate_boundary_scripts(rng, md) +
            [unset_minimum_history(rng) for _ in range(150 * k)] + [random_seq_history(rng, us=True) for _ in range(300 * k)] +
            [random_seq_history(rng, us=2) for _ in range(200 * k)] + farey_neighbour_scripts(rng, 90 * k, 12 if tier == 'quick' else 40) +
            [long_run_then_failures(rng, 1 if tier == 'quick' else rng.choice([1, 1, 2])) for _ in range(1 if tier == 'quick' else 6)] +
            [slow_listener(rng) for _ in range(120 * k)])


def _walk(s, t):
    """The documented machine, restated independently, run along a sequential history.
    Returns (message or None, events looked at, events in the script). A script is sequential as long as one call
    is in progress at a time (first poll, optional advances = its latency, completion, second poll) and nothing is
    cancelled or panics; events on a caller that is already finished or was rejected (completing it, polling it
    again) are inert and are skipped, NOT a reason to stop looking. What is checked, after every event at which no
    call is in progress: state().await == the documented machine's state, the three views agree, and for every
    call whether the inner service was invoked. Nothing else (no counters of the snapshot: the text only says the
    snapshot agrees with the state; they are pinned by the model comparison and by C04_refines_spec's o_counts)."""
    d = decode(s, t)
    if d is None:
        return ("malformed or panicking run: %s" % t[:12], 0, 0)
    tb, wsize, wdur, minc, fnum, fden, slow_on, slow_thr, snum, sden, wait, perm, fb, n = s[:NCFG]
    tb = tb & 1             # bits 1, 2 of the first field are the script's time unit (µs, ns): the machine is unit-agnostic
    total = len(d)
    if perm < 1 or fden <= 0 or sden <= 0:
        return (None, 0, total)
    if minc < 0:
        minc = wsize        # minimum_number_of_calls not set: documented default = sliding_window_size
    fthr, sthr = Fraction(fnum, fden), Fraction(snum, sden)
    now = 0
    state, hist, since, succ = 'closed', [], None, 0
    cur = None      # call in progress: [caller, start instant, outcome or None]
    seen = set()    # callers whose call future exists
    code = {'closed': 0, 'open': 1, 'half': 2}
    looked = 0
    for (e, o) in d:
        op, a, b = e
        r, started, st, sync, mst = o[:5]
        if not (st == sync == mst):
            return ("views disagree after %s: state=%d state_sync/is_open=%d metrics.state=%d" % (e, st, sync, mst), looked, total)
        if op == 3:
            now += max(0, a)
        elif op in (5, 6, 7):
            if cur:
                return (None, looked, total)         # operator action during a call: not sequential
            if op == 5:
                if state != 'open':
                    state, since = 'open', now
            elif op == 6:
                if state != 'closed':
                    state, hist = 'closed', []
            else:
                state, hist = 'closed', []
        elif op in (2, 8):
            return (None, looked, total)             # cancellations / un-polled futures: not sequential histories
        elif op == 4:
            if cur is not None and cur[0] == a:
                if b in (4, 5) or cur[2] is not None:
                    return (None, looked, total)     # panics are not in the history alphabet
                cur[2] = b
            elif a in seen:
                pass                                 # completion for a finished / rejected caller: inert
            else:
                return (None, looked, total)         # result available before the call starts: not sequential
        elif op == 1:
            if a not in seen:
                if cur is not None:
                    return (None, looked, total)     # a second caller while one is in progress
                seen.add(a)
                # admission decision of the documented machine
                if state == 'open' and now - since >= wait:
                    state, succ = 'half', 0
                admit = state != 'open'
                if bool(started) != admit:
                    return ("at t=%d in state %s the call was %s, the documented machine %s it" % (
                        now, state, "admitted" if started else "rejected", "admits" if admit else "rejects"), looked, total)
                if admit:
                    if r != 0:
                        return (None, looked, total)
                    cur = [a, now, None]
            elif cur is not None and cur[0] == a:
                if cur[2] is None:
                    if r != 0:
                        return (None, looked, total)
                else:
                    outcome = cur[2]
                    fail = outcome in (1, 2)
                    dur = now - cur[1]
                    slow = bool(slow_on) and dur >= slow_thr
                    cur = None
                    if state == 'closed':
                        hist.append((now, fail, slow))
                        if tb:
                            w = [h for h in hist if now - h[0] <= wdur]
                            enough = len(w) >= minc
                        else:
                            w = hist[-max(wsize, 1):]
                            enough = len(hist) >= minc and len(hist) >= wsize
                        nf, ns = sum(1 for h in w if h[1]), sum(1 for h in w if h[2])
                        if enough and w and (Fraction(nf, len(w)) >= fthr or (slow_on and Fraction(ns, len(w)) >= sthr)):
                            state, since = 'open', now
                    elif state == 'half':
                        if fail:
                            state, since = 'open', now
                        else:
                            succ += 1
                            if succ >= perm:
                                state, hist = 'closed', []
            else:
                pass                                 # poll of a finished / rejected caller: inert
        looked += 1
        if cur is None and st != code[state]:
            return ("after %s at t=%d the breaker is in state %d, the documented machine in %s" % (e, now, st, state), looked, total)
    return (None, looked, total)


def monitor(s, t):
    return _walk(s, t)[0]


def classify(s, t):
    out = circuit_common_classify(s, t)
    _, looked, total = _walk(s, t)
    out.append("monitored_to_the_end" if looked == total else "monitor_stopped_early")
    return out
