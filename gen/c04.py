"""C04: circuit breaker trips and recovers exactly as its documented state machine."""
from fractions import Fraction
from circuit_common import *
PROP = "C04"
RULE = ("sequential histories over {success, failure, slow success, slow failure, wait, force_open, force_closed, reset} with a custom classifier, "
        "both window types, window sizes 1..5, thresholds {0,1/10,1/3,1/2,2/3,1}, minimum below/equal/above the window, permitted 1..3, slow detection on/off; "
        "plus long histories without a transition (the window must slide) and histories whose failure rate EQUALS a threshold num/den for which binary64 arithmetic is fragile; non-trivial = the breaker left Closed at least once")


def generate(rng, tier):
    k = 1 if tier == "quick" else 15
    return ([random_seq_history(rng) for _ in range(1500 * k)] + [long_no_transition(rng) for _ in range(30 * k)] +
            rate_boundary_scripts(rng, 45 if tier == 'quick' else 100))


def monitor(s, t):
    """the documented machine, restated independently, over a sequential history"""
    d = decode(s, t)
    if d is None:
        return "malformed or panicking run: %s" % t[:12]
    tb, wsize, wdur, minc, fnum, fden, slow_on, slow_thr, snum, sden, wait, perm, fb, n = s[:NCFG]
    if perm < 1:
        return None
    fthr, sthr = Fraction(fnum, fden), Fraction(snum, sden)
    now = 0
    state, hist, since, succ = 'closed', [], None, 0
    cur = None      # call in progress: (caller, start instant, admitted?)
    seen = set()
    code = {'closed': 0, 'open': 1, 'half': 2}
    for (e, o) in d:
        op, a, b = e
        r, started, st, sync, mst, tot, fl, su, sl = o[:9]
        if not (st == sync == mst):
            return "views disagree after %s: state=%d state_sync/is_open=%d metrics.state=%d" % (e, st, sync, mst)
        if op == 3:
            now += max(0, a)
        elif op == 5:
            if cur: return None
            if state != 'open':
                state, since = 'open', now
        elif op == 6:
            if cur: return None
            if state != 'closed':
                state, hist = 'closed', []
        elif op == 7:
            if cur: return None
            state, hist = 'closed', []
        elif op == 2:
            return None      # cancellations are not part of sequential histories
        elif op == 4:
            if cur is None or cur[0] != a or b == 4:
                return None  # not a sequential history
            cur = (cur[0], cur[1], b)
        elif op == 1:
            if a not in seen:
                if cur is not None:
                    return None
                seen.add(a)
                # admission decision of the documented machine
                if state == 'open' and now - since >= wait:
                    state, succ = 'half', 0
                admit = state != 'open'
                if bool(started) != admit:
                    return "at t=%d in state %s the call was %s, the documented machine %s it" % (
                        now, state, "admitted" if started else "rejected", "admits" if admit else "rejects")
                if admit:
                    cur = (a, now, None)
                    if r != 0:
                        return None   # completed in its first poll: gate was pre-filled, not sequential
                continue_check = not admit
            else:
                if cur is None or cur[0] != a or cur[2] is None:
                    if cur is not None and cur[0] == a and r == 0:
                        continue      # spurious poll of the running call
                    return None
                outcome = cur[2]
                fail = outcome in (1, 2)
                dur = now - cur[1]
                slow = bool(slow_on) and dur >= slow_thr
                cur = None
                if state == 'closed':
                    hist.append((now, fail, slow))
                    if tb:
                        w = [h for h in hist if now - h[0] <= wdur]
                        enough = len(w) >= minc
                    else:
                        w = hist[-max(wsize, 1):]
                        enough = len(hist) >= minc and len(hist) >= wsize
                    nf, ns = sum(1 for h in w if h[1]), sum(1 for h in w if h[2])
                    if enough and w and (Fraction(nf, len(w)) >= fthr or (slow_on and Fraction(ns, len(w)) >= sthr)):
                        state, since = 'open', now
                elif state == 'half':
                    if fail:
                        state, since = 'open', now
                    else:
                        succ += 1
                        if succ >= perm:
                            state, hist = 'closed', []
        if cur is None:
            if st != code[state]:
                return "after %s at t=%d the breaker is in state %d, the documented machine in %s" % (e, now, st, state)
            if state == 'closed' and not tb:
                w = hist[-max(wsize, 1):]
                exp = (len(w), sum(1 for h in w if h[1]), sum(1 for h in w if h[2]))
                if (tot, fl, sl) != exp:
                    return "metrics snapshot (total, failures, slow)=%s but the last %d recorded calls give %s" % ((tot, fl, sl), max(wsize, 1), exp)
    return None
