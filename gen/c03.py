"""C03: open circuit breaker shields the inner service."""
from circuit_common import *
PROP = "C03"
RULE = ("concurrent scripts (callers on clones, polls in any order, cancellations, gated inner outcomes incl. panics, advances hitting the wait boundary, "
        "force_open/force_closed/reset) + half-open bursts + sequential histories; non-trivial = the breaker left Closed at least once")


def generate(rng, tier):
    k = 1 if tier == "quick" else 12
    return ([random_concurrent(rng) for _ in range(900 * k)] + [half_open_burst(rng) for _ in range(400 * k)] +
            [random_seq_history(rng) for _ in range(400 * k)] + [multi_phase_burst(rng) for _ in range(200 * k)])


def monitor(s, t):
    d = decode(s, t)
    if d is None:
        return "malformed or panicking run: %s" % t[:12]
    wait, fb = s[10], s[12]
    now, prev_state, seen = 0, 0, set()
    shield_from = None       # instant at which the breaker was observed to open; cleared only by an operator
    prev_inflight = 0
    for (e, o) in d:
        op, a, b = e
        r, started, st, sync, mst, tot, fl, su, sl, infl, mask = o
        if not (st == sync == mst):
            return "views disagree after %s: state=%d state_sync/is_open=%d metrics.state=%d" % (e, st, sync, mst)
        shielded = shield_from is not None and now - shield_from < wait
        if shielded:
            if started:
                return "inner call started at t=%d although the breaker was observed open at %d (wait %d) and no operator closed it" % (now, shield_from, wait)
            if op == 1 and a not in seen and r != (4 if fb else 3):
                return "new call at t=%d, breaker observed open at %d (wait %d): got r=%d instead of %s" % (now, shield_from, wait, r, "fallback" if fb else "OpenCircuit")
            if infl > prev_inflight:
                return "in-flight count grew while open"
        if op in (1, 2, 8):
            seen.add(a)
        if op == 3:
            now += max(0, a)
        if op in (6, 7):
            shield_from = None                  # force_closed / reset: the operator lifted the shield
        if st == 1 and prev_state != 1:
            shield_from = now                   # observed to open (by rate, slow rate, failed trial or force_open)
        if st != 1 and shield_from is not None and now - shield_from >= wait:
            shield_from = None                  # wait elapsed: the breaker may go half-open / closed again
        prev_state, prev_inflight = st, infl
    return None
