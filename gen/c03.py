"""C03: open circuit breaker shields the inner service."""
from circuit_common import *
PROP = "C03"
RULE = ("concurrent scripts (callers on clones, polls in any order, cancellations, gated inner outcomes incl. panics, advances hitting the wait boundary, "
        "force_open/force_closed/reset, classifier panics, calls created before and polled after the breaker opened) + half-open bursts (incl. wait 0, slow trials, "
        "calls admitted while closed completing during the phase) + sequential histories + classifier-panic trials; operator actions through a clone taken before with_fallback; operator actions also through the service's own (fallback) handle (ops 15-17); microsecond and nanosecond scripts with waits that are not whole ms / µs and callers 1 unit before / at / 1 unit after the wait and on the coarser-unit boundaries below it; non-trivial = the breaker left Closed at least once")


def generate(rng, tier):
    k = 1 if tier == "quick" else 12
    return ([random_concurrent(rng) for _ in range(900 * k)] + [half_open_burst(rng) for _ in range(400 * k)] +
            [random_seq_history(rng) for _ in range(400 * k)] + [multi_phase_burst(rng) for _ in range(200 * k)] +
            [classifier_panic_trials(rng) for _ in range(60 * k)] + [us_wait_boundary(rng) for _ in range(150 * k)] +
            [random_seq_history(rng, us=True) for _ in range(80 * k)] + [half_open_burst(rng, us=True) for _ in range(80 * k)] +
            [us_wait_boundary(rng, ns=True) for _ in range(120 * k)] + [random_seq_history(rng, us=2) for _ in range(60 * k)] +
            [half_open_burst(rng, us=2) for _ in range(60 * k)] +
            [slow_listener(rng) for _ in range(250 * k)])


def monitor(s, t):
    """The property over the implementation's trace, nothing more:
    from the event after which the breaker is observed open (through ANY of the views: state().await,
    state_sync(), is_open(), metrics().state) until wait_duration_in_open has elapsed since then — unless an
    operator closes or resets it —
      (a) no inner call is started, except possibly by the poll of a call that was MADE (its future created,
          op 8 or an earlier poll) before the breaker was observed open ("admitted before it opened": the text
          leaves open whether a call arrives at call() or at its first poll, both are accepted);
      (b) a call made after that instant is answered in its first poll with OpenCircuit (r=3), or with the
          fallback's response (r=4) when a fallback is configured.
      (c) a call that was admitted (its inner call started) is never answered with OpenCircuit / the fallback
          afterwards ("calls admitted before it opened may still complete").
    A breaker found open again after a poll that started an inner call outside a shield has re-opened in that
    very event (a trial failed at once): the wait restarts there."""
    d = decode(s, t)
    if d is None:
        return "malformed or panicking run: %s" % t[:12]
    wait, fb = s[10], s[12]
    now = 0
    made = {}                # caller -> index of the event at which its call future was created
    polled = set()
    running = set()          # callers whose inner call has started and whose future is still pending
    shield_from, shield_idx = None, None
    prev_open = False
    for idx, (e, o) in enumerate(d):
        op, a, b = e
        r, started, st, sync, mst = o[:5]
        lockfree, flags, other = sync % 10, (sync // 10) % 10, sync // 100
        is_open = (lockfree == 1) != bool(flags & 1)
        # flags & 2: the service handle's own lock-free view differs from the plain clone's; `other` is its value
        open_now = st == 1 or mst == 1 or lockfree == 1 or is_open or (bool(flags & 2) and other == 1)
        shielded = shield_from is not None and now - shield_from < wait
        first_poll = op == 1 and a not in polled
        if op in (1, 2, 8) and a not in made:
            made[a] = idx
        if op in (1, 2):
            polled.add(a)                       # (a dropped future is never polled again: r=9)
        old_call = op == 1 and made[a] <= shield_idx if shielded else False
        if shielded:
            if started and not old_call:
                return "inner call started at t=%d by %s although the breaker was observed open at t=%d (wait %d) and no operator closed it" % (now, e, shield_from, wait)
            if first_poll and not old_call and r != (4 if fb else 3):
                return "new call at t=%d, breaker observed open at t=%d (wait %d): got r=%d instead of %s" % (now, shield_from, wait, r, "the fallback's response" if fb else "OpenCircuit")
        # "calls admitted before it opened may still complete": a call whose inner call is running is never answered
        # with the open-circuit error / the fallback, whatever the breaker's state is by then
        if op == 1 and a in running and r in (3, 4):
            return "call %d was admitted (its inner call started) and is answered with %s at t=%d" % (a, "the fallback" if r == 4 else "OpenCircuit", now)
        if op == 1 and started and r == 0:
            running.add(a)
        if op == 2 or (op == 1 and r != 0):
            running.discard(a)
        if op == 3:
            now += max(0, a)
        if op in (6, 7):
            shield_from = None                  # force_closed / reset: the operator lifted the shield
        if open_now and (not prev_open or (started and not shielded)):
            shield_from, shield_idx = now, idx  # observed to open (by rate, slow rate, failed trial or force_open)
        prev_open = open_now
    return None
