"""C03: open circuit breaker shields the inner service."""
from circuit_common import *
PROP = "C03"
RULE = ("concurrent scripts (callers on clones, polls in any order, cancellations, gated inner outcomes incl. panics, advances hitting the wait boundary, "
        "force_open/force_closed/reset) + half-open bursts + sequential histories; non-trivial = the breaker left Closed at least once")


def generate(rng, tier):
    k = 1 if tier == "quick" else 12
    return ([random_concurrent(rng) for _ in range(900 * k)] + [half_open_burst(rng) for _ in range(400 * k)] +
            [random_seq_history(rng) for _ in range(400 * k)])


def monitor(s, t):
    d = decode(s, t)
    if d is None:
        return "malformed or panicking run: %s" % t[:12]
    wait, fb = s[10], s[12]
    now, prev_state, opened_at, seen = 0, 0, None, set()
    prev_inflight = 0
    for (e, o) in d:
        op, a, b = e
        r, started, st, sync, mst, tot, fl, su, sl, infl, mask = o
        if not (st == sync == mst):
            return "views disagree after %s: state=%d state_sync/is_open=%d metrics.state=%d" % (e, st, sync, mst)
        shielded = prev_state == 1 and opened_at is not None and now - opened_at < wait
        if shielded:
            if started:
                return "inner call started at t=%d while open since %d (wait %d)" % (now, opened_at, wait)
            if op == 1 and a not in seen and r != (4 if fb else 3):
                return "new call at t=%d while open since %d got r=%d instead of %s" % (now, opened_at, r, "fallback" if fb else "OpenCircuit")
            if infl > prev_inflight:
                return "in-flight count grew while open"
        if op in (1, 2):
            seen.add(a)
        if op == 3:
            now += max(0, a)
        if st == 1 and prev_state != 1:
            opened_at = now
        prev_state, prev_inflight = st, infl
    return None
