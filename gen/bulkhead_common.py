"""Shared by C01 and C07: bulkhead scripts, trace decoding, generators."""
import itertools

DRIVER = "c01"
MODEL = "C01"
MODEL_QUALID = "Model.Bulkhead.run_script"
FORMAT = ("script [cap (>= 10^15: sentinel for usize::MAX / MAX_PERMITS+1 / MAX_PERMITS, probe of 8 callers); max_wait (-1 none, >= 10^15 = Duration::MAX); n + 1000*flags; (op a b)*] op 1=Poll a 2=Drop a 3=Advance a "
          "(durations: a value below 2^40 is in ms, 2^40 + k is k ns) "
          "4=Complete a b(0 ok,1 err,2 panic in the response future,3 synchronous panic inside the inner service's call()) "
          "5=Call a (create the call future without polling it) 6=call() for every caller still without a future, then drop every service handle; events on caller ids outside 0..n-1 are ignored; "
          "flags: %8 builder route (0 max_concurrent_calls+max_wait_duration, 1 reject_when_full, 2 small, 3 medium, 4 large, 5 default cap, 6 small+max_wait_duration), "
          "/8%4 handle (0 fresh clone per caller, 1 one shared handle, 2 the layer()'d service itself, 3 chain of clones), /32%2 panicking listeners, /64%2 completed call futures are kept alive until dropped; "
          "then every caller is dropped and cap+1 fresh callers are polled once (capacity probe). "
          "trace: per event [r; inner calls started inside this poll; max in-flight seen by an inner call started during the event; wake mask (first 120 callers); in-flight; "
          "ids(+1, base 1024) of all requests whose inner call started during the event] with r: -1 no poll, 0 pending, 1 Ok, 2 Err(Inner), 3 Timeout, 4 BulkheadFull, 5 panicked, 9 nothing to poll")
TRUSTED = ["tokio Semaphore (FIFO hand-over on release), time::timeout (inner future polled before the timer) and oneshot are modelled, tied to the libraries only by this correspondence run",
           "poll atomicity: shared state is touched only inside one poll",
           "all clones / handles of one Bulkhead share one semaphore and every builder route yields (max_concurrent_calls, max_wait_duration): not in the model, exercised by the handle / route flags of the scripts"]
ASSUMPTIONS = ["tokio's timer wheel has millisecond resolution: a wait deadline that is not a whole millisecond (counted from the start of the runtime) takes effect at the next millisecond tick -- 'exactly max_wait_duration' holds up to that tick (never early, less than 1 ms late)",
               "single-threaded deterministic executor: one poll at a time"]
# scripts on which the REAL code violates the property (none known)
KNOWN_DEFECT = []
DMAX = 10 ** 18
CAP_SENTINEL = 10 ** 15       # script capacity >= this: max_concurrent_calls at/above tokio's Semaphore::MAX_PERMITS
PROBE_BIG = 8
MAX_PERMITS = (2 ** 64 - 1) >> 3
DUR_FLAG = 1 << 40
MS = 10 ** 6


def ns_of(e):
    """Lib/TokioTime.ns_of: script duration -> nanoseconds"""
    return max(0, e) * MS if e < DUR_FLAG else e - DUR_FLAG


def us(k):
    """script encoding of k microseconds"""
    return DUR_FLAG + 1000 * k


def ceil_ms(t):
    return -((-t) // MS) * MS
ROWLEN = 6
MASKW = 120


def header(s):
    nf = s[2]
    return s[0], s[1], nf % 1000, nf // 1000


def probe_len(cap):
    return PROBE_BIG if cap >= CAP_SENTINEL else cap + 1


def real_cap(cap):
    """the capacity the bulkhead must have: the configured one, at most what tokio's semaphore can hold"""
    return MAX_PERMITS if cap >= CAP_SENTINEL else cap


def events(s):
    cap, mw, n, flags = header(s)
    evs = [tuple(s[i:i + 3]) for i in range(3, len(s) - (len(s) - 3) % 3, 3)]
    evs = [e for e in evs if e[0] in (3, 6) or (e[0] in (1, 2, 4, 5) and 0 <= e[1] < n)]
    evs += [(2, i, 0) for i in range(n)] + [(1, i, 0) for i in range(n, n + probe_len(cap))]
    return cap, mw, n, evs


def decode(s, t):
    cap, mw, n, evs = events(s)
    if len(t) != ROWLEN * len(evs):
        return None
    return real_cap(cap), mw, n, [(e, t[ROWLEN * k:ROWLEN * k + ROWLEN]) for k, e in enumerate(evs)]


def panicked(s, t):
    """the driver's whole run panicked (trace -999): building the layer, call(), or anything outside a caught poll"""
    if t == [-999]:
        return ("the layer panicked: building / calling the bulkhead with max_concurrent_calls = %s, max_wait %s panicked outside any poll"
                % ("usize::MAX" if s[0] == CAP_SENTINEL else ("MAX_PERMITS+%d" % (2 - (s[0] - CAP_SENTINEL))) if s[0] > CAP_SENTINEL else s[0], s[1]))
    return None



def started_ids(ids):
    """request ids whose inner call started during the event (column 5)"""
    out = []
    while ids > 0:
        out.append(ids % 1024 - 1)
        ids //= 1024
    return out


def nf(n, route=0, handle=0, listen=0, keep=0):
    return n + 1000 * (route + 8 * handle + 32 * listen + 64 * keep)


def corpus():
    return [
        [1, -1, 2, 1, 0, 0, 1, 1, 0, 4, 0, 0, 1, 0, 0, 1, 1, 0],
        [2, 50, 3, 1, 0, 0, 1, 1, 0, 1, 2, 0, 3, 49, 0, 1, 2, 0, 3, 1, 0, 1, 2, 0, 4, 0, 2, 1, 0, 0],
        [1, 0, 2, 1, 0, 0, 1, 1, 0],
        [1, 30, 3, 1, 0, 0, 1, 1, 0, 1, 2, 0, 2, 0, 0, 1, 1, 0, 3, 30, 0, 1, 2, 0],
        # permit released at the very instant of the waiter's deadline
        [1, 10, 2, 1, 0, 0, 1, 1, 0, 3, 10, 0, 4, 0, 0, 1, 0, 0, 1, 1, 0],
        # futures created (call()) while a slot is free, polled only after it was taken: must still time out
        [1, 20, 3, 5, 0, 0, 5, 1, 0, 5, 2, 0, 1, 0, 0, 1, 1, 0, 1, 2, 0, 3, 20, 0, 1, 1, 0, 1, 2, 0],
        [1, 0, 2, 5, 0, 0, 5, 1, 0, 1, 0, 0, 1, 1, 0],
        # cancellation of a granted-but-not-yet-polled waiter hands the permit on
        [1, -1, 3, 1, 0, 0, 1, 1, 0, 1, 2, 0, 4, 0, 1, 1, 0, 0, 2, 1, 0, 1, 2, 0],
        # call() long before the first poll: the wait is counted from the first poll (as built); either reading passes the monitor
        [1, 5, 3, 5, 2, 0, 1, 0, 0, 3, 19, 0, 1, 2, 0, 3, 4, 0, 1, 2, 0, 3, 1, 0, 1, 2, 0],
        # max_wait_duration(Duration::MAX): the waiter simply waits; a release admits it
        [1, DMAX, 2, 1, 0, 0, 1, 1, 0, 3, 50, 0, 1, 1, 0, 4, 0, 0, 1, 0, 0, 1, 1, 0],
        [2, DMAX, 3, 1, 0, 0, 1, 1, 0, 1, 2, 0, 2, 2, 0, 3, 30, 0],
        # the inner service panics synchronously inside call(): the slot must come back (cap such calls, then the probe)
        [1, -1, 2, 4, 0, 3, 1, 0, 0, 4, 1, 3, 1, 1, 0],
        [2, 0, 3, 4, 0, 3, 4, 1, 3, 1, 0, 0, 1, 1, 0, 1, 2, 0],
        [1, 10, 3, 1, 0, 0, 4, 1, 3, 1, 1, 0, 4, 0, 0, 1, 0, 0, 1, 1, 0, 1, 2, 0],
        # Complete .. 3 after the inner call has started = ordinary panic of the response future
        [1, -1, 1, 1, 0, 0, 4, 0, 3, 1, 0, 0],
        # reject_when_full() and the presets; default capacity; panicking listeners; every kind of handle
        [1, 0, nf(2, route=1), 1, 0, 0, 1, 1, 0, 4, 0, 1, 1, 0, 0],
        fill(10, 0, 12, route=2), fill(50, 0, 52, route=3, handle=1), fill(200, 0, 202, route=4, handle=3),
        fill(25, -1, 27, route=5, handle=2), fill(25, 7, 27, route=5, listen=1), fill(10, 5, 12, route=6, listen=1, handle=1),
        [2, 5, nf(4, listen=1), 1, 0, 0, 1, 1, 0, 1, 2, 0, 1, 3, 0, 4, 0, 0, 4, 1, 1, 1, 0, 0, 1, 1, 0, 3, 5, 0, 1, 2, 0, 1, 3, 0],
        [2, 5, nf(4, handle=1), 1, 0, 0, 1, 1, 0, 1, 2, 0, 4, 0, 2, 1, 0, 0, 1, 2, 0, 3, 5, 0, 1, 3, 0],
        [2, -1, nf(4, handle=2), 1, 0, 0, 1, 1, 0, 1, 2, 0, 2, 1, 0, 1, 2, 0, 1, 3, 0],
        [2, 20, nf(5, handle=3), 1, 0, 0, 1, 1, 0, 1, 2, 0, 1, 3, 0, 2, 2, 0, 4, 1, 0, 1, 1, 0, 1, 3, 0, 1, 4, 0],
        # events on ids outside 0..n-1 are ignored by model, driver and decoder alike
        [1, -1, 1, 1, 7, 0, 4, -1, 0, 2, 1, 0, 5, 3, 0, 1, 0, 0, 9, 0, 0],
        sequential(None, 1, -1, 60, handle=1), sequential(None, 2, 5, 55, handle=2),
        # max_concurrent_calls at / above tokio's Semaphore::MAX_PERMITS ("no limit"): clamped, nobody is ever refused (fix 40a6972)
        [CAP_SENTINEL, -1, 3, 1, 0, 0, 1, 1, 0, 1, 2, 0, 4, 1, 0, 1, 1, 0],
        [CAP_SENTINEL + 1, 0, nf(4, handle=1), 1, 0, 0, 1, 1, 0, 1, 2, 0, 1, 3, 0, 2, 2, 0, 4, 0, 3],
        [CAP_SENTINEL + 2, 5, nf(2, listen=1, keep=1), 1, 0, 0, 3, 5, 0, 1, 1, 0, 4, 0, 2, 1, 0, 0],
        # a waiter that cannot get a slot ends with the TIMEOUT error (and nothing else), zero wait and after a real wait
        [1, 0, 2, 1, 0, 0, 1, 1, 0],
        [1, 7, 3, 1, 0, 0, 1, 1, 0, 5, 2, 0, 3, 3, 0, 1, 2, 0, 3, 4, 0, 1, 1, 0, 1, 2, 0, 3, 3, 0, 1, 2, 0],
        # sub-millisecond max_wait (300 us): not a zero wait -- pending at 200 us .. 900 us, Timeout at the 1 ms tick
        [1, us(300), 2, 1, 0, 0, 1, 1, 0, 3, us(200), 0, 1, 1, 0, 3, us(100), 0, 1, 1, 0, 3, us(600), 0, 1, 1, 0, 3, us(100), 0, 1, 1, 0],
        [1, us(1500), 3, 1, 0, 0, 3, us(700), 0, 1, 1, 0, 3, 1, 0, 1, 1, 0, 3, us(300), 0, 1, 2, 0, 3, 1, 0, 1, 1, 0, 3, 1, 0, 1, 2, 0, 3, 1, 0, 1, 2, 0],
        # zero wait off the millisecond tick: queued until the next tick
        [1, 0, 3, 1, 0, 0, 3, us(300), 0, 1, 1, 0, 3, us(600), 0, 1, 1, 0, 3, us(100), 0, 1, 1, 0, 1, 2, 0],
        # finished call futures kept alive by their callers: the slot is back at completion, not at drop
        [1, -1, nf(3, keep=1), 1, 0, 0, 4, 0, 0, 1, 0, 0, 1, 1, 0, 4, 1, 1, 1, 1, 0, 1, 2, 0],
        [2, 5, nf(4, keep=1, handle=1), 1, 0, 0, 1, 1, 0, 1, 2, 0, 4, 0, 2, 1, 0, 0, 1, 2, 0, 4, 1, 0, 1, 1, 0, 1, 3, 0],
        # every service handle dropped while calls are running, queued and not yet polled: they go on as before
        [1, 50, 3, 1, 0, 0, 1, 1, 0, 6, 0, 0, 3, 10, 0, 1, 1, 0, 4, 0, 0, 1, 0, 0, 1, 1, 0, 1, 2, 0],
        [1, -1, nf(3, handle=1), 1, 0, 0, 1, 1, 0, 5, 2, 0, 6, 0, 0, 1, 2, 0, 2, 0, 0, 1, 1, 0],
        [2, 20, nf(4, handle=3), 6, 0, 0, 1, 0, 0, 1, 1, 0, 1, 2, 0, 3, 20, 0, 1, 2, 0, 1, 3, 0],
    ]


def fill(cap, mw, n, route=0, handle=0, listen=0, rng=None):
    """more callers than slots: all polled, some ended in every way, the freed slots re-used"""
    s = [cap, mw, nf(n, route, handle, listen)]
    order = list(range(n))
    if rng:
        rng.shuffle(order)
    for i in order:
        s += [1, i, 0]
    done = order[:3] if not rng else rng.sample(order, min(n, rng.randint(1, 6)))
    for k, i in enumerate(done):
        s += [4, i, k % 4 if not rng else rng.choice([0, 0, 1, 2, 3])]
        s += [1, i, 0]
    s += [2, order[-4 % n], 0]
    for i in order[-3:]:
        s += [1, i, 0]
    s += [3, mw if 0 < mw <= 50 else 1, 0]
    for i in order[-3:]:
        s += [1, i, 0]
    return s


def sequential(rng, cap, mw, n, handle=1, listen=0):
    """a long history of calls one after the other (through one handle by default): each is admitted, ends, next"""
    s = [cap, mw, nf(n, 0, handle, listen)]
    for i in range(n):
        o = (i % 5) % 4 if rng is None else rng.choice([0, 0, 0, 1, 2, 3])
        if o == 3:
            s += [4, i, 3, 1, i, 0]
        else:
            s += [1, i, 0, 4, i, o, 1, i, 0]
        if rng is not None and rng.random() < 0.1:
            s += [3, rng.choice([1, 5]), 0]
    return s


def random_config(rng, maxn):
    x = rng.random()
    cap = rng.choice([1, 1, 2, 2, 3]) if x < 0.8 else rng.choice([4, 5, 8])
    mw = rng.choice([-1, -1, 0, 5, 20, 20, 50, 50, DMAX, 86400000])
    n = rng.randint(1, maxn if cap <= 3 else maxn + 4)
    route, handle, listen = 0, 0, 0
    y = rng.random()
    if y < 0.06:
        route, mw = 1, 0
    elif y < 0.10:
        route, cap, mw = 2, 10, 0
    elif y < 0.12:
        route, cap = 5, 25
    elif y < 0.14:
        route, cap, mw = 6, 10, (mw if mw >= 0 else 5)   # small() left alone is reject_when_full: route 6 always sets a wait
    if rng.random() < 0.35:
        handle = rng.choice([1, 2, 3])
    if rng.random() < 0.15:
        listen = 1
    keep = 1 if rng.random() < 0.3 else 0
    if route == 0 and rng.random() < 0.03:
        cap = CAP_SENTINEL + rng.choice([0, 0, 1, 2])
    if route == 0 and rng.random() < 0.08:
        mw = rng.choice([us(1), us(300), us(999), us(1500), us(2300)])
    return cap, mw, n, nf(n, route, handle, listen, keep)


def random_event(rng, n, sub=False):
    x = rng.random()
    if x < 0.015:
        return [6, 0, 0]                      # every service handle goes away
    if sub and 0.62 <= x < 0.80:
        return [3, rng.choice([us(100), us(250), us(700), us(999), 1, 1, us(1300), 2]), 0]
    if x < 0.45:
        return [1, rng.randrange(n), 0]
    if x < 0.5:
        return [5, rng.randrange(n), 0]      # call() without a poll
    if x < 0.62:
        return [2, rng.randrange(n), 0]
    if x < 0.80:
        return [3, rng.choice([1, 4, 5, 15, 19, 20, 20, 30, 49, 50]), 0]
    return [4, rng.randrange(n), rng.choice([0, 0, 0, 1, 2, 3])]


def random_script(rng, maxn=6, maxlen=30):
    cap, mw, n, nflags = random_config(rng, maxn)
    s = [cap, mw, nflags]
    L = rng.randint(3, maxlen)
    sub = mw >= DUR_FLAG and mw < 10 ** 15 or rng.random() < 0.03
    for _ in range(L):
        s += random_event(rng, n, sub)
    if rng.random() < 0.25:
        # spare capacity mid-history: the callers not used so far arrive one after the other while the others stay
        for i in range(n):
            if rng.random() < 0.6:
                s += [1, i, 0]
    return s


def deadline_script(rng):
    """waiters that really wait: call() before or at the first poll, first polls at different instants, then the clock
    is put exactly on (or one step before / after) call()+max_wait and first-poll+max_wait and the waiters are polled;
    a slot may be given back at that very instant, before or after the waiter's poll (tie)"""
    cap = rng.choice([1, 1, 2])
    sub = rng.random() < 0.25
    mwv = rng.choice([300, 1000, 1500, 2300]) if sub else rng.choice([2, 5, 5, 20])   # us / ms
    enc = (lambda k: us(k)) if sub else (lambda k: k)
    step = (lambda: rng.choice([100, 300, 700, 1000])) if sub else (lambda: rng.choice([1, 1, 2, 3]))
    k = rng.randint(1, 3)
    n = cap + k
    s = [cap, enc(mwv), nf(n, 0, rng.choice([0, 0, 1, 2, 3]), 0, rng.randrange(2))]
    for i in range(cap):
        s += [1, i, 0]
    t = 0
    info = []
    for w in range(cap, n):
        if rng.random() < 0.5:
            s += [5, w, 0]
            c0 = t
            d = step(); s += [3, enc(d), 0]; t += d
        else:
            c0 = None
        s += [1, w, 0]
        info.append((w, c0 if c0 is not None else t, t))
        if rng.random() < 0.5:
            d = step(); s += [3, enc(d), 0]; t += d
    # visit the interesting instants in order
    marks = sorted(set(x for (w, c0, f0) in info for x in (c0 + mwv, f0 + mwv)))
    for m in marks:
        for tgt in ([m - (100 if sub else 1), m] if rng.random() < 0.5 else [m]):
            if tgt > t:
                s += [3, enc(tgt - t), 0]; t = tgt
            order = [w for (w, _, _) in info]
            rng.shuffle(order)
            rel = rng.random() < 0.3
            if rel and rng.random() < 0.5:
                i = rng.randrange(cap); s += [4, i, rng.choice([0, 1, 2]), 1, i, 0]
            for w in order:
                if rng.random() < 0.8:
                    s += [1, w, 0]
            if rel:
                i = rng.randrange(cap); s += [4, i, 0, 1, i, 0]
    d = step(); s += [3, enc(d), 0]
    for (w, _, _) in info:
        s += [1, w, 0]
    return s


def handles_script(rng):
    """service handles have their own lifetime: calls running, queued, created-but-unpolled when the last one goes"""
    cap = rng.choice([1, 2])
    mw = rng.choice([-1, 0, 5, 20, 50])
    n = cap + rng.randint(1, 4)
    s = [cap, mw, nf(n, 0, rng.randrange(4), rng.randrange(2), rng.randrange(2))]
    pre = rng.randint(0, 8)
    for _ in range(pre):
        s += random_event(rng, n)
    s += [6, 0, 0]
    for _ in range(rng.randint(3, 14)):
        s += random_event(rng, n)
    return s


def exhaustive(depth, cap=1, mw=2, n=3):
    alpha = [(1, i, 0) for i in range(n)] + [(2, i, 0) for i in range(n)] + [(5, i, 0) for i in range(1, n)] + [(3, 1, 0), (3, 2, 0)] + \
            [(4, i, 0) for i in range(n)] + [(4, 0, 2), (4, 1, 1)]
    for L in range(1, depth + 1):
        for evs in itertools.product(alpha, repeat=L):
            s = [cap, mw, n]
            for e in evs:
                s += list(e)
            yield s


def exhaustive_timeout(depth, cap=1, mw=2, n=3):
    """all histories over the small alphabet that reaches a wait timeout (the full alphabet needs depth 4 for one)"""
    alpha = [(1, 0, 0), (1, 1, 0), (1, 2, 0), (3, 2, 0), (2, 1, 0), (4, 0, 0)]
    for evs in itertools.product(alpha, repeat=depth):
        s = [cap, mw, n]
        for e in evs:
            s += list(e)
        yield s


def generate(rng, tier):
    out = []
    presets = [(10, 0, 2), (50, 0, 3), (200, 0, 4), (25, -1, 5), (25, 20, 5), (10, 5, 6), (10, DMAX, 6)]
    if tier == "quick":
        out += [random_script(rng) for _ in range(1500)]
        out += list(exhaustive(2, 1, 2, 3))
        out += list(exhaustive_timeout(4, 1, 2, 3))
        for _ in range(30):
            cap, mw, route = rng.choice(presets[:2] + presets[3:])
            out.append(fill(cap, mw, cap + rng.randint(1, 4), route, rng.randrange(4), rng.randrange(2), rng))
        out.append(fill(200, 0, 203, 4, 1, 1, rng))
        for _ in range(40):
            cap = rng.choice([1, 2, 3, 4, 8])
            out.append(fill(cap, rng.choice([-1, 0, 5, DMAX]), cap + rng.randint(1, 4), 0, rng.randrange(4), rng.randrange(2), rng))
        out += [sequential(rng, rng.choice([1, 2, 3]), rng.choice([-1, 0, 5]), rng.randint(50, 80), rng.choice([1, 1, 2, 3, 0]), rng.randrange(2)) for _ in range(20)]
        out += [deadline_script(rng) for _ in range(500)]
        out += [handles_script(rng) for _ in range(150)]
    else:
        out += [random_script(rng, 8, 60) for _ in range(20000)]
        out += list(exhaustive(4, 1, 2, 3))
        out += list(exhaustive(3, 2, -1, 3))
        out += list(exhaustive(3, 1, 0, 3))
        out += list(exhaustive_timeout(6, 1, 2, 3))
        out += list(exhaustive_timeout(5, 2, 2, 3))
        out += [deadline_script(rng) for _ in range(8000)]
        out += [handles_script(rng) for _ in range(2000)]
        for _ in range(300):
            cap, mw, route = rng.choice(presets)
            out.append(fill(cap, mw, cap + rng.randint(1, 6), route, rng.randrange(4), rng.randrange(2), rng))
        for _ in range(400):
            cap = rng.choice([1, 2, 3, 4, 5, 8, 16])
            out.append(fill(cap, rng.choice([-1, 0, 5, 50, DMAX]), cap + rng.randint(1, 6), 0, rng.randrange(4), rng.randrange(2), rng))
        # (the model's closures make a history of k events cost O(k^2): keep these below ~500 events)
        out += [sequential(rng, rng.choice([1, 2, 3]), rng.choice([-1, 0, 5]), rng.randint(50, 150), rng.choice([1, 1, 2, 3, 0]), rng.randrange(2)) for _ in range(60)]
    return out


def extended(rng, mism):
    """search for a failing input after a bare correspondence break: the neighbourhood of the scripts on which model
    and implementation differ (prefixes, continuations, other waits) plus a fresh random batch"""
    out = []
    for (s, a, b, d) in sorted(mism, key=lambda m: len(m[0]))[:40]:
        head, body = list(s[:3]), list(s[3:])
        k = len(body) // 3
        n = max(1, head[2] % 1000)
        for j in range(1, k + 1):
            out.append(head + body[:3 * j])
        for _ in range(25):
            t = head + body[:3 * rng.randint(0, k)]
            for _ in range(rng.randint(1, 8)):
                t += random_event(rng, n)
            out.append(t)
        if head[2] < 1000:
            for mw in (-1, 0, 5, 20, DMAX, us(300)):
                out.append([head[0], mw, head[2]] + body)
    out += [random_script(rng, 8, 40) for _ in range(5000)]
    out += [deadline_script(rng) for _ in range(1500)]
    out += [handles_script(rng) for _ in range(500)]
    out += list(exhaustive_timeout(5, 1, 2, 3))
    return out


def nontrivial(s, t):
    """a script is non-trivial when some caller had to queue, was rejected, or was cancelled while holding/awaiting a permit"""
    d = decode(s, t)
    if not d:
        return True
    cap, mw, n, evt = d
    for (e, o) in evt[:-(n + probe_len(s[0]))]:
        if e[0] == 1 and o[0] == 0 and o[1] == 0:
            return True  # pending without having started: queued
        if o[0] in (3, 5):
            return True
    return False


def classify(s, t):
    d = decode(s, t)
    cap, mw, n, flags = header(s)
    sub = any(DUR_FLAG <= v < 10 ** 15 for v in [mw] + [s[i + 1] for i in range(3, len(s) - 2, 3) if s[i] == 3])
    out = (["sub_millisecond"] if sub else []) + ["cap%s" % ("_above_max_permits" if cap >= CAP_SENTINEL else cap if cap <= 3 else ("4to8" if cap <= 8 else "%d" % cap if cap in (10, 25, 50, 200) else "9plus")),
           "maxwait_%s" % ("none" if mw < 0 else ("zero" if mw == 0 else ("duration_max" if mw >= 10 ** 15 else ("sub_ms" if mw >= DUR_FLAG else ("finite" if mw <= 1000 else "huge"))))),
           "route%d" % (flags % 8), "handle%d" % (flags // 8 % 4)]
    if flags // 32 % 2:
        out.append("panicking_listeners")
    if flags // 64 % 2:
        out.append("finished_futures_kept")
    if n >= 50:
        out.append("long_history")
    if d:
        rs = set(o[0] for (_, o) in d[3])
        for r, name in ((1, "ok"), (2, "inner_err"), (3, "timeout"), (5, "panic")):
            if r in rs:
                out.append("saw_" + name)
        body = d[3][:-(d[2] + probe_len(cap))]
        if any(e[0] == 2 for (e, _) in body):
            out.append("has_cancel")
        if any(e[0] == 6 for (e, _) in body):
            out.append("handles_dropped")
        if any(e[0] == 4 and e[2] == 3 for (e, _) in body):
            out.append("sync_panic_in_call")
        if any(o[4] == cap for (_, o) in body):
            out.append("reached_full")
    return out


def shrink(s):
    """candidate smaller scripts: remove one event; plain configuration flags"""
    head, body = s[:3], s[3:]
    k = len(body) // 3
    for i in range(k):
        yield head + body[:3 * i] + body[3 * i + 3:]
    if head[2] >= 1000 and head[2] // 1000 % 8 in (0, 1):
        yield [head[0], head[1], head[2] % 1000] + body
        yield [head[0], head[1], head[2] % 1000 + 1000 * (head[2] // 1000 & 64)] + body
