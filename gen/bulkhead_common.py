"""Shared by C01 and C07: bulkhead scripts, trace decoding, generators."""
import itertools

DRIVER = "c01"
MODEL = "C01"
MODEL_QUALID = "Model.Bulkhead.run_script"
FORMAT = ("script [cap; max_wait_ms (-1 none); n; (op a b)*] op 1=Poll a 2=Drop a 3=Advance a(ms) 4=Complete a b(0 ok,1 err,2 panic) 5=Call a (create the call future without polling it); "
          "then every caller is dropped and cap+1 fresh callers are polled once (capacity probe). "
          "trace: per event [r; started; seen; wake mask; in-flight] with r: -1 no poll, 0 pending, 1 Ok, 2 Err(Inner), 3 Timeout, 4 BulkheadFull, 5 panicked, 9 nothing to poll")
TRUSTED = ["tokio Semaphore (FIFO hand-over on release), time::timeout (inner future polled before the timer) and oneshot are modelled, tied to the libraries only by this correspondence run",
           "poll atomicity: shared state is touched only inside one poll"]
ASSUMPTIONS = ["whole-millisecond instants", "single-threaded deterministic executor: one poll at a time"]


def events(s):
    cap, mw, n = s[0], s[1], s[2]
    evs = [tuple(s[i:i + 3]) for i in range(3, len(s) - (len(s) - 3) % 3, 3)]
    evs = [e for e in evs if e[0] in (1, 2, 3, 4, 5)]
    evs = [e for e in evs if e[0] in (3,) or 0 <= e[1]]
    evs += [(2, i, 0) for i in range(n)] + [(1, i, 0) for i in range(n, n + cap + 1)]
    return cap, mw, n, evs


def decode(s, t):
    cap, mw, n, evs = events(s)
    if len(t) != 5 * len(evs):
        return None
    return cap, mw, n, [(e, t[5 * k:5 * k + 5]) for k, e in enumerate(evs)]


def corpus():
    return [
        [1, -1, 2, 1, 0, 0, 1, 1, 0, 4, 0, 0, 1, 0, 0, 1, 1, 0],
        [2, 50, 3, 1, 0, 0, 1, 1, 0, 1, 2, 0, 3, 49, 0, 1, 2, 0, 3, 1, 0, 1, 2, 0, 4, 0, 2, 1, 0, 0],
        [1, 0, 2, 1, 0, 0, 1, 1, 0],
        [1, 30, 3, 1, 0, 0, 1, 1, 0, 1, 2, 0, 2, 0, 0, 1, 1, 0, 3, 30, 0, 1, 2, 0],
        # permit released at the very instant of the waiter's deadline
        [1, 10, 2, 1, 0, 0, 1, 1, 0, 3, 10, 0, 4, 0, 0, 1, 0, 0, 1, 1, 0],
        # futures created (call()) while a slot is free, polled only after it was taken: must still time out
        [1, 20, 3, 5, 0, 0, 5, 1, 0, 5, 2, 0, 1, 0, 0, 1, 1, 0, 1, 2, 0, 3, 20, 0, 1, 1, 0, 1, 2, 0],
        [1, 0, 2, 5, 0, 0, 5, 1, 0, 1, 0, 0, 1, 1, 0],
        # cancellation of a granted-but-not-yet-polled waiter hands the permit on
        [1, -1, 3, 1, 0, 0, 1, 1, 0, 1, 2, 0, 4, 0, 1, 1, 0, 0, 2, 1, 0, 1, 2, 0],
    ]


def random_script(rng, maxn=6, maxlen=30):
    cap = rng.choice([1, 1, 2, 2, 3])
    mw = rng.choice([-1, -1, 0, 5, 20, 20, 50])
    n = rng.randint(1, maxn)
    s = [cap, mw, n]
    L = rng.randint(3, maxlen)
    for _ in range(L):
        x = rng.random()
        if x < 0.45:
            s += [1, rng.randrange(n), 0]
        elif x < 0.5:
            s += [5, rng.randrange(n), 0]      # call() without a poll
        elif x < 0.62:
            s += [2, rng.randrange(n), 0]
        elif x < 0.80:
            s += [3, rng.choice([1, 4, 5, 15, 19, 20, 20, 30, 49, 50]), 0]
        else:
            s += [4, rng.randrange(n), rng.choice([0, 0, 1, 2])]
    return s


def exhaustive(depth, cap=1, mw=2, n=3):
    alpha = [(1, i, 0) for i in range(n)] + [(2, i, 0) for i in range(n)] + [(5, i, 0) for i in range(1, n)] + [(3, 1, 0), (3, 2, 0)] + \
            [(4, i, 0) for i in range(n)] + [(4, 0, 2), (4, 1, 1)]
    for L in range(1, depth + 1):
        for evs in itertools.product(alpha, repeat=L):
            s = [cap, mw, n]
            for e in evs:
                s += list(e)
            yield s


def generate(rng, tier):
    out = []
    if tier == "quick":
        out += [random_script(rng) for _ in range(1500)]
        out += list(exhaustive(2, 1, 2, 3))
    else:
        out += [random_script(rng, 8, 60) for _ in range(20000)]
        out += list(exhaustive(4, 1, 2, 3))
        out += list(exhaustive(3, 2, -1, 3))
        out += list(exhaustive(3, 1, 0, 3))
    return out


def nontrivial(s, t):
    """a script is non-trivial when some caller had to queue, was rejected, or was cancelled while holding/awaiting a permit"""
    d = decode(s, t)
    if not d:
        return True
    cap, mw, n, evt = d
    polled = set()
    for (e, o) in evt[:-(n + cap + 1)]:
        if e[0] == 1 and o[0] == 0 and o[1] == 0:
            return True  # pending without having started: queued
        if o[0] in (3, 5):
            return True
    return False


def classify(s, t):
    d = decode(s, t)
    out = ["cap%d" % s[0], "maxwait_%s" % ("none" if s[1] < 0 else ("zero" if s[1] == 0 else "finite"))]
    if d:
        rs = set(o[0] for (_, o) in d[3])
        for r, name in ((1, "ok"), (2, "inner_err"), (3, "timeout"), (5, "panic")):
            if r in rs:
                out.append("saw_" + name)
        if any(e[0] == 2 for (e, _) in d[3][:-(d[2] + d[0] + 1)]):
            out.append("has_cancel")
    return out


def shrink(s):
    """candidate smaller scripts: remove one event"""
    head, body = s[:3], s[3:]
    k = len(body) // 3
    for i in range(k):
        yield head + body[:3 * i] + body[3 * i + 3:]
