"""Shared by C02 and C15: rate limiter scripts, trace decoding, generators."""
import itertools

DRIVER = "c02"
MODEL = "C02"
MODEL_QUALID = "Model.RateLimiter.run_script"
NCFG = 5
PER_EV = 4
FORMAT = ("script [window type 0=fixed 1=sliding log 2=sliding counter; limit; period; timeout; n + 1000*mode; (op a b)*] "
          "limit >= 10^15 = usize::MAX; durations z: z < 10^15 = z ms, 10^15 <= z < 2*10^15 = Duration::MAX, z >= 2*10^15 = Duration::from_secs(z - 2*10^15); "
          "mode 0 = every caller through its own fresh clone, 1 = all callers through ONE long-lived service value, 2 = clone chain, 3 = mixed; "
          "op 1=Poll a 2=Drop a 3=Advance a(ms, 1 ms at a time) 4=Complete a b(0 ok,1 err,2 panic) 5=Call a (create the call future without polling it) 6=Jump a(ms, one clock step). "
          "trace per event [r; started = number of inner call()s made since the end of the previous event; in-flight; wake mask]; r: -1 no poll, 0 pending, 1 Ok, 2 Err(Inner), 3 RateLimited, 5 panicked, 9 nothing to poll")
TRUSTED = ["sliding counter: the binary64 weight/estimate arithmetic of try_acquire/estimate_wait_time is modelled by exact integer/rational arithmetic. "
           "The two are NOT equal in general (as_secs_f64(e)/as_secs_f64(P) is already inexact for P = 64 ms, and for e.g. P = 44 ms, limit 4 the code admits at "
           "previous 4 / current 3 / 33 ms into the bucket where the exact weighted count equals the limit); they give the same decision (admit / wait, the millisecond at which "
           "the sleep ends, wait > whole-ms timeout) for a period P whenever counter_agrees(P) below finds no difference in an exhaustive bit-exact emulation of the Rust "
           "expressions over every previous/current count <= limit <= 4 and every whole-ms offset in the bucket; sliding-counter scripts with limit <= 4 and periods up to 2 s only use periods "
           "that pass this test; scripts with larger limits or periods (60 s, days) are generated and then kept only if the same emulation agrees at every bucket offset the script "
           "can produce (every difference of two poll instants) for every previous/current count <= limit (counter_script_ok); for refresh_period 0 the ratio is the constant 1.0 and for "
           "astronomic periods (>= 10^14 ms) the bucket is never rotated within a script, previous = 0 and the weighted count is the current count exactly. "
           "Instant is modelled as bounded (i64 seconds from an epoch; the limiter is created 10^6 s after it in the driver) only where the code checks for overflow "
           "(sliding log: oldest.checked_add(window)); Duration::MAX is modelled as 2^64 s (1 ns more than the real value: larger than every whole-ms duration). "
           "Bucket rotation (maybe_rotate_bucket) is integer arithmetic on nanoseconds in the code since fix 0566530 and equals the model's test for every period",
           "tokio sleep (fires at the first whole millisecond at/after its deadline), std Mutex around the state (never held across an await), oneshot gate",
           "poll atomicity"]
ASSUMPTIONS = ["whole-millisecond instants", "limit_for_period >= 1 (refresh_period 0 is driven through the correspondence; the theorems assume refresh_period > 0)",
               "no time passes inside a poll (start.elapsed() is 0 in the round that starts at the caller's first poll)"]

E15 = 10 ** 15
DUR_MAX = 2 ** 64 * 1000          # Duration::MAX in the model's ms (rounded up to a whole ms)


def dur(z):
    """a script duration in ms (mirror of Model.RateLimiter.dur_of)"""
    if z >= 2 * E15:
        return min(z - 2 * E15, 2 ** 64 - 1) * 1000
    if z >= E15:
        return DUR_MAX
    return z


def secs(k):
    """script encoding of Duration::from_secs(k)"""
    return 2 * E15 + k


ORIGIN_S = 10 ** 6                # the driver's virtual CLOCK_MONOTONIC starts at 10^6 s


def events(s):
    body = s[NCFG:]
    n = s[4] % 1000
    evs = [tuple(body[i:i + 3]) for i in range(0, len(body) - len(body) % 3, 3)]
    out = []
    for e in evs:
        if e[0] in (1, 2, 4, 5) and 0 <= e[1] < n:
            out.append(e)
        elif e[0] in (3, 6):
            out.append(e)
    return out


def decode(s, t):
    evs = events(s)
    if len(t) != PER_EV * len(evs):
        return None
    return [(e, t[PER_EV * k:PER_EV * k + PER_EV]) for k, e in enumerate(evs)]


# ---------------------------------------------------------------------------------------------
# bit-exact emulation of SlidingCounterState::try_acquire / estimate_wait_time (Python floats are
# binary64 with correctly rounded + - * /) against the model's exact rationals: which periods may
# sliding-counter scripts use?
from fractions import Fraction as _Fr
import math as _math


def _as_secs_f64(ms):                       # Duration::as_secs_f64 of a whole-ms duration
    return float(ms // 1000) + float((ms % 1000) * 1000000) / 1e9


def _from_secs_f64_ns(x):                   # Duration::from_secs_f64: exact value, round half even to ns
    f = _Fr(x) * 10 ** 9
    n = _math.floor(f)
    r = f - n
    if r > _Fr(1, 2) or (r == _Fr(1, 2) and n % 2 == 1):
        n += 1
    return n


def counter_code_f64(P, limit, prev, cur, e):
    """None = admitted, else the wait in ns, as limiter.rs computes it e ms into the bucket"""
    ratio = min(max(_as_secs_f64(e) / _as_secs_f64(P), 0.0), 1.0)
    w = float(prev) * (1.0 - ratio) + float(cur)
    if w < float(limit):
        return None
    if float(prev) == 0.0:
        ns = _from_secs_f64_ns(_as_secs_f64(P) * (1.0 - ratio))
    else:
        target = (float(prev) + float(cur) - float(limit) + 0.1) / float(prev)
        if target <= ratio:
            ns = 0
        elif target >= 1.0:
            ns = _from_secs_f64_ns(_as_secs_f64(P) * (1.0 - ratio))
        else:
            ns = _from_secs_f64_ns((target - ratio) * _as_secs_f64(P))
    return max(ns, 1)


def counter_model_exact(P, limit, p, cur, e):
    """None = admitted, else the wait in ms as an exact rational, as Model/RateLimiter.v computes it"""
    if p * (P - e) + cur * P < limit * P:
        return None
    tiny = _Fr(1, 10 ** 6)
    if p == 0:
        return _Fr(P - e) if P - e > 0 else tiny
    m = 10 * (p + cur - limit) + 1
    if P * m <= 10 * p * e:
        return tiny
    if 10 * p <= m:
        return _Fr(P - e) if P - e > 0 else tiny
    return _Fr(P * m - 10 * p * e, 10 * p)


def counter_disagreements(P, maxlimit=4):
    """every (limit, previous, current, offset) at which code and model decide differently: admission, or
    the whole millisecond at which the wait ends (which also decides every `wait > k ms` comparison)"""
    bad = []
    for limit in range(1, maxlimit + 1):
        for prev in range(limit + 1):
            for cur in range(limit + 1):
                for e in range(P):
                    x, y = counter_code_f64(P, limit, prev, cur, e), counter_model_exact(P, limit, prev, cur, e)
                    if (x is None) != (y is None) or (x is not None and -(-x // 10 ** 6) != _math.ceil(y)):
                        bad.append((limit, prev, cur, e))
    return bad


_AGREE = {}


def counter_agrees(P, maxlimit=4):
    if (P, maxlimit) not in _AGREE:
        _AGREE[(P, maxlimit)] = not counter_disagreements(P, maxlimit)
    return _AGREE[(P, maxlimit)]


def counter_script_ok(s):
    """may this sliding-counter script be compared with the exact model? Either its period passed the exhaustive test,
    or (large periods / limits) every offset into a bucket that the script can produce - any difference of two instants
    at which something is polled - gives the same decision for every previous/current count <= limit"""
    if s[0] != 2:
        return True
    P, limit = dur(s[2]), s[1]
    if P == 0 or P >= 10 ** 14:
        return True     # zero bucket: ratio 1.0 exactly; astronomic bucket: never rotated within a script, previous = 0, weighted = current exactly
    if limit <= 4 and P <= 2000:
        return counter_agrees(P)
    now, inst = 0, {0}
    for e in events(s):
        if e[0] in (3, 6):
            now += max(0, e[1])
        elif e[0] == 1:
            inst.add(now)
    inst = sorted(inst)
    offs = sorted({b - a for i, a in enumerate(inst) for b in inst[i:] if b - a < P})
    top = min(limit, s[4] % 1000)
    for e in offs:
        for prev in range(top + 1):
            for cur in range(top + 1):
                x, y = counter_code_f64(P, limit, prev, cur, e), counter_model_exact(P, limit, prev, cur, e)
                if (x is None) != (y is None) or (x is not None and -(-x // 10 ** 6) != _math.ceil(y)):
                    return False
    return True


# 559, 561, 672, 801: periods at which fl(2P)/fl(P) < 2.0 (the defect fixed by 0566530); 44 is a period
# where code and exact model differ (kept in the list so that the filter is seen to filter)
_COUNTER_CANDIDATES = [7, 10, 16, 20, 30, 32, 44, 50, 64, 100, 128, 559, 561, 672, 801]
COUNTER_PERIODS = [P for P in _COUNTER_CANDIDATES if counter_agrees(P)]
COUNTER_SMALL = [P for P in COUNTER_PERIODS if P <= 64]
WIDE_PERIODS = [7, 10, 20, 30, 50, 100, 559, 561, 672, 801]
ROTATION_REPRODUCER = [2, 1, 559, 0, 2, 1, 0, 0, 3, 1118, 0, 1, 1, 0]
KNOWN_DEFECT = []      # scripts on which the real code violates the property (none at present)


def corpus():
    out = []
    # the upstream defect: limit 2, period 100, timeout 250, 6 concurrent callers
    for wt, P in ((0, 100), (1, 100), (2, 128)):
        s = [wt, 2, P, 250, 6]
        for i in range(6):
            s += [1, i, 0]
        for k in range(3):
            s += [3, P, 0]
            for i in range(6):
                s += [1, i, 0]
        out.append(s)
    # arrivals exactly on the window boundary
    s = [0, 1, 50, 0, 4, 1, 0, 0, 3, 50, 0, 1, 1, 0, 1, 2, 0, 3, 49, 0, 1, 3, 0]
    out.append(s)
    # sliding log: limit+1 admissions must span the period
    s = [1, 2, 40, 100, 5, 1, 0, 0, 3, 10, 0, 1, 1, 0, 3, 10, 0, 1, 2, 0, 3, 19, 0, 1, 2, 0, 3, 1, 0, 1, 2, 0, 1, 3, 0]
    out.append(s)
    # sliding counter with a previous bucket: fractional waits
    s = [2, 2, 64, 200, 6, 1, 0, 0, 1, 1, 0, 3, 64, 0, 1, 2, 0, 1, 3, 0, 1, 4, 0]
    for _ in range(70):
        s += [3, 1, 0, 1, 3, 0, 1, 4, 0]
    out.append(s)
    # dropped while sleeping consumes nothing
    s = [0, 1, 30, 100, 4, 1, 0, 0, 1, 1, 0, 2, 1, 0, 3, 30, 0, 1, 2, 0, 1, 3, 0]
    out.append(s)
    # reproducer of the sliding-counter rotation defect (fixed by 0566530): one admission, exactly two idle
    # periods of 559 ms, the next call must be admitted at once (the f64 quotient 1.118/0.559 is < 2.0)
    out.append(list(ROTATION_REPRODUCER))
    for P in (561, 672, 801):
        out.append([2, 1, P, 0, 2, 1, 0, 0, 3, 2 * P, 0, 1, 1, 0])
    # same with a waiting timeout and limit 2: the fresh callers must not be put to sleep
    out.append([2, 2, 559, 1000, 4, 1, 0, 0, 1, 1, 0, 3, 1118, 0, 1, 2, 0, 1, 3, 0])
    # arrivals at exact multiples of a non-dyadic period, all window types
    for wt in (0, 1, 2):
        for P in (7, 10, 20, 30, 50, 100, 559):
            s = [wt, 2, P, P, 8, 1, 0, 0, 1, 1, 0, 1, 2, 0, 3, P, 0, 1, 2, 0, 1, 3, 0, 3, P, 0, 1, 2, 0, 1, 3, 0, 1, 4, 0,
                 3, 2 * P, 0, 1, 5, 0, 1, 6, 0, 1, 7, 0]
            out.append(s)
    # review C15 section 5: a rejected call rotates the counter's bucket; the second fresh caller at 33 is
    # rightly rejected (conforming trace that the old spare-capacity clause flagged)
    out.append([2, 2, 16, 0, 5, 1, 0, 0, 1, 1, 0, 3, 31, 0, 1, 2, 0, 3, 2, 0, 1, 3, 0, 1, 4, 0])
    # sliding counter: a caller that arrives in a bucket, waits, and is admitted in the SAME bucket
    # (clause "only by a permit of a later window" read on buckets is false for the counter)
    out.append([2, 1, 16, 100, 3, 1, 0, 0, 3, 16, 0, 1, 1, 0, 2, 1, 0, 1, 2, 0, 3, 2, 0, 1, 2, 0])
    # ... and no valid cutting of time has a cut between arrival (18) and admission (25) of caller 4: admissions 15,15,17,25
    out.append([2, 2, 16, 100, 6, 3, 15, 0, 1, 0, 0, 1, 1, 0, 3, 1, 0, 1, 2, 0, 3, 1, 0, 1, 2, 0, 1, 3, 0, 3, 1, 0, 1, 4, 0,
                3, 7, 0, 1, 4, 0])
    # idle for two periods, then limit fresh callers spread over more than a period
    for wt in (0, 1, 2):
        out.append([wt, 3, 20, 0, 6, 1, 0, 0, 1, 1, 0, 3, 40, 0, 1, 2, 0, 3, 15, 0, 1, 3, 0, 3, 15, 0, 1, 4, 0, 1, 5, 0])
    # large limits: limit+1 callers at one instant, again one / two periods later
    for wt in (0, 1, 2):
        out.append(wide_limit_script(wt, 64, 10, 2))
    # ---- second improvement round ----
    # reproducers of the two configuration-extreme defects (fixed by 3a55d77 / 5ffed58): refresh_period Duration::MAX,
    # limit 1, timeout 0, five sequential calls through ONE service value: one admitted, four rejected (the sliding log
    # admitted all five; the sliding counter panicked under its mutex from the second call on)
    for wt in (0, 1, 2):
        out.append(list(MAX_PERIOD_REPRODUCER[wt]))
        out.append([wt, 2, secs(2 ** 63), 50, 1006, 1, 0, 0, 1, 1, 0, 1, 2, 0, 6, 10, 0, 1, 3, 0, 6, 60, 0, 1, 3, 0, 1, 4, 0, 1, 5, 0])
        # timeout Duration::MAX as well: the later callers wait for ever
        out.append([wt, 1, E15, E15, 3, 1, 0, 0, 6, 50, 0, 1, 1, 0, 6, 5 * 10 ** 9, 0, 1, 2, 0, 1, 1, 0])
        # refresh_period 0: everything is admitted (the counter divided 0/0 and panicked)
        out.append([wt, 1, 0, 0, 1004, 1, 0, 0, 1, 1, 0, 6, 3, 0, 1, 2, 0, 1, 3, 0])
    # sliding log at the edge of what Instant can hold: window end = i64::MAX s exactly (fine), one second more (never frees)
    for k in (0, 1):
        out.append([1, 1, secs(2 ** 63 - 1 - ORIGIN_S + k), 0, 4, 1, 0, 0, 6, 50, 0, 1, 1, 0, 6, 999, 0, 1, 2, 0, 6, 1, 0, 1, 3, 0])
    # limit_for_period = usize::MAX ("unlimited"): everybody is admitted at once; the sliding log used to panic in layer()
    # (VecDeque::with_capacity(limit), fixed by 03e3ffe). Only the sentinel is ever used: nothing between 2^20 and 2^59.
    for wt in (0, 1, 2):
        out.append(list(LIMIT_MAX_REPRODUCER[wt]))
        out.append([wt, E15, 1000, 100, 1004, 1, 0, 0, 1, 1, 0, 6, 999, 0, 1, 2, 0, 6, 1, 0, 1, 3, 0])
    # metronome: fixed window, limit 1, period 7: one fresh caller every 6 ms; a window that refreshes 1 ms early admits all of them
    out.append(list(METRONOME_REPRODUCER))
    # 60-day quota window crossed by clock jumps (2^32 ms = 49.7 days must not refresh it)
    for wt in (0, 1):
        out.append([wt, 1, 5184000000, 0, 1004, 1, 0, 0, 6, 2 ** 32, 0, 1, 1, 0, 6, 5184000000 - 2 ** 32 - 1, 0, 1, 2, 0, 6, 1, 0, 1, 3, 0])
    # crate default / presets: 1 s and 60 s periods, one service value
    out.append([0, 3, 1000, 100, 1005, 1, 0, 0, 1, 1, 0, 1, 2, 0, 1, 3, 0, 6, 900, 0, 1, 3, 0, 1, 4, 0, 6, 100, 0, 1, 3, 0, 1, 4, 0])
    out.append([1, 3, 60000, 1000, 1005, 1, 0, 0, 1, 1, 0, 1, 2, 0, 1, 3, 0, 6, 59000, 0, 1, 3, 0, 1, 4, 0, 6, 1000, 0, 1, 3, 0, 1, 4, 0])
    return out


MAX_PERIOD_REPRODUCER = {wt: [wt, 1, E15, 0, 1005, 1, 0, 0, 1, 1, 0, 6, 50, 0, 1, 2, 0, 6, 10 ** 9, 0, 1, 3, 0, 1, 4, 0] for wt in (0, 1, 2)}
LIMIT_MAX_REPRODUCER = {wt: [wt, E15, 50, 0, 4, 1, 0, 0, 1, 1, 0, 1, 2, 0, 3, 1, 0, 1, 3, 0] for wt in (0, 1, 2)}
METRONOME_REPRODUCER = [0, 1, 7, 0, 8] + [x for k in range(8) for x in (1, k, 0, 3, 6, 0)]


def wide_limit_script(wt, limit, P, gap_periods):
    """limit+1 callers polled once at one instant (timeout 0: the last is rejected), the same again
    gap_periods periods later; only whole-period offsets, so no fraction is involved for the counter"""
    n = 2 * (limit + 1)
    s = [wt, limit, P, 0, n]
    for i in range(limit + 1):
        s += [1, i, 0]
    s += [3, gap_periods * P, 0]
    for i in range(limit + 1, n):
        s += [1, i, 0]
    return s


def _periods(rng, wt, small=False):
    if wt == 2:
        return rng.choice(COUNTER_SMALL if small else [P for P in COUNTER_PERIODS if P <= 128])
    return rng.choice([7, 10, 20, 32, 33] if small else [7, 10, 20, 33, 50, 64, 100])


def random_script(rng, maxn=8, maxlen=50):
    wt = rng.choice([0, 0, 1, 1, 2, 2])
    P = _periods(rng, wt)
    limit = rng.choice([1, 1, 2, 2, 3, 4])
    if wt != 2 and rng.random() < 0.1:
        limit = rng.choice([5, 6, 7])
    timeout = rng.choice([0, 0, P // 2, P - 1, P, P + 1, 2 * P, 3 * P + 5, 5 * P, 10 * P + 3])
    if rng.random() < 0.1:
        maxn = 12
    n = rng.randint(1, maxn)
    s = [wt, limit, P, timeout, n + 1000 * rng.choice([0, 0, 0, 1, 2, 3])]
    L = rng.randint(3, maxlen)
    for _ in range(L):
        x = rng.random()
        if x < 0.51:
            s += [1, rng.randrange(n), 0]
        elif x < 0.55:
            s += [5, rng.randrange(n), 0]      # call() without a poll
        elif x < 0.62:
            s += [2, rng.randrange(n), 0]
        elif x < 0.88:
            s += [rng.choice([3, 3, 3, 6]), rng.choice([1, 1, 2, 3, 5, P // 2, P - 1, P, P, P + 1, 2 * P]), 0]
        else:
            s += [4, rng.randrange(n), rng.choice([0, 0, 1, 2])]
    return s


def burst_script(rng):
    """many callers arrive together, then time advances step by step with everyone polled at each step"""
    wt = rng.choice([0, 1, 2])
    P = rng.choice([P for P in COUNTER_SMALL if P <= 32]) if wt == 2 else rng.choice([7, 10, 20, 32])
    limit = rng.choice([1, 2, 3])
    timeout = rng.choice([0, P // 2, P, 2 * P, 3 * P])
    n = rng.randint(2, 8)
    s = [wt, limit, P, timeout, n]
    order = list(range(n))
    for step in range(rng.randint(2, 3 * P + 5)):
        rng.shuffle(order)
        for i in order:
            if rng.random() < 0.8:
                s += [1, i, 0]
        if rng.random() < 0.05:
            s += [2, rng.randrange(n), 0]
        s += [3, rng.choice([1, 1, 1, 2, P // 2]), 0]
    return s


def idle_script(rng):
    """activity, then (about) two idle periods, then limit+1 fresh callers, at one instant or spread in time;
    any period incl. the non-dyadic ones at which the f64 quotient of two periods is below 2.0"""
    wt = rng.choice([0, 1, 2, 2])
    P = rng.choice(COUNTER_PERIODS) if wt == 2 else rng.choice([10, 20, 33, 559, 801])
    limit = rng.choice([1, 2, 3])
    n0 = rng.randint(1, 5)
    n = n0 + limit + 1
    s = [wt, limit, P, rng.choice([0, 0, P, 2 * P]), n]
    for i in range(n0):
        s += [1, i, 0]
        if rng.random() < 0.5:
            s += [3, rng.choice([1, P // 2]), 0]
    s += [3, rng.choice([2 * P, 2 * P, 2 * P, 2 * P + 1, 2 * P + 7, 2 * P - 1, 3 * P, 4 * P]), 0]
    spread = rng.random() < 0.5
    for i in range(n0, n):
        s += [1, i, 0]
        if spread:
            s += [3, rng.choice([1, 2, P // 3, P // 2, P - 1, P, P + 1]), 0]
    return s


def boundary_script(rng):
    """arrivals at exact multiples of the period (and one ms either side), new callers and woken waiters polled there"""
    wt = rng.choice([0, 1, 2])
    P = rng.choice(COUNTER_PERIODS) if wt == 2 else rng.choice(WIDE_PERIODS)
    limit = rng.choice([1, 1, 2, 3, 4])
    timeout = rng.choice([0, 0, 1, P - 1, P, P + 1, 2 * P, 3 * P])
    n = rng.randint(3, 10)
    s = [wt, limit, P, timeout, n]
    nxt = 0
    for _ in range(rng.randint(2, 6)):
        for _ in range(rng.randint(1, 3)):
            if nxt < n:
                s += [1, nxt, 0]
                nxt += 1
        for i in range(nxt):
            if rng.random() < 0.5:
                s += [1, i, 0]
        if rng.random() < 0.15 and nxt:
            s += [2, rng.randrange(nxt), 0]
        s += [3, rng.choice([P, P, P, 2 * P, 2 * P, 3 * P, P - 1, P + 1, 2 * P - 1, 2 * P + 1]), 0]
    for i in range(nxt):
        s += [1, i, 0]
    return s


def wide_script(rng):
    return wide_limit_script(rng.choice([0, 1, 2]), rng.choice([5, 17, 64, 130]), rng.choice([10, 33, 64]), rng.choice([1, 2, 3]))


def metronome_script(rng):
    """saturated windows back to back: limit (sometimes limit+1) fresh callers every P-d ms for P/d + 2 rounds, timeout 0.
    A window only d ms too short becomes visible to the cutting monitor after about P/d saturated windows"""
    wt = rng.choice([0, 0, 2, 2, 1])
    P = rng.choice([P for P in COUNTER_SMALL if P <= 20]) if wt == 2 else rng.choice([5, 7, 10, 12, 20])
    d = rng.choice([1, 1, 2])
    limit = rng.choice([1, 1, 2])
    rounds = P // d + 2 + rng.randint(0, 2)
    s = [wt, limit, P, rng.choice([0, 0, 0, 1]), 0]
    k = 0
    for _ in range(rounds):
        for _ in range(limit + (1 if rng.random() < 0.2 else 0)):
            s += [1, k, 0]
            k += 1
        s += [rng.choice([3, 6]), P - d, 0]
    s[4] = k + 1000 * rng.choice([0, 1])
    return s


def extreme_script(rng):
    """refresh_period / timeout_duration at the extremes: 0, Duration::MAX, 2^62..2^64 s, and periods whose window end is
    just (not) representable as an Instant; a few callers, ms steps and jumps of up to months"""
    wt = rng.choice([0, 1, 1, 2, 2])
    edge = 2 ** 63 - 1 - ORIGIN_S
    P = rng.choice([0, 0, E15, E15, secs(2 ** 63), secs(2 ** 64 - 1), secs(2 ** 62), secs(edge), secs(edge + 1), secs(edge - 1), secs(edge - 2)])
    timeout = rng.choice([0, 0, 50, 1000, E15, E15, secs(2 ** 63)])
    limit = rng.choice([1, 1, 2, 3])
    if rng.random() < 0.2:
        limit = E15                      # usize::MAX
        if rng.random() < 0.5:
            P = rng.choice([7, 50, 1000])
    n = rng.randint(2, 8)
    s = [wt, limit, P, timeout, n + 1000 * rng.choice([0, 1, 2, 3])]
    for _ in range(rng.randint(3, 25)):
        x = rng.random()
        if x < 0.6:
            s += [1, rng.randrange(n), 0]
        elif x < 0.65:
            s += [5, rng.randrange(n), 0]
        elif x < 0.72:
            s += [2, rng.randrange(n), 0]
        elif x < 0.92:
            s += [6, rng.choice([1, 1, 50, 999, 1000, 1001, 2000, 10 ** 6, 2 ** 32, 5 * 10 ** 9]), 0]
        else:
            s += [4, rng.randrange(n), rng.choice([0, 1, 2])]
    return s


def preset_script(rng):
    """the crate's default and presets: periods of 1 s and 60 s, limits up to 60, timeouts 100 ms / 1 s, clock jumps"""
    wt = rng.choice([0, 1, 2])
    P = rng.choice([1000, 1000, 60000, 250, 500, 2000])
    limit = rng.choice([3, 5, 10]) if wt == 2 else rng.choice([3, 10, 50, 60])
    timeout = rng.choice([0, 100, 1000, P, 2 * P])
    n = limit + rng.randint(1, 5)
    s = [wt, limit, P, timeout, n + 1000 * rng.choice([0, 1, 1, 2])]
    nxt = 0
    for _ in range(rng.randint(2, 5)):
        for _ in range(rng.randint(1, limit + 1)):
            if nxt < n:
                s += [1, nxt, 0]
                nxt += 1
        s += [6, rng.choice([P // 10, P // 4, P // 2, P - 100, P - 1, P, P + 1, 2 * P, 100, 1000]), 0]
        for i in range(nxt):
            if rng.random() < 0.4:
                s += [1, i, 0]
    for i in range(nxt):
        s += [1, i, 0]
    return s


def longgap_script(rng):
    """quota windows of a day / 49.7 days + 5 ms / 60 days crossed by clock jumps around 2^32 ms and around the period"""
    wt = rng.choice([0, 0, 1, 2])
    P = rng.choice([86400000, 2 ** 32 + 5, 5184000000])
    limit = rng.choice([1, 2])
    n = rng.randint(3, 8)
    s = [wt, limit, P, rng.choice([0, 0, 1000]), n + 1000 * rng.choice([0, 1])]
    nxt = 0
    for _ in range(rng.randint(2, 5)):
        for _ in range(rng.randint(1, 2)):
            if nxt < n:
                s += [1, nxt, 0]
                nxt += 1
        g = rng.choice([2 ** 32, 2 ** 32 - 1, P - 1, P, P + 1, P - 2 ** 32, P // 2, 2 * P, 1000, 1])
        if g > 0:
            s += [6, g, 0]
    for i in range(nxt):
        s += [1, i, 0]
    return s


def crowd_script(rng):
    """9..20 callers waiting at once, polled whenever time moves"""
    wt = rng.choice([0, 1, 2])
    P = rng.choice([P for P in COUNTER_SMALL if P <= 20]) if wt == 2 else rng.choice([7, 10, 20])
    limit = rng.choice([1, 2])
    n = rng.randint(9, 20)
    s = [wt, limit, P, rng.choice([2 * P, 3 * P, 10 * P]), n + 1000 * rng.choice([0, 1, 2])]
    order = list(range(n))
    for step in range(rng.randint(P, 3 * P)):
        rng.shuffle(order)
        for i in order:
            if step == 0 or rng.random() < 0.5:
                s += [1, i, 0]
        s += [3, rng.choice([1, 1, 2, P // 2]), 0]
    return s


def _checked(make, rng):
    """generate until the script may be compared with the exact counter model (see counter_script_ok)"""
    for _ in range(50):
        s = make(rng)
        if counter_script_ok(s):
            return s
    s[0] = 0
    return s


def generate(rng, tier):
    k = 1 if tier == "quick" else 12
    return ([random_script(rng) for _ in range(800 * k)] + [burst_script(rng) for _ in range(200 * k)] +
            [idle_script(rng) for _ in range(200 * k)] + [boundary_script(rng) for _ in range(150 * k)] +
            [wide_script(rng) for _ in range(3 * k)] + [metronome_script(rng) for _ in range(120 * k)] +
            [extreme_script(rng) for _ in range(120 * k)] + [_checked(preset_script, rng) for _ in range(60 * k)] +
            [_checked(longgap_script, rng) for _ in range(60 * k)] + [crowd_script(rng) for _ in range(25 * k)])


def shrink(s):
    head, body = s[:NCFG], s[NCFG:]
    k = len(body) // 3
    for i in range(k):
        yield head + body[:3 * i] + body[3 * i + 3:]


def classify(s, t):
    P = dur(s[2])
    out = [("fixed", "sliding_log", "sliding_counter")[min(s[0], 2)], "mode_%d" % (s[4] // 1000),
           "period_%s" % ("zero" if P == 0 else "duration_max" if P == DUR_MAX else "instant_overflow_range" if P >= 10 ** 18 else "days" if P >= 86400000 else
                          "1s_to_60s" if P >= 1000 else "pow2" if P & (P - 1) == 0 else "f64_two_periods_below_2" if P in (559, 561, 672, 801) else "non_dyadic"),
           "limit_%s" % ("1_4" if s[1] <= 4 else "5_8" if s[1] <= 8 else "usize_max" if s[1] >= E15 else "large"), "timeout_%s" % ("zero" if s[3] == 0 else "duration_max" if dur(s[3]) == DUR_MAX else "below" if dur(s[3]) < P else "equal" if dur(s[3]) == P else "above")]
    d = decode(s, t)
    if d:
        if any(o[0] == 3 for (_, o) in d):
            out.append("saw_rejection")
        polled = set()
        waited = False
        for (e, o) in d:
            if e[0] == 1:
                if e[1] in polled and o[1] >= 1:
                    waited = True
                polled.add(e[1])
        if waited:
            out.append("admitted_after_waiting")
        if any(e[0] == 2 for (e, _) in d):
            out.append("has_cancel")
        if any(e[0] == 6 for (e, _) in d):
            out.append("has_clock_jump")
    return out


def nontrivial(s, t):
    d = decode(s, t)
    if not d:
        return True
    # somebody had to wait or was rejected
    return any((e[0] == 1 and o[0] == 0 and o[1] == 0) or o[0] == 3 for (e, o) in d)


def admissions(s, t):
    """list of (instant, caller) for every inner call() the implementation made, whatever event made it (caller -1 when it
    was not made while a caller was being created or polled; a call made during a clock advance is dated at its end)"""
    d = decode(s, t)
    now, out = 0, []
    for (e, o) in d:
        if e[0] in (3, 6):
            now += max(0, e[1])
        if o[1] >= 1:
            out += [(now, e[1] if e[0] in (1, 5) else -1)] * o[1]
    return out


NEG = float("-inf")


def feasible(adm, limit, P, arrived=None, origin=None):
    """EXACT decision of: time can be cut into consecutive windows, none shorter than P, each containing at
    most `limit` of the admission instants `adm` (ascending integers; a window is [cut, next cut)).
    origin=None: time is unbounded to the past, the first window is everything before the first cut (the weakest
    reading); origin=t0: the first window starts at t0 and is itself no shorter than P.
    arrived (optional, same length as adm): arrived[k] = a is the additional demand that the window holding
    admission k starts after instant a ("admitted only by a permit of a later window"); None = no demand.

    Why this is exact: integer cuts suffice (replace every cut by its ceiling); a window without admissions can be
    merged into the window before it; so a solution is a split of adm into consecutive non-empty groups of size
    <= limit, group g >= 1 starting with a cut c_g with last(group g-1) < c_g <= first(group g),
    c_g > every arrival demanded in group g, c_g >= c_(g-1) + P. For a fixed split choosing every cut as small as
    possible is best, and the smallest cut that can start a group at index i (over all splits of adm[:i]) is all
    that later groups depend on: f below. Tested against brute force over all cut sets in gen/c02.py selftest."""
    n = len(adm)
    if arrived is None:
        arrived = [None] * n
    first_cut = NEG if origin is None else origin
    if n == 0:
        return True
    if origin is not None and adm[0] < origin:
        return False
    INF = float("inf")
    f = [INF] * (n + 1)          # f[i]: least start of a window whose first admission is adm[i], before arrival demands of that window
    f[0] = first_cut
    for i in range(1, n + 1):
        # group adm[j:i], window starting at c = max(f[j], demands); next window (if i < n) starts at
        # max(c + P, adm[i-1] + 1) and must be <= adm[i]
        best = INF
        need = NEG
        for j in range(i - 1, max(-1, i - 1 - limit), -1):
            if arrived[j] is not None:
                need = max(need, arrived[j] + 1)
            if f[j] == INF:
                continue
            if j == 0 and origin is not None and need > origin:
                c = max(need, origin + P)      # an empty first window [origin, c)
            else:
                c = max(f[j], need)
            if c > adm[j]:
                continue             # (c = -inf for the unbounded first window with no demand)
            if i == n:
                return True
            nxt = max(c + P, adm[i - 1] + 1)
            if nxt <= adm[i]:
                best = min(best, nxt)
        f[i] = best
    return False


def feasible_bruteforce(adm, limit, P, arrived=None, origin=None):
    """the same statement decided by trying every set of integer cuts (tiny inputs only)"""
    n = len(adm)
    if arrived is None:
        arrived = [None] * n
    if n == 0:
        return True
    lo = (min(adm + [a for a in arrived if a is not None]) - 1) if origin is None else origin
    hi = max(adm) + 1

    def window_ok(start, end):      # start None = -inf, end None = +inf
        idx = [k for k in range(n) if (start is None or adm[k] >= start) and (end is None or adm[k] < end)]
        if len(idx) > limit:
            return False
        return all(arrived[k] is None or (start is not None and start > arrived[k]) for k in idx)

    def rec(start):
        if window_ok(start, None):
            return True
        lo2 = lo if start is None else start + P
        for c in range(lo2, hi + 1):
            if window_ok(start, c) and rec(c):
                return True
        return False

    if origin is None:
        return rec(None)
    if min(adm) < origin:
        return False
    return rec(origin)
