"""Shared by C02 and C15: rate limiter scripts, trace decoding, generators."""
import itertools

DRIVER = "c02"
MODEL = "C02"
MODEL_QUALID = "Model.RateLimiter.run_script"
NCFG = 5
PER_EV = 4
FORMAT = ("script [window type 0=fixed 1=sliding log 2=sliding counter; limit; period_ms; timeout_ms; n; (op a b)*] "
          "op 1=Poll a 2=Drop a 3=Advance a(ms) 4=Complete a b(0 ok,1 err,2 panic) 5=Call a (create the call future without polling it). "
          "trace per event [r; started; in-flight; wake mask]; r: -1 no poll, 0 pending, 1 Ok, 2 Err(Inner), 3 RateLimited, 5 panicked, 9 nothing to poll")
TRUSTED = ["sliding counter: the binary64 weight/estimate arithmetic is modelled by exact integer/rational arithmetic; the two agree when refresh_period is a power of two milliseconds (all ratios dyadic, the 0.1 epsilon never lands on a boundary), which the generator guarantees for sliding-counter scripts",
           "tokio sleep (fires at the first whole millisecond at/after its deadline), std Mutex around the state (never held across an await), oneshot gate",
           "poll atomicity"]
ASSUMPTIONS = ["whole-millisecond instants", "limit_for_period >= 1, refresh_period > 0"]


def events(s):
    body = s[NCFG:]
    n = s[4]
    evs = [tuple(body[i:i + 3]) for i in range(0, len(body) - len(body) % 3, 3)]
    out = []
    for e in evs:
        if e[0] in (1, 2, 4, 5) and 0 <= e[1] < n:
            out.append(e)
        elif e[0] == 3:
            out.append(e)
    return out


def decode(s, t):
    evs = events(s)
    if len(t) != PER_EV * len(evs):
        return None
    return [(e, t[PER_EV * k:PER_EV * k + PER_EV]) for k, e in enumerate(evs)]


def corpus():
    out = []
    # the upstream defect: limit 2, period 100, timeout 250, 6 concurrent callers
    for wt, P in ((0, 100), (1, 100), (2, 128)):
        s = [wt, 2, P, 250, 6]
        for i in range(6):
            s += [1, i, 0]
        for k in range(3):
            s += [3, P, 0]
            for i in range(6):
                s += [1, i, 0]
        out.append(s)
    # arrivals exactly on the window boundary
    s = [0, 1, 50, 0, 4, 1, 0, 0, 3, 50, 0, 1, 1, 0, 1, 2, 0, 3, 49, 0, 1, 3, 0]
    out.append(s)
    # sliding log: limit+1 admissions must span the period
    s = [1, 2, 40, 100, 5, 1, 0, 0, 3, 10, 0, 1, 1, 0, 3, 10, 0, 1, 2, 0, 3, 19, 0, 1, 2, 0, 3, 1, 0, 1, 2, 0, 1, 3, 0]
    out.append(s)
    # sliding counter with a previous bucket: fractional waits
    s = [2, 2, 64, 200, 6, 1, 0, 0, 1, 1, 0, 3, 64, 0, 1, 2, 0, 1, 3, 0, 1, 4, 0]
    for _ in range(70):
        s += [3, 1, 0, 1, 3, 0, 1, 4, 0]
    out.append(s)
    # dropped while sleeping consumes nothing
    s = [0, 1, 30, 100, 4, 1, 0, 0, 1, 1, 0, 2, 1, 0, 3, 30, 0, 1, 2, 0, 1, 3, 0]
    out.append(s)
    return out


def random_script(rng, maxn=8, maxlen=50):
    wt = rng.choice([0, 0, 1, 1, 2, 2])
    P = rng.choice([16, 32, 64]) if wt == 2 else rng.choice([10, 20, 50, 64])
    limit = rng.choice([1, 1, 2, 2, 3, 4])
    timeout = rng.choice([0, 0, P // 2, P - 1, P, P + 1, 2 * P, 3 * P + 5])
    n = rng.randint(1, maxn)
    s = [wt, limit, P, timeout, n]
    L = rng.randint(3, maxlen)
    for _ in range(L):
        x = rng.random()
        if x < 0.51:
            s += [1, rng.randrange(n), 0]
        elif x < 0.55:
            s += [5, rng.randrange(n), 0]      # call() without a poll
        elif x < 0.62:
            s += [2, rng.randrange(n), 0]
        elif x < 0.88:
            s += [3, rng.choice([1, 1, 2, 3, 5, P // 2, P - 1, P, P, P + 1, 2 * P]), 0]
        else:
            s += [4, rng.randrange(n), rng.choice([0, 0, 1, 2])]
    return s


def burst_script(rng):
    """many callers arrive together, then time advances step by step with everyone polled at each step"""
    wt = rng.choice([0, 1, 2])
    P = rng.choice([16, 32]) if wt == 2 else rng.choice([10, 20, 32])
    limit = rng.choice([1, 2, 3])
    timeout = rng.choice([0, P // 2, P, 2 * P, 3 * P])
    n = rng.randint(2, 8)
    s = [wt, limit, P, timeout, n]
    order = list(range(n))
    for step in range(rng.randint(2, 3 * P + 5)):
        rng.shuffle(order)
        for i in order:
            if rng.random() < 0.8:
                s += [1, i, 0]
        if rng.random() < 0.05:
            s += [2, rng.randrange(n), 0]
        s += [3, rng.choice([1, 1, 1, 2, P // 2]), 0]
    return s


def idle_script(rng):
    """activity, then two idle periods, then limit fresh callers"""
    wt = rng.choice([0, 1, 2])
    P = rng.choice([16, 32]) if wt == 2 else rng.choice([10, 20])
    limit = rng.choice([1, 2, 3])
    n0 = rng.randint(1, 5)
    n = n0 + limit + 1
    s = [wt, limit, P, rng.choice([0, P, 2 * P]), n]
    for i in range(n0):
        s += [1, i, 0]
        if rng.random() < 0.5:
            s += [3, rng.choice([1, P // 2]), 0]
    s += [3, 2 * P + rng.choice([0, 0, 1, 7]), 0]
    for i in range(n0, n):
        s += [1, i, 0]
    return s


def generate(rng, tier):
    k = 1 if tier == "quick" else 12
    return ([random_script(rng) for _ in range(900 * k)] + [burst_script(rng) for _ in range(250 * k)] +
            [idle_script(rng) for _ in range(250 * k)])


def shrink(s):
    head, body = s[:NCFG], s[NCFG:]
    k = len(body) // 3
    for i in range(k):
        yield head + body[:3 * i] + body[3 * i + 3:]


def classify(s, t):
    out = [("fixed", "sliding_log", "sliding_counter")[min(s[0], 2)], "timeout_%s" % ("zero" if s[3] == 0 else "below" if s[3] < s[2] else "equal" if s[3] == s[2] else "above")]
    d = decode(s, t)
    if d:
        if any(o[0] == 3 for (_, o) in d):
            out.append("saw_rejection")
        polled = set()
        waited = False
        for (e, o) in d:
            if e[0] == 1:
                if e[1] in polled and o[1] == 1:
                    waited = True
                polled.add(e[1])
        if waited:
            out.append("admitted_after_waiting")
        if any(e[0] == 2 for (e, _) in d):
            out.append("has_cancel")
    return out


def nontrivial(s, t):
    d = decode(s, t)
    if not d:
        return True
    # somebody had to wait or was rejected
    return any((e[0] == 1 and o[0] == 0 and o[1] == 0) or o[0] == 3 for (e, o) in d)


def admissions(s, t):
    """list of (instant, caller) for every inner-call start, from the implementation trace"""
    d = decode(s, t)
    now, out = 0, []
    for (e, o) in d:
        if e[0] == 3:
            now += max(0, e[1])
        if e[0] == 1 and o[1] == 1:
            out.append((now, e[1]))
    return out
