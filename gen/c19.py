"""C19 chaos layer: generator, oracle plumbing (model_input), independent monitor.

The monitor states the PROPERTY only (reproducibility of two equally seeded instances, no inner call on an
injected error, transparency at both rates 0, failure at error rate 1, injected latency within the configured
bounds). Which draws are made, in which order, the k/2^53 grid of rand's floats, the listener events and the
first-poll reading of "order of requests" are pinned by the model-vs-implementation trace comparison
(`compare`), whose failure without a monitor failure is reported as `no-failing-input-found`."""
import os
import struct

PROP = "C19"
DRIVER = "c19"
MODEL = "C19"
MODEL_QUALID = "Model.Chaos.run_script"
FORMAT = ("script [flags: bit0 0=NoErrorInjection 1=CustomErrorFn, bits1-4 builder route (0 error_fn().error_rate(), "
          "1 error_rate().error_fn(), 2 all setters on ChaosConfigBuilderWithRate, 3 all setters after error_fn, "
          "4-7 mixed orders / overwritten values, 8-15 error_fn() called two or three times = the error function replaced "
          "before/after/between error_rate() calls); error_rate f64 bits; latency_rate f64 bits; min_latency; max_latency "
          "(v < 2^64: microseconds, v >= 2^64: v-2^64 nanoseconds); seed; tail_ms; n; (gap_ms, ik: bit0 inner 0 ok/1 err, "
          "bits1-2 first poll 0 at once/1 deferred past the next polled request/2,3 dropped unpolled, bits3.. ms the inner "
          "service takes; inner_val)*n] (model input = script ++ draw values logged by the implementation) -> "
          "trace [repro: bit0 two equally seeded instances driven in lock-step gave equal outcomes, bit1 equal draw logs, bit2 a "
          "third equally seeded instance built later and driven with other gaps and the opposite inner outcomes (same order, "
          "same first-poll discipline) made the same decisions; "
          "per request 15 ints: n_log, k0, k1, k2 (logged draw kinds 0 error roll/1 latency roll/2 delay, -1 pad), "
          "listener events error, latency, pass, reported delay ms (-1), inner_called, t_call, t_poll (-1 never), "
          "t_inner (-1), res_kind (0 Ok 1 Err -1 pending), res_val, t_done (-1); n_draws; draw values; n; per request the first "
          "8 ints of the record of a SECOND service built from the same layer value and driven afterwards (model only)]")
RULE = ("random configurations: rates from {0, -0, 1, 1/2, 2^-53, 2^-54, subnormal, 1-2^-53, >1, inf, negative, NaN, "
        "random in [0,1]} x latency bounds (min<max, min=max, min>max, same millisecond, zero, sub-millisecond, 40 ms..3 s, "
        "2^32+-1 ms, 49.7 days, u64::MAX ms, 2^64 ms and more (saturated), Duration::MAX) x 16 builder routes (8 of them replace the "
        "error function) x random and special seeds x 1..12 overlapping requests (and a class of 50-300 requests per instance) "
        " with ok/err/slow inner outcomes, polled at once / deferred (first polls out of call "
        "order) / dropped unpolled; the draw stream is the implementation's own log (oracle); rates exactly equal to / "
        "one ulp around the first roll of the seed; non-trivial = at least one error or latency injected")
TRUSTED = ["verif hook in /repo (feature verif-hooks): log_draw(kind, bits) after each RNG draw in chaos/src/service.rs",
           "gen/c19.py model_input: copies the logged draw values from the implementation trace to the model's oracle"]
ASSUMPTIONS = ["rand 0.9: Rng::random::<f64>() returns k/2^53 in [0,1) (src/distr/float.rs, multiply-based method) — "
               "checked on every logged roll by the correspondence comparison (gen/c19.py compare)",
               "rand 0.9: random_range(lo..=hi) returns a value in [lo, hi] — checked on every logged delay by the "
               "correspondence comparison; the property monitor checks the injected latency itself",
               "StdRng::seed_from_u64 is a deterministic function of the seed — checked by the lock-step instance pair",
               "reading of 'the chaos layer's sequence': per SERVICE. The crate seeds one generator per service built by layer() "
               "from the configuration, so a second service of the same layer value repeats the first one's sequence; the model "
               "pins that (trace tail, correspondence only). The monitor is silent on it: a layer-wide generator shared by the "
               "services of one layer value (one sequence per layer, continued across its services) is the other reading of the "
               "text and is reported as correspondence-only (seeded/C19-t4x)",
               "rates outside [0,1] are clamped by the builder; a NaN rate is outside the property's quantifier (modelled as the code behaves)",
               "a latency bound of 2^64 ms (584 million years) or more is saturated at u64::MAX ms by the service (fix 37727a1; "
               "Duration::from_millis cannot express more): '[min_latency, max_latency]' is read with min saturated there "
               "(theorem C19_latency_within_configured_bounds); such delays are observed through the listener / hook log and "
               "the pending state, the harness cannot wait for them"]

REC = 15
ONE = 0x3FF0000000000000
HALF = 0x3FE0000000000000
T64 = 1 << 64


def f2b(x):
    return struct.unpack("<Q", struct.pack("<d", x))[0]


def b2f(b):
    return struct.unpack("<d", struct.pack("<Q", b & 0xFFFFFFFFFFFFFFFF))[0]


def ms(x):
    """a Duration of x whole milliseconds in the script's bound encoding"""
    return x * 1000 if x * 1000 < T64 else T64 + x * 10 ** 6


SPECIAL_RATES = [0, 1 << 63, ONE, HALF, f2b(2.0 ** -53), f2b(2.0 ** -54), 1, 0x000FFFFFFFFFFFFF,
                 f2b(1.0 - 2.0 ** -53), f2b(2.0), 0x7FF0000000000000, f2b(-0.25), 0x7FF8000000000000,
                 f2b(0.1), f2b(0.9), f2b(0.25), f2b(0.75)]

# Duration::MAX = u64::MAX s + 999_999_999 ns; its as_millis() is 1000*2^64 - 1, which the u64 cast maps to 2^64 - 1
DURATION_MAX = T64 + (T64 - 1) * 10 ** 9 + 999999999

# Reproducers of the defect fixed in /repo by 37727a1 (found by this check): service.rs computed the bounds with
# `as_millis() as u64`; for bounds of 2^64 ms or more the cast wrapped and the injected latency was drawn from
# [min mod 2^64, max mod 2^64] ms, far BELOW min_latency ("injected latency 6 ms outside [2^64+5, 2^64+10]"). The fixed
# layer saturates both bounds at u64::MAX ms: the delay is u64::MAX ms (seen in the hook log and the listener), the
# request stays pending. seeded/C19-r3 is the reverse of the fix.
REPRODUCERS_37727a1 = [
    # [flags, erate, lrate = 1, min = 2^64+5 ms, max = 2^64+10 ms, seed, tail, n, one request]
    [0, 0, ONE, T64 + (T64 + 5) * 10 ** 6, T64 + (T64 + 10) * 10 ** 6, 7, 12, 1, 0, 0, 100],
    # min = 2^64 + 3 ms = max: the unfixed layer injected exactly 3 ms
    [0, 0, ONE, T64 + (T64 + 3) * 10 ** 6, T64 + (T64 + 3) * 10 ** 6, 7, 5, 1, 0, 0, 100],
    # only max beyond the u64 edge (fine before and after the fix unless max mod 2^64 < min), and only min beyond it
    [0, 0, ONE, 20000, T64 + (T64 + 7) * 10 ** 6, 7, 30, 2, 0, 0, 100, 1, 1, 101],
    [2, 0, ONE, T64 + (T64 + 40) * 10 ** 6, 9000, 7, 50, 2, 0, 0, 100, 1, 1, 101],
]
U64_MAX = T64 - 1

# Reproducers of the defect fixed in /repo by 7904406 (found by the second review): ChaosConfigBuilder::error_fn always
# built CustomErrorFn::new(f, 0.0); called on a builder that already had a rate (error_rate(1.0).error_fn(a).error_fn(b))
# it silently reset the error rate to 0, so a layer configured with error rate 1 let every call through. Routes 8-15
# of the harness replace the error function; seeded/C19-r5 is the reverse of the fix.
REPRODUCERS_7904406 = [
    # route 8 = error_rate(1.0).error_fn(decoy).error_fn(f): every call must fail
    [1 | (8 << 1), ONE, 0, 1000, 2000, 7, 5, 4, 0, 0, 100, 1, 1, 101, 0, 0, 102, 2, 0, 103],
    # route 9 = error_fn(decoy).error_rate(1.0).name("x").error_fn(f)
    [1 | (9 << 1), ONE, 0, 1000, 2000, 7, 5, 4, 0, 0, 100, 1, 1, 101, 0, 0, 102, 2, 0, 103],
    # route 11: rate overwritten between the replacements, error rate 1/2 and latency
    [1 | (11 << 1), HALF, HALF, 2000, 9000, 42, 20, 4, 0, 0, 100, 1, 1, 101, 0, 0, 102, 2, 0, 103],
]


def mk(flags, eb, lb, mn, mx, seed, tail, reqs):
    s = [flags, eb, lb, mn, mx, seed, tail, len(reqs)]
    for (g, k, v) in reqs:
        s += [g, k, v]
    return s


def ik(kind, mode=0, lat=0):
    return kind | (mode << 1) | (lat << 3)


def corpus():
    r4 = [(0, 0, 100), (1, 1, 101), (0, 0, 102), (3, 0, 103)]
    # first polls out of call order: 0 deferred, 1 at once (then 0), 2 dropped unpolled, 3 deferred, 4 deferred (flushed 4, 3)
    rp = [(0, ik(0, 1), 100), (1, ik(1, 0), 101), (0, ik(0, 2), 102), (2, ik(0, 1, 2), 103), (1, ik(1, 1), 104)]
    out = [
        mk(1, HALF, HALF, 2000, 9999, 42, 20, r4),
        mk(1, ONE, HALF, 0, 0, 7, 5, r4),                 # error rate 1
        mk(1, 0, 0, 5000, 1000, 7, 5, r4),                # both rates 0
        mk(0, ONE, 0, 5000, 1000, 7, 5, r4),              # no injector, latency rate 0
        mk(0, 0, ONE, 3000, 3000, 9, 8, r4),              # always latency, min = max
        mk(0, 0, ONE, 7000, 2000, 9, 12, r4),             # min > max
        mk(0, 0, ONE, 2100, 2900, 9, 12, r4),             # same millisecond after truncation
        mk(1, 0x7FF8000000000000, ONE, 1000, 4000, 3, 6, r4),  # NaN error rate
        mk(1, f2b(0.3), f2b(0.6), 1000, 30000, 2 ** 64 - 1, 2, r4),  # requests still sleeping at the end
        mk(1 | (1 << 1), f2b(0.3), f2b(0.6), 1000, 30000, 42, 35, r4),   # error_rate().error_fn()
        mk(1 | (2 << 1), f2b(0.3), f2b(0.6), 1000, 30000, 42, 35, r4),   # all on ChaosConfigBuilderWithRate
        mk(1, f2b(0.4), f2b(0.7), 1000, 6000, 11, 10, rp),               # deferred / dropped first polls
        mk(0, 0, ONE, ms(2 ** 32 - 1), ms(2 ** 32 + 1), 5, 3, r4),       # 49.7-day bounds around the u32 edge
        mk(0, 0, ONE, ms(10), DURATION_MAX, 5, 3, r4),                   # max_latency = Duration::MAX
        mk(0, 0, ONE, ms(60), ms(400), 5, 420, r4),                      # bounds above 40 ms, observed in full
        mk(0, 0, 0, 1000, 2000, 5, 6, [(0, ik(0, 0, 3), 100), (1, ik(1, 0, 9), 101)]),  # slow inner, transparent
    ]
    out += [list(s) for s in REPRODUCERS_37727a1]
    out += [list(s) for s in REPRODUCERS_7904406]
    out.append(mk(1, HALF, HALF, 2000, 9000, 42, 20, [(0, 0, 100 + i) for i in range(40)]))   # 40 requests (review 2, D1)
    return out


def rand_rate(rng):
    c = rng.random()
    if c < 0.5:
        return rng.choice(SPECIAL_RATES)
    if c < 0.9:
        return f2b(rng.random())
    return f2b(rng.choice([0.0, 1.0, rng.random() * 1e-3, 1.0 - rng.random() * 1e-3]))


def rand_bounds(rng):
    c = rng.randrange(10)
    a = rng.randrange(0, 12000)
    b = rng.randrange(0, 40000)
    if c == 0:
        return a, a                       # equal
    if c == 1:
        return max(a, b), min(a, b)       # min >= max
    if c == 2:
        m = rng.randrange(0, 10)
        return m * 1000 + rng.randrange(1000), m * 1000 + rng.randrange(1000)  # same ms
    if c == 3:
        return 0, rng.randrange(0, 3000)
    if c == 4:
        m = rng.randrange(0, 10)
        return m * 1000 + 999, (m + 1) * 1000   # adjacent ms
    if c == 5:
        # whole milliseconds (the property's quantifier), given in the nanosecond encoding as well
        x, y = rng.randrange(0, 30), rng.randrange(0, 30)
        return (T64 + x * 10 ** 6, T64 + y * 10 ** 6) if rng.random() < 0.5 else (x * 1000, y * 1000)
    if c == 6:
        # huge bounds: the u32 edge, 49.7 days, the u64 edge and beyond (saturated by the layer), Duration::MAX
        big = [ms(2 ** 32 - 1), ms(2 ** 32), ms(2 ** 32 + 1), ms(4294967296 + rng.randrange(1000)),
               ms(2 ** 63), ms(2 ** 64 - 2), ms(2 ** 64 - 1), DURATION_MAX, T64 + (2 ** 64 - 1) * 10 ** 6 + 999999,
               ms(2 ** 64), ms(2 ** 64 + 5), ms(2 ** 64 + 10), ms(2 ** 64 + rng.randrange(50)), ms(3 * 2 ** 64 + 7),
               ms(2 ** 65 + rng.randrange(30))]
        x = rng.choice(big)
        y = rng.choice(big + [ms(rng.randrange(50)), x])
        return (x, y) if rng.random() < 0.5 else (y, x)
    return min(a, b), max(a, b)


def rand_req(rng, polls):
    g = rng.choice([0, 0, 0, 1, 1, 2, 5])
    mode = 0
    lat = 0
    if polls:
        mode = rng.choice([0, 0, 0, 1, 1, 2])
        lat = rng.choice([0, 0, 0, 1, 3, 20])
    return (g, ik(rng.randrange(2), mode, lat), rng.randrange(-50, 1000))


def rand_script(rng, nmax=12):
    inj = 1 if rng.random() < 0.75 else 0
    route = rng.randrange(16) if rng.random() < 0.6 else 0
    eb, lb = rand_rate(rng), rand_rate(rng)
    mn, mx = rand_bounds(rng)
    seed = rng.choice([0, 1, 42, 2 ** 64 - 1, rng.getrandbits(64), rng.getrandbits(64), rng.getrandbits(20)])
    n = rng.randrange(1, nmax + 1)
    polls = rng.random() < 0.5
    reqs = [rand_req(rng, polls) for _ in range(n)]
    tail = rng.choice([0, 1, 5, 45, 45, 45])
    return mk(inj | (route << 1), eb, lb, mn, mx, seed, tail, reqs)


def long_script(rng):
    """bounds between 40 ms and 3 s with a tail long enough to see the whole sleep"""
    lo = rng.randrange(40, 1500)
    hi = rng.choice([lo, lo + rng.randrange(1, 1500), max(0, lo - rng.randrange(1, 40))])
    n = rng.randrange(1, 5)
    reqs = [(rng.choice([0, 1, 7]), ik(rng.randrange(2), rng.choice([0, 0, 1]), rng.choice([0, 0, 5])), rng.randrange(-50, 1000))
            for _ in range(n)]
    tail = rng.choice([max(lo, hi) + 10, max(lo, hi) + 10, min(lo, hi) + 1, 30])
    inj = rng.randrange(2)
    return mk(inj | (rng.randrange(16) << 1), rng.choice([0, f2b(0.2)]), rng.choice([ONE, f2b(0.8)]),
              ms(lo), ms(hi), rng.getrandbits(64), tail, reqs)


def probe_first_draw(scripts):
    """runs the real driver to learn the first logged draw of each script (None if unavailable)"""
    import subprocess
    root = os.path.dirname(os.path.dirname(os.path.abspath(__file__)))
    exe = os.path.join(os.environ.get("VERIF_TARGET_DIR", os.path.join(root, "harness", "target")), "release", DRIVER)
    if not os.path.exists(exe) or not scripts:
        return [None] * len(scripts)
    try:
        r = subprocess.run([exe], input="\n".join(" ".join(map(str, s)) for s in scripts) + "\n",
                           stdout=subprocess.PIPE, stderr=subprocess.DEVNULL, text=True, timeout=120)
        res = []
        for s, l in zip(scripts, r.stdout.split("\n")):
            d = decode(s, [int(x) for x in l.split()])
            res.append(d[2][0] if d and d[2] else None)
        return res + [None] * (len(scripts) - len(res))
    except Exception:
        return [None] * len(scripts)


def boundary_scripts(rng, k):
    """rates equal to (and one ulp above) the first roll the seeded RNG will produce: the comparisons
    roll < rate / roll >= rate are exercised exactly at equality. The first roll is learnt by running
    the real driver once with rate 1 (a probe; it only chooses inputs, the check itself is unchanged)."""
    r3 = [(0, 0, 10), (1, 1, 11), (0, 0, 12)]
    seeds = [rng.getrandbits(64) for _ in range(k)]
    probes_e = [mk(1, ONE, 0, 2000, 6000, sd, 8, r3) for sd in seeds]
    probes_l = [mk(0, 0, ONE, 2000, 6000, sd, 8, r3) for sd in seeds]
    out = []
    for sd, be, bl in zip(seeds, probe_first_draw(probes_e), probe_first_draw(probes_l)):
        if be is not None and be > 0:
            for eb in (be, be + 1, be - 1):
                out.append(mk(1, eb, 0, 2000, 6000, sd, 8, r3))
                out.append(mk(1, eb, ONE, 2000, 6000, sd, 8, r3))
        if bl is not None and bl > 0:
            for lb in (bl, bl + 1, bl - 1):
                out.append(mk(0, 0, lb, 2000, 6000, sd, 8, r3))
    return out


def many_requests_script(rng):
    """50-300 requests per instance (cheap: gaps 0/1 ms, virtual time): reproducibility far beyond the first dozen
    decisions, e.g. a generator that is re-created every 16th decision"""
    n = rng.randrange(50, 301)
    polls = rng.random() < 0.4
    reqs = []
    for _ in range(n):
        mode = rng.choice([0, 0, 0, 0, 1, 2]) if polls else 0
        reqs.append((rng.choice([0, 0, 0, 1]), ik(rng.randrange(2), mode, rng.choice([0, 0, 2])), rng.randrange(-50, 1000)))
    eb = rng.choice([HALF, f2b(0.3), f2b(0.05), f2b(0.9), ONE, 0])
    lb = rng.choice([HALF, f2b(0.3), f2b(0.05), ONE, 0])
    mn, mx = rng.choice([(0, 3000), (1000, 9000), (2000, 2000), (5000, 1000), (0, 0)])
    inj = 1 if rng.random() < 0.8 else 0
    return mk(inj | (rng.randrange(16) << 1), eb, lb, mn, mx, rng.getrandbits(64), rng.choice([0, 12]), reqs)


def route_scripts(rng, k):
    """every builder route x both injector kinds, same configuration and seed: every route configures the same
    layer, so the traces of the sixteen routes must all equal the model's; error rate 1 in a third of the cells"""
    out = []
    r3 = [(0, 0, 10), (1, ik(1, 1), 11), (0, 0, 12), (2, ik(0, 0, 2), 13)]
    for j in range(k):
        eb, lb = rand_rate(rng), rand_rate(rng)
        if j % 3 == 0:
            eb = ONE
        mn, mx = rand_bounds(rng)
        sd = rng.getrandbits(64)
        for inj in (0, 1):
            for route in range(16):
                out.append(mk(inj | (route << 1), eb, lb, mn, mx, sd, 45, r3))
    return out


def generate(rng, tier):
    out = boundary_scripts(rng, 40 if tier == "quick" else 400)
    out += route_scripts(rng, 12 if tier == "quick" else 150)
    r2 = [(0, 0, 10), (0, 1, 11), (2, 0, 12)]
    # grid of the special rates (both injector kinds) with a few bounds
    grid = SPECIAL_RATES if tier == "thorough" else SPECIAL_RATES[:9] + [SPECIAL_RATES[12]]
    for inj in (0, 1):
        for eb in grid:
            for lb in grid:
                for (mn, mx) in ((2000, 5999), (3000, 3000), (4000, 1000)):
                    if tier == "quick" and (inj == 0 and eb != 0) and mn != 2000:
                        continue
                    out.append(mk(inj, eb, lb, mn, mx, rng.getrandbits(64), 8, r2))
    for _ in range(30 if tier == "quick" else 600):
        out.append(long_script(rng))
    for _ in range(40 if tier == "quick" else 600):
        out.append(many_requests_script(rng))
    n = 1200 if tier == "quick" else 40000
    for _ in range(n):
        out.append(rand_script(rng))
    return out


def extended(rng, mism):
    """search for a concrete failing input after a correspondence mismatch"""
    out = boundary_scripts(rng, 100) + route_scripts(rng, 60)
    out += [long_script(rng) for _ in range(200)]
    out += [many_requests_script(rng) for _ in range(200)]
    out += [rand_script(rng) for _ in range(8000)]
    return out


def decode(s, t):
    if len(s) < 8:
        return None
    n = s[7]
    if len(t) < 2 + REC * n or len(s) < 8 + 3 * n:
        return None
    recs = [t[1 + REC * i: 1 + REC * (i + 1)] for i in range(n)]
    nd = t[1 + REC * n]
    bits = t[2 + REC * n:2 + REC * n + nd]
    rest = t[2 + REC * n + nd:]
    # rest = [n; 8 ints per request]: the second service built from the same layer value (not judged by the monitor)
    if len(bits) != nd or len(rest) != 1 + 8 * n or rest[0] != n:
        return None
    return t[0], recs, bits


def model_input(s, t):
    """oracle: the draw values the implementation logged are appended to the script"""
    n = s[7] if len(s) >= 8 else 0
    base = list(s[:8 + 3 * n])
    d = decode(s, t)
    return base + (list(d[2]) if d else [])


def clamp01(x):
    if x < 0.0:
        return 0.0
    if x > 1.0:
        return 1.0
    return x     # NaN and -0.0 unchanged, as f64::clamp


def dur_ns(v):
    return v * 1000 if v < T64 else v - T64


def floor_ms(v):
    return dur_ns(v) // 10 ** 6


def ceil_ms(v):
    return -((-dur_ns(v)) // 10 ** 6)


def monitor(s, t):
    """independent restatement of C19 over the implementation's trace (Python floats, no Coq decoding).
    Only the clauses of the property; both readings of "order of requests" / "start of the injected latency"
    (call() or first poll) are accepted."""
    d = decode(s, t)
    if d is None:
        return "malformed or panicking run: %s" % t[:12]
    repro, recs, bits = d
    flags, eb, lb, mn, mx, seed, tail, n = s[:8]
    inj = flags & 1
    # (a) reproducible: two equally seeded instances, same order of requests -> same decisions, latencies, results
    if repro & 1 != 1:
        return "two equally seeded instances driven in lock-step diverged (decisions, latencies or outcomes differ)"
    if repro & 4 != 4:
        return ("an equally seeded instance given the same requests in the same order, but built at another instant, with "
                "other gaps between the requests and other inner outcomes, made different decisions")
    er = clamp01(b2f(eb)) if inj else 0.0
    lr = clamp01(b2f(lb))
    # [min_latency, max_latency] in whole ms; bounds that are not whole ms (outside the quantifier) are widened
    # to the enclosing whole milliseconds; min > max: either order; the layer expresses a delay in u64 milliseconds, so
    # the lower bound is read as min(min_latency, u64::MAX ms)
    lo = min(floor_ms(mn), floor_ms(mx), U64_MAX)
    hi = max(ceil_ms(mn), ceil_ms(mx))
    t_end = sum(max(0, s[8 + 3 * i]) for i in range(n)) + max(0, tail)
    both_zero = er == 0.0 and lr == 0.0
    t_prev = 0
    for i, r in enumerate(recs):
        nlog, k0, k1, k2, e_err, e_lat, e_pass, rep, called, t_call, t_poll, t_inner, rk, rv, t_done = r
        ikf, iv = s[8 + 3 * i + 1], s[8 + 3 * i + 2]
        kind, mode, ilat = ikf & 1, (ikf >> 1) & 3, max(0, ikf >> 3)
        if t_call != t_prev + max(0, s[8 + 3 * i]):
            return "request %d created at %d" % (i, t_call)
        t_prev = t_call
        if rk == -2:
            return "request %d panicked" % i
        if mode >= 2:
            if t_poll != -1 or rk != -1:
                return "request %d was dropped unpolled but has a result" % i
            continue        # a future that is never polled: the property says nothing about it
        if t_poll < t_call:
            return "request %d: first poll at %d before its creation" % (i, t_poll)
        inb = lambda x: lo <= x <= hi
        injected = e_err > 0 or (rk == 1 and rv == i + 7000)
        # (b) an injected error means the wrapped service is not called
        if injected and called != 0:
            return "request %d: injected error but the inner service was called" % i
        # (d) error rate 1: every call fails
        if inj and er >= 1.0 and rk == 0:
            return "request %d: error rate 1 but the request was not failed" % i
        if e_lat > 0 and not inb(rep):
            return "request %d: injected latency %d ms outside [%d, %d]" % (i, rep, lo, hi)
        if rk in (0, 1) and not injected:
            # passed (possibly after an injected latency): the inner service answered this request
            if called != 1:
                return "request %d: completed with %d inner calls" % (i, called)
            if (rk, rv) != (kind, iv):
                return "request %d: inner result (%d,%d) was changed to (%d,%d)" % (i, kind, iv, rk, rv)
            # (e) the latency the layer added, measured in virtual time from the first poll or from call()
            a1, a2 = t_done - ilat - t_poll, t_done - ilat - t_call
            slept_before_poll = a1 == 0 and lo <= t_poll - t_call
            if e_lat > 0:
                ok = inb(a1) or inb(a2) or slept_before_poll
            else:
                ok = a1 == 0 or inb(a1) or inb(a2)
            if not ok:
                return "request %d: latency %d ms outside [%d, %d]" % (i, a1, lo, hi)
        elif rk == -1:
            # not finished when the run ends: only a latency within the bounds (and the inner service's own time) can explain it
            room = 0 if both_zero else max(hi, 0)
            if t_poll + room + ilat <= t_end:
                return "request %d: still pending at %d, polled at %d, max latency %d ms, inner takes %d ms" % (
                    i, t_end, t_poll, room, ilat)
            if called > 1:
                return "request %d: %d inner calls" % (i, called)
        # (c) both rates 0: transparent
        if both_zero:
            if e_err or e_lat or injected:
                return "request %d: both rates 0 but chaos was injected" % i
            if called != 1 or t_inner != t_poll:
                return "request %d: both rates 0 but the layer is not transparent (inner called %d times at %d, polled at %d)" % (
                    i, called, t_inner, t_poll)
            if t_poll + ilat <= t_end and ((rk, rv) != (kind, iv) or t_done != t_poll + ilat):
                return "request %d: both rates 0 but the layer is not transparent" % i
    return None


def poll_order(s):
    """indices of the requests in the order of their first polls (the harness's discipline)"""
    order, deferred = [], []
    for i in range(s[7]):
        mode = (s[8 + 3 * i + 1] >> 1) & 3
        if mode == 0:
            order.append(i)
            order += deferred[::-1]
            deferred = []
        elif mode == 1:
            deferred.append(i)
    return order + deferred[::-1]


def compare(s, a, b):
    """correspondence: equal traces, and the assumptions on `rand` hold for every logged draw (a failure here
    without a monitor failure is reported as no-failing-input-found)"""
    if a != b:
        return "traces differ"
    d = decode(s, a)
    if d is None:
        return None
    _, recs, bits = d
    lo, hi = min(floor_ms(s[3]), U64_MAX), min(floor_ms(s[4]), U64_MAX)
    pos = 0
    for i in poll_order(s):
        r = recs[i]
        nlog = r[0]
        for k, v in zip(r[1:1 + nlog], bits[pos:pos + nlog]):
            if k in (0, 1):
                x = b2f(v)
                if not (0.0 <= x < 1.0) or x * 2.0 ** 53 != int(x * 2.0 ** 53):
                    return "request %d: roll %r outside [0,1) or not a multiple of 2^-53 (assumption on rand)" % (i, x)
            elif k == 2 and lo < hi and not (lo <= v <= hi):
                return "request %d: random_range(%d..=%d) returned %d (assumption on rand)" % (i, lo, hi, v)
        pos += nlog
    return None


def nontrivial(s, t):
    d = decode(s, t)
    return bool(d) and any(r[4] or r[5] for r in d[1])


def rate_class(b, inj=1):
    if not inj:
        return "none"
    x = b2f(b)
    if x != x:
        return "nan"
    if x <= 0.0:
        return "0" if x == 0.0 else "neg"
    if x >= 1.0:
        return "1" if x == 1.0 else "gt1"
    return "tiny" if x < 1e-9 else "mid"


def classify(s, t):
    out = ["erate_" + rate_class(s[1], s[0] & 1), "lrate_" + rate_class(s[2]), "route_%d" % ((s[0] >> 1) & 15)]
    out.append("requests_" + ("le12" if s[7] <= 12 else "50to300"))
    if s[0] & 1 and (s[0] >> 1) & 15 >= 8:
        out.append("error_fn_replaced")
    lo, hi = floor_ms(s[3]), floor_ms(s[4])
    out.append("range_" + ("lt" if lo < hi else "eq" if lo == hi else "gt"))
    m = max(lo, hi)
    out.append("bounds_" + ("le40ms" if m <= 40 else "le3s" if m <= 3000 else "lt2^32ms" if m < 2 ** 32 else
                            "huge" if m < T64 else "saturated"))
    if dur_ns(s[3]) % 10 ** 6 or dur_ns(s[4]) % 10 ** 6:
        out.append("bounds_sub_ms")
    n = s[7]
    modes = [(s[8 + 3 * i + 1] >> 1) & 3 for i in range(n)]
    if any(m == 1 for m in modes):
        out.append("deferred_first_poll")
    if any(m >= 2 for m in modes):
        out.append("dropped_unpolled")
    if any((s[8 + 3 * i + 1] >> 3) > 0 for i in range(n)):
        out.append("slow_inner")
    d = decode(s, t)
    if d:
        recs = d[1]
        if any(r[4] for r in recs):
            out.append("some_error")
        if any(r[5] for r in recs):
            out.append("some_latency")
        if any(r[6] for r in recs):
            out.append("some_pass")
        if any(r[12] == -1 and r[10] >= 0 for r in recs):
            out.append("pending_at_end")
        if any(r[5] and r[12] in (0, 1) and r[7] > 40 for r in recs):
            out.append("latency_gt40ms_observed")
        if any(recs[i][11] > recs[j][10] >= 0 for i in range(len(recs)) for j in range(i + 1, len(recs))):
            out.append("overlapping_requests")
    return out


def shrink(s):
    n = s[7]
    if n > 1:
        yield s[:7] + [n - 1] + s[8:8 + 3 * (n - 1)]
        yield s[:7] + [n - 1] + s[11:8 + 3 * n]
    for i in range(n):
        if s[8 + 3 * i] > 0:
            c = list(s[:8 + 3 * n]); c[8 + 3 * i] = 0
            yield c
        if s[8 + 3 * i + 1] > 1:
            c = list(s[:8 + 3 * n]); c[8 + 3 * i + 1] &= 1
            yield c
    if s[0] > 1:
        c = list(s[:8 + 3 * n]); c[0] &= 1
        yield c
    if s[6] > 0:
        c = list(s[:8 + 3 * n]); c[6] = s[6] // 2
        yield c
