"""C19 chaos layer: generator, oracle plumbing (model_input), independent monitor."""
import struct

PROP = "C19"
DRIVER = "c19"
MODEL = "C19"
MODEL_QUALID = "Model.Chaos.run_script"
FORMAT = ("script [inj_kind 0=NoErrorInjection 1=CustomErrorFn; error_rate f64 bits; latency_rate f64 bits; "
          "min_latency us; max_latency us; seed; tail_ms; n; (gap_ms, inner_kind 0 ok/1 err, inner_val)*n] "
          "(model input = script ++ draw values logged by the implementation) -> "
          "trace [repro flag of two equally seeded instances driven in lock-step; per request 14 ints: n_log, "
          "k0, k1, k2 (logged draw kinds 0 error roll/1 latency roll/2 delay, -1 pad), listener events error, "
          "latency, pass, reported delay ms (-1), inner_called, t_issue, t_inner (-1), res_kind (0 Ok 1 Err -1 "
          "pending), res_val, t_done (-1); n_draws; draw values]")
RULE = ("random configurations: rates from {0, -0, 1, 1/2, 2^-53, 2^-54, subnormal, 1-2^-53, >1, inf, negative, NaN, "
        "random in [0,1]} x latency bounds in microseconds (min<max, min=max, min>max, same millisecond, zero) x "
        "random and special seeds x 1..12 overlapping requests with ok/err inner outcomes; the draw stream is the "
        "implementation's own log (oracle); rates exactly equal to / one ulp around the first roll of the seed; non-trivial = at least one error or latency injected")
TRUSTED = ["verif hook in /repo (feature verif-hooks): log_draw(kind, bits) after each RNG draw in chaos/src/service.rs",
           "gen/c19.py model_input: copies the logged draw values from the implementation trace to the model's oracle"]
ASSUMPTIONS = ["rand 0.9: Rng::random::<f64>() returns k/2^53 in [0,1) (src/distr/float.rs, multiply-based method) — "
               "checked by the monitor on every logged roll",
               "rand 0.9: random_range(lo..=hi) returns a value in [lo, hi] — checked by the monitor on every logged delay",
               "StdRng::seed_from_u64 is a deterministic function of the seed — checked by the lock-step instance pair",
               "rates outside [0,1] are clamped by the builder; a NaN rate is outside the property's quantifier (modelled as the code behaves)"]

REC = 14
ONE = 0x3FF0000000000000
HALF = 0x3FE0000000000000


def f2b(x):
    return struct.unpack("<Q", struct.pack("<d", x))[0]


def b2f(b):
    return struct.unpack("<d", struct.pack("<Q", b & 0xFFFFFFFFFFFFFFFF))[0]


SPECIAL_RATES = [0, 1 << 63, ONE, HALF, f2b(2.0 ** -53), f2b(2.0 ** -54), 1, 0x000FFFFFFFFFFFFF,
                 f2b(1.0 - 2.0 ** -53), f2b(2.0), 0x7FF0000000000000, f2b(-0.25), 0x7FF8000000000000,
                 f2b(0.1), f2b(0.9), f2b(0.25), f2b(0.75)]


def mk(inj, eb, lb, mn, mx, seed, tail, reqs):
    s = [inj, eb, lb, mn, mx, seed, tail, len(reqs)]
    for (g, k, v) in reqs:
        s += [g, k, v]
    return s


def corpus():
    r4 = [(0, 0, 100), (1, 1, 101), (0, 0, 102), (3, 0, 103)]
    return [
        mk(1, HALF, HALF, 2000, 9999, 42, 20, r4),
        mk(1, ONE, HALF, 0, 0, 7, 5, r4),                 # error rate 1
        mk(1, 0, 0, 5000, 1000, 7, 5, r4),                # both rates 0
        mk(0, ONE, 0, 5000, 1000, 7, 5, r4),              # no injector, latency rate 0
        mk(0, 0, ONE, 3000, 3000, 9, 8, r4),              # always latency, min = max
        mk(0, 0, ONE, 7000, 2000, 9, 12, r4),             # min > max
        mk(0, 0, ONE, 2100, 2900, 9, 12, r4),             # same millisecond after truncation
        mk(1, 0x7FF8000000000000, ONE, 1000, 4000, 3, 6, r4),  # NaN error rate
        mk(1, f2b(0.3), f2b(0.6), 1000, 30000, 2 ** 64 - 1, 2, r4),  # requests still sleeping at the end
    ]


def rand_rate(rng):
    c = rng.random()
    if c < 0.5:
        return rng.choice(SPECIAL_RATES)
    if c < 0.9:
        return f2b(rng.random())
    return f2b(rng.choice([0.0, 1.0, rng.random() * 1e-3, 1.0 - rng.random() * 1e-3]))


def rand_bounds(rng):
    c = rng.randrange(7)
    a = rng.randrange(0, 12000)
    b = rng.randrange(0, 40000)
    if c == 0:
        return a, a                       # equal
    if c == 1:
        return max(a, b), min(a, b)       # min >= max
    if c == 2:
        ms = rng.randrange(0, 10)
        return ms * 1000 + rng.randrange(1000), ms * 1000 + rng.randrange(1000)  # same ms
    if c == 3:
        return 0, rng.randrange(0, 3000)
    if c == 4:
        ms = rng.randrange(0, 10)
        return ms * 1000 + 999, (ms + 1) * 1000   # adjacent ms
    return min(a, b), max(a, b)


def rand_script(rng, nmax=12):
    inj = 1 if rng.random() < 0.75 else 0
    eb, lb = rand_rate(rng), rand_rate(rng)
    mn, mx = rand_bounds(rng)
    seed = rng.choice([0, 1, 42, 2 ** 64 - 1, rng.getrandbits(64), rng.getrandbits(64), rng.getrandbits(20)])
    n = rng.randrange(1, nmax + 1)
    reqs = [(rng.choice([0, 0, 0, 1, 1, 2, 5]), rng.randrange(2), rng.randrange(-50, 1000)) for _ in range(n)]
    tail = rng.choice([0, 1, 5, 45, 45, 45])
    return mk(inj, eb, lb, mn, mx, seed, tail, reqs)


def probe_first_draw(scripts):
    """runs the real driver to learn the first logged draw of each script (None if unavailable)"""
    import os, subprocess
    root = os.path.dirname(os.path.dirname(os.path.abspath(__file__)))
    exe = os.path.join(os.environ.get("VERIF_TARGET_DIR", os.path.join(root, "harness", "target")), "release", DRIVER)
    if not os.path.exists(exe) or not scripts:
        return [None] * len(scripts)
    try:
        r = subprocess.run([exe], input="\n".join(" ".join(map(str, s)) for s in scripts) + "\n",
                           stdout=subprocess.PIPE, stderr=subprocess.DEVNULL, text=True, timeout=120)
        res = []
        for s, l in zip(scripts, r.stdout.split("\n")):
            d = decode(s, [int(x) for x in l.split()])
            res.append(d[2][0] if d and d[2] else None)
        return res + [None] * (len(scripts) - len(res))
    except Exception:
        return [None] * len(scripts)


def boundary_scripts(rng, k):
    """rates equal to (and one ulp above) the first roll the seeded RNG will produce: the comparisons
    roll < rate / roll >= rate are exercised exactly at equality. The first roll is learnt by running
    the real driver once with rate 1 (a probe; it only chooses inputs, the check itself is unchanged)."""
    r3 = [(0, 0, 10), (1, 1, 11), (0, 0, 12)]
    seeds = [rng.getrandbits(64) for _ in range(k)]
    probes_e = [mk(1, ONE, 0, 2000, 6000, sd, 8, r3) for sd in seeds]
    probes_l = [mk(0, 0, ONE, 2000, 6000, sd, 8, r3) for sd in seeds]
    out = []
    for sd, be, bl in zip(seeds, probe_first_draw(probes_e), probe_first_draw(probes_l)):
        if be is not None and be > 0:
            for eb in (be, be + 1, be - 1):
                out.append(mk(1, eb, 0, 2000, 6000, sd, 8, r3))
                out.append(mk(1, eb, ONE, 2000, 6000, sd, 8, r3))
        if bl is not None and bl > 0:
            for lb in (bl, bl + 1, bl - 1):
                out.append(mk(0, 0, lb, 2000, 6000, sd, 8, r3))
    return out


def generate(rng, tier):
    out = boundary_scripts(rng, 40 if tier == "quick" else 400)
    r2 = [(0, 0, 10), (0, 1, 11), (2, 0, 12)]
    # grid of the special rates (both injector kinds) with a few bounds
    grid = SPECIAL_RATES if tier == "thorough" else SPECIAL_RATES[:9] + [SPECIAL_RATES[12]]
    for inj in (0, 1):
        for eb in grid:
            for lb in grid:
                for (mn, mx) in ((2000, 5999), (3000, 3000), (4000, 1000)):
                    if tier == "quick" and (inj == 0 and eb != 0) and mn != 2000:
                        continue
                    out.append(mk(inj, eb, lb, mn, mx, rng.getrandbits(64), 8, r2))
    n = 1200 if tier == "quick" else 40000
    for _ in range(n):
        out.append(rand_script(rng))
    return out


def decode(s, t):
    if len(s) < 8:
        return None
    n = s[7]
    if len(t) < 2 + REC * n or len(s) < 8 + 3 * n:
        return None
    recs = [t[1 + REC * i: 1 + REC * (i + 1)] for i in range(n)]
    nd = t[1 + REC * n]
    bits = t[2 + REC * n:]
    if len(bits) != nd:
        return None
    return t[0], recs, bits


def model_input(s, t):
    """oracle: the draw values the implementation logged are appended to the script"""
    n = s[7] if len(s) >= 8 else 0
    base = list(s[:8 + 3 * n])
    d = decode(s, t)
    return base + (list(d[2]) if d else [])


def clamp01(x):
    if x < 0.0:
        return 0.0
    if x > 1.0:
        return 1.0
    return x     # NaN and -0.0 unchanged, as f64::clamp


def monitor(s, t):
    """independent restatement of C19 over the implementation's trace (Python floats, no Coq decoding)"""
    d = decode(s, t)
    if d is None:
        return "malformed or panicking run: %s" % t[:12]
    repro, recs, bits = d
    inj, eb, lb, mn_us, mx_us, seed, tail, n = s[:8]
    if repro != 1:
        return "two equally seeded instances driven in lock-step diverged (draw logs or outcomes differ)"
    er = clamp01(b2f(eb)) if inj else 0.0
    lr = clamp01(b2f(lb))
    lo, hi = mn_us // 1000, mx_us // 1000
    t_end = sum(max(0, s[8 + 3 * i]) for i in range(n)) + max(0, tail)
    pos = 0
    t_prev = 0
    for i, r in enumerate(recs):
        nlog, k0, k1, k2, e_err, e_lat, e_pass, rep, called, t_issue, t_inner, rk, rv, t_done = r
        kinds = [k for k in (k0, k1, k2) if k != -1]
        ik, iv = s[8 + 3 * i + 1], s[8 + 3 * i + 2]
        if t_issue != t_prev + max(0, s[8 + 3 * i]):
            return "request %d issued at %d" % (i, t_issue)
        t_prev = t_issue
        if nlog != len(kinds) or nlog > 3:
            return "request %d: draw log %s" % (i, r[:4])
        mine = bits[pos:pos + nlog]
        pos += nlog
        if len(mine) != nlog:
            return "draw log shorter than the per-request counts"
        if e_err + e_lat + e_pass != 1 or min(e_err, e_lat, e_pass) < 0:
            return "request %d: exactly one of error/latency/pass must be reported, got %s" % (i, r[4:7])
        # --- draw discipline and decisions, restated with IEEE doubles ---
        exp_kinds = []
        j = 0
        eroll = 1.0
        if er > 0.0:
            exp_kinds.append(0)
            if kinds[:1] != [0]:
                return "request %d: error rate > 0 but no error roll drawn first (%s)" % (i, kinds)
            eroll = b2f(mine[0]); j = 1
            if not (0.0 <= eroll < 1.0) or eroll * 2.0 ** 53 != int(eroll * 2.0 ** 53):
                return "error roll outside [0,1) or not a multiple of 2^-53"
        want_err = bool(inj) and eroll < er
        if want_err != (e_err == 1):
            return "request %d: error roll %r vs rate %r but error injected = %d" % (i, eroll, er, e_err)
        want_lat = False
        if lr > 0.0 and eroll >= er:
            exp_kinds.append(1)
            if kinds[j:j + 1] != [1]:
                return "request %d: latency roll expected, log kinds %s" % (i, kinds)
            lroll = b2f(mine[j]); j += 1
            if not (0.0 <= lroll < 1.0):
                return "latency roll outside [0,1)"
            want_lat = lroll < lr
            if want_lat:
                exp_kinds.append(2)
                if kinds[j:j + 1] != [2]:
                    return "request %d: delay entry expected, log kinds %s" % (i, kinds)
                dl = mine[j]; j += 1
                if not (min(lo, hi) <= dl <= max(lo, hi)):
                    return "request %d: injected latency %d ms outside [%d, %d]" % (i, dl, min(lo, hi), max(lo, hi))
                if hi <= lo and dl != lo:
                    return "request %d: max <= min but delay %d != min %d" % (i, dl, lo)
                if rep != dl:
                    return "request %d: listener reported %d ms, drawn %d ms" % (i, rep, dl)
        if kinds != exp_kinds:
            return "request %d: draws %s, specified %s" % (i, kinds, exp_kinds)
        if want_lat != (e_lat == 1):
            return "request %d: latency injected = %d, specified %s" % (i, e_lat, want_lat)
        # --- clauses of the property ---
        if e_err:
            if called != 0 or t_inner != -1:
                return "request %d: injected error but the inner service was called" % i
            if (rk, rv, t_done) != (1, i + 7000, t_issue):
                return "request %d: injected error must complete at once with the error_fn value" % i
        else:
            delay = rep if e_lat else 0
            if e_lat and not (min(lo, hi) <= rep <= max(lo, hi)):
                return "request %d: latency %d ms outside [%d, %d]" % (i, rep, min(lo, hi), max(lo, hi))
            if t_issue + delay <= t_end:
                if called != 1 or t_inner != t_issue + delay:
                    return "request %d: inner call expected exactly once at %d, got %d call(s) at %d" % (
                        i, t_issue + delay, called, t_inner)
                if (rk, rv) != ((0 if ik == 0 else 1), iv) or t_done != t_inner:
                    return "request %d: inner result (%d,%d) was changed to (%d,%d)" % (i, ik, iv, rk, rv)
            else:
                if called != 0 or rk != -1:
                    return "request %d: still sleeping at the end but inner called / completed" % i
        if er == 0.0 and lr == 0.0 and not (er != er or lr != lr):
            if nlog != 0 or e_pass != 1 or called != 1 or t_inner != t_issue:
                return "request %d: both rates 0 but the layer is not transparent" % i
        if inj and er >= 1.0 and not e_err:
            return "request %d: error rate 1 but the request was not failed" % i
    if pos != len(bits):
        return "draw log has %d entries, requests account for %d" % (len(bits), pos)
    return None


def nontrivial(s, t):
    d = decode(s, t)
    return bool(d) and any(r[4] or r[5] for r in d[1])


def rate_class(b, inj=1):
    if not inj:
        return "none"
    x = b2f(b)
    if x != x:
        return "nan"
    if x <= 0.0:
        return "0" if x == 0.0 else "neg"
    if x >= 1.0:
        return "1" if x == 1.0 else "gt1"
    return "tiny" if x < 1e-9 else "mid"


def classify(s, t):
    out = ["erate_" + rate_class(s[1], s[0]), "lrate_" + rate_class(s[2])]
    lo, hi = s[3] // 1000, s[4] // 1000
    out.append("range_" + ("lt" if lo < hi else "eq" if lo == hi else "gt"))
    d = decode(s, t)
    if d:
        recs = d[1]
        if any(r[4] for r in recs):
            out.append("some_error")
        if any(r[5] for r in recs):
            out.append("some_latency")
        if any(r[6] for r in recs):
            out.append("some_pass")
        if any(r[11] == -1 for r in recs):
            out.append("pending_at_end")
        if any(recs[i][10] > recs[i + 1][9] >= 0 for i in range(len(recs) - 1)):
            out.append("overlapping_requests")
    return out


def shrink(s):
    n = s[7]
    if n > 1:
        yield s[:7] + [n - 1] + s[8:8 + 3 * (n - 1)]
        yield s[:7] + [n - 1] + s[11:8 + 3 * n]
    for i in range(n):
        if s[8 + 3 * i] > 0:
            c = list(s[:8 + 3 * n]); c[8 + 3 * i] = 0
            yield c
    if s[6] > 0:
        c = list(s[:8 + 3 * n]); c[6] = s[6] // 2
        yield c
