"""C06: time limiter resolves every call by its deadline."""
import itertools

PROP = "C06"
DRIVER = "c06"
MODEL = "C06"
MODEL_QUALID = "Model.TimeLimiter.run_script"
FORMAT = ("script [cancel; dyn; n; T; t_0..t_(n-1); (op a b)*]: cancel bit0 = cancel_running_future(true), bit1 = the builder sets it before the timeout (builder-order glue); a timeout >= 10^15 ms stands for Duration::MAX; dyn 0 = fixed timeout T ms, "
          "1 = per-request timeout t_i ms for caller i; op 1=Poll a "
          "2=Drop a 3=Advance a(ms) 4=Complete a b(0 ok,1 err,2 panic) 5=Call a (build the future). "
          "trace: per event [r; val; wake mask; inner-call states base 4 (0 none 1 running 2 finished 3 dropped)] with "
          "r: -1 no poll, 0 pending, 1 Ok, 2 Err(Inner), 3 Err(Timeout), 5 panicked, 9 nothing to poll")
RULE = ("per caller a plan (first poll instant, inner latency strictly below / exactly at / above the deadline or never, ok/err/panic, "
        "prompt or late polls (also at/after the deadline with the result already there), optional cancellation, completion before the first poll) merged over 1-4 concurrent callers with "
        "different per-request or one fixed timeout, both modes, same-instant events in random order; plus uniformly random scripts; "
        "plus (thorough) all scripts up to length 5 over a two-caller alphabet; non-trivial = some call timed out or resolved at/after a tie")
TRUSTED = ["tokio time::timeout (inner future polled before the timer), time::sleep, oneshot, task spawning and the biased select! "
           "(receiver before sleep) are modelled; they are tied to the libraries only by this correspondence run",
           "poll atomicity; the spawned task of non-cancel mode runs to quiescence after every script event"]
ASSUMPTIONS = ["whole-millisecond instants", "single-threaded deterministic executor: one poll at a time",
               "inner panics are outside the property (modelled and compared, not claimed)"]


def header(s):
    cancel, dyn, n, T = (s + [0, 0, 0, 0])[:4]
    n = max(0, n)
    per = [(s[4 + i] if 4 + i < len(s) else 0) for i in range(n)]
    tm = [max(0, per[i] if dyn else T) for i in range(n)]
    return (1 if cancel % 2 else 0), n, tm


def events(s):
    cancel, n, tm = header(s)
    body = s[4 + n:]
    evs = []
    pos = []
    for k in range(0, len(body) - len(body) % 3, 3):
        op, a, b = body[k:k + 3]
        if op == 3 or (op in (1, 2, 4, 5) and 0 <= a < n):
            evs.append((op, a, b))
            pos.append(4 + n + k)
    return cancel, n, tm, evs, pos


def decode(s, t):
    cancel, n, tm, evs, pos = events(s)
    if len(t) != 4 * len(evs):
        return None
    return cancel, n, tm, [(e, t[4 * k:4 * k + 4]) for k, e in enumerate(evs)]


CODE = {0: 1, 1: 2}


def monitor(s, t):
    d = decode(s, t)
    if d is None:
        return "malformed or panicking run: %s" % t[:10]
    cancel, n, tm, evt = d
    now = 0
    first = [None] * n      # instant of first poll
    firstk = [None] * n     # event index of first poll
    comp = [None] * n       # (instant, event index, outcome) of the effective Complete
    state = ["new"] * n     # new | pending | resolved | dropped
    for k, (e, o) in enumerate(evt):
        op, a, b = e
        r, val, mask, vec = o
        dig = [(vec >> (2 * j)) & 3 for j in range(n)]
        if op == 3:
            t1 = now + max(0, a)
            for j in range(n):
                if state[j] == "pending":
                    dl = first[j] + tm[j]
                    if now < dl <= t1 and not (mask >> j) & 1:
                        return "caller %d not woken when its deadline %d passed (event %d)" % (j, dl, k)
            now = t1
        elif op == 4:
            if comp[a] is None:
                comp[a] = (now, k, b if b in (0, 1) else 2)
                if state[a] == "pending" and not (mask >> a) & 1:
                    return "pending caller %d not woken by the completion of its inner call (event %d)" % (a, k)
        elif op == 2:
            if state[a] in ("new", "pending"):
                was = state[a]
                state[a] = "dropped"
                if cancel and was == "pending" and dig[a] not in (3,):
                    return "cancel mode: caller %d dropped but inner call state %d (event %d)" % (a, dig[a], k)
        elif op == 1:
            if state[a] in ("resolved", "dropped"):
                if r != 9:
                    return "poll of a finished caller returned %d" % r
            else:
                if state[a] == "new":
                    first[a], firstk[a] = now, k
                    state[a] = "pending"
                dl = first[a] + tm[a]
                due = now >= dl
                c = comp[a]
                # the inner result can be seen by this poll: cancel mode - as soon as completed;
                # non-cancel mode - the spawned task starts after the first poll
                avail = c is not None and (cancel or firstk[a] < k)
                if c is not None and c[2] == 2:
                    ok = (r == 5) if (cancel and avail) else (r in (0, 3, 5))   # panics: outside the property
                    msg = "inner panicked"
                elif avail and not due:
                    ok = r == CODE[c[2]] and val == a
                    msg = "inner finished before the deadline"
                elif avail and due:
                    # the result was delivered and had the chance to run before this poll: it wins,
                    # in both modes, also at the exact tie and when the poll is late
                    ok = r == CODE[c[2]] and val == a
                    msg = "inner result already available, deadline reached"
                elif due:
                    ok = r == 3
                    msg = "inner unfinished at/after the deadline"
                else:
                    ok = r == 0
                    msg = "inner unfinished, deadline not reached"
                if not ok:
                    if r == 3 and not due:
                        return "Timeout at %d before the deadline %d of caller %d (event %d)" % (now, dl, a, k)
                    return "caller %d polled at %d (deadline %d, %s): got r=%d val=%d (event %d)" % (a, now, dl, msg, r, val, k)
                if r != 0:
                    state[a] = "resolved"
                    if cancel and r == 3 and dig[a] != 3:
                        return "cancel mode: Timeout for caller %d but the inner future was not dropped (state %d, event %d)" % (a, dig[a], k)
                    if r in (1, 2) and dig[a] != 2:
                        return "caller %d got a result but its inner call is in state %d" % (a, dig[a])
        # inner-call bookkeeping, checked after every event
        for j in range(n):
            c = comp[j]
            if first[j] is None:
                if dig[j] != 0:
                    return "inner call of caller %d exists before the first poll (event %d)" % (j, k)
                continue
            if dig[j] == 0:
                return "inner call of caller %d not started by its first poll (event %d)" % (j, k)
            if not cancel:
                if dig[j] == 3 and not (c is not None and c[2] == 2):
                    return "non-cancel mode: inner call of caller %d was dropped (event %d)" % (j, k)
                if c is not None and c[2] != 2 and dig[j] != 2:
                    return "non-cancel mode: inner call of caller %d completed by the script but not finished (state %d, event %d)" % (j, dig[j], k)
            else:
                if dig[j] == 1 and state[j] != "pending":
                    return "cancel mode: inner call of caller %d still running although the call is %s (event %d)" % (j, state[j], k)
    return None


def corpus():
    return [
        # non-cancel mode: result ready at t=2, deadline 10, polled only at t=10 - must be the result
        # (reproducer of the un-biased select! defect fixed in /repo 0b06d50)
        [0, 0, 1, 10, 0, 1, 0, 0, 3, 2, 0, 4, 0, 0, 3, 8, 0, 1, 0, 0],
        # the same with the completion exactly at the deadline, and a later poll
        [0, 0, 1, 10, 0, 1, 0, 0, 3, 10, 0, 4, 0, 1, 3, 5, 0, 1, 0, 0],
        # cancel mode, fixed 10 ms: result strictly before, exactly at, after the deadline
        [1, 0, 3, 10, 0, 0, 0, 1, 0, 0, 1, 1, 0, 1, 2, 0, 3, 9, 0, 4, 0, 0, 1, 0, 0, 3, 1, 0, 4, 1, 1, 1, 1, 0, 1, 2, 0, 3, 1, 0, 4, 2, 0],
        # non-cancel mode, same schedule; the inner calls run on
        [0, 0, 3, 10, 0, 0, 0, 1, 0, 0, 1, 1, 0, 1, 2, 0, 3, 9, 0, 4, 0, 0, 1, 0, 0, 3, 1, 0, 4, 1, 1, 1, 1, 0, 1, 2, 0, 3, 1, 0, 4, 2, 0],
        # per-request timeouts; Call long before the first poll: the deadline counts from the first poll
        [1, 1, 2, 0, 5, 20, 5, 0, 0, 5, 1, 0, 3, 7, 0, 1, 0, 0, 1, 1, 0, 3, 5, 0, 1, 0, 0, 3, 15, 0, 1, 1, 0],
        # non-cancel: completion before the first poll, zero timeout, cancellation, late completion
        [0, 1, 3, 0, 0, 8, 8, 4, 0, 0, 1, 0, 0, 1, 0, 0, 1, 1, 0, 4, 1, 1, 1, 1, 0, 1, 2, 0, 2, 2, 0, 3, 20, 0, 4, 2, 0],
        # inner panic in both modes
        [1, 0, 1, 10, 0, 1, 0, 0, 4, 0, 2, 1, 0, 0],
        [0, 0, 1, 10, 0, 1, 0, 0, 4, 0, 2, 1, 0, 0],
    ]


def plan_script(rng, maxn=4):
    cancel = rng.choice([0, 1, 2, 3])   # bit 0: cancel_running_future; bit 1: builder calls it BEFORE the timeout setter
    dyn = rng.choice([0, 1])
    n = rng.randint(1, maxn)
    T = rng.choice([0, 1, 5, 10, 10, 20])
    per = [rng.choice([0, 1, 3, 5, 10, 10, 20, 30]) for _ in range(n)]
    tm = [per[i] if dyn else T for i in range(n)]
    items = []   # (time, tiebreak, event)
    for i in range(n):
        fp = rng.choice([0, 0, 1, 2, 5, 7])
        if rng.random() < 0.4:
            items.append((rng.randint(0, fp), rng.random(), (5, i, 0)))
        items.append((fp, rng.random(), (1, i, 0)))
        dl = fp + tm[i]
        cls = rng.choice(["below", "below", "at", "at", "above", "never", "early"])
        out = rng.choices([0, 1, 2], [5, 4, 1])[0]
        if cls == "below":
            tc = rng.randint(fp, max(fp, dl - 1))
        elif cls == "at":
            tc = dl
        elif cls == "above":
            tc = dl + rng.choice([1, 1, 2, 5])
        elif cls == "early":
            tc = rng.randint(0, fp)
        else:
            tc = None
        if tc is not None:
            items.append((tc, rng.random(), (4, i, out)))
        style = rng.choice(["prompt", "prompt", "late", "random"])
        if style == "prompt":
            pts = [dl] + ([tc] if tc is not None else [])
        elif style == "late":
            pts = [dl + rng.choice([1, 3])] + ([tc + rng.choice([0, 1, 4])] if tc is not None else [])
        else:
            pts = [rng.randint(fp, dl + 6) for _ in range(rng.randint(1, 4))]
        for p in pts:
            # polls after the event of the same instant (prompt) or in random order
            items.append((p, 2.0 if style == "prompt" else rng.random(), (1, i, 0)))
        if rng.random() < 0.25:
            items.append((rng.randint(0, dl + 4), rng.random(), (2, i, 0)))
        if rng.random() < 0.5:
            items.append((dl + rng.choice([2, 6, 10]), 3.0, (1, i, 0)))
    items.sort(key=lambda x: (x[0], x[1]))
    s = [cancel, dyn, n, T] + per
    now = 0
    for (t, _, e) in items:
        if t > now:
            if rng.random() < 0.3 and t - now > 1:
                k = rng.randint(1, t - now - 1)
                s += [3, k, 0, 3, t - now - k, 0]
            else:
                s += [3, t - now, 0]
            now = t
        s += list(e)
    return s


def random_script(rng, maxn=4, maxlen=30):
    cancel = rng.choice([0, 1, 2, 3])   # bit 0: cancel_running_future; bit 1: builder calls it BEFORE the timeout setter
    dyn = rng.choice([0, 1])
    n = rng.randint(1, maxn)
    T = rng.choice([0, 2, 5, 10, 10 ** 18])                  # 10^18 ms stands for Duration::MAX
    per = [rng.choice([0, 1, 2, 5, 10, 10 ** 18]) for _ in range(n)]
    s = [cancel, dyn, n, T] + per
    for _ in range(rng.randint(3, maxlen)):
        x = rng.random()
        if x < 0.45:
            s += [1, rng.randrange(n), 0]
        elif x < 0.52:
            s += [2, rng.randrange(n), 0]
        elif x < 0.75:
            s += [3, rng.choice([1, 1, 2, 3, 5, 5, 10]), 0]
        elif x < 0.95:
            s += [4, rng.randrange(n), rng.choice([0, 0, 1, 1, 2])]
        else:
            s += [5, rng.randrange(n), 0]
    return s


def exhaustive(depth, cancel, T=2, n=2):
    alpha = [(1, i, 0) for i in range(n)] + [(2, 0, 0)] + [(3, 1, 0), (3, 2, 0)] + \
            [(4, 0, 0), (4, 1, 1), (4, 0, 2)]
    for L in range(1, depth + 1):
        for evs in itertools.product(alpha, repeat=L):
            s = [cancel, 1, n, 0, T, 1][:4 + n]
            for e in evs:
                s += list(e)
            yield s


def generate(rng, tier):
    out = []
    if tier == "quick":
        out += [plan_script(rng) for _ in range(1500)]
        out += [random_script(rng) for _ in range(800)]
        out += list(exhaustive(2, 0)) + list(exhaustive(2, 1))
    else:
        out += [plan_script(rng, 4) for _ in range(30000)]
        out += [random_script(rng, 4, 50) for _ in range(15000)]
        out += list(exhaustive(5, 0)) + list(exhaustive(5, 1))
    return out


def _ties(s, t):
    """events where a poll saw both the inner result and the elapsed timer"""
    d = decode(s, t)
    if not d:
        return 0, 0
    cancel, n, tm, evt = d
    now, first, firstk, comp, live = 0, [None] * n, [None] * n, [None] * n, [True] * n
    ties = exact = 0
    for k, (e, o) in enumerate(evt):
        op, a, b = e
        if op == 3:
            now += max(0, a)
        elif op == 4 and comp[a] is None:
            comp[a] = (now, k)
        elif op == 2:
            live[a] = False
        elif op == 1 and live[a]:
            if first[a] is None:
                first[a], firstk[a] = now, k
            dl = first[a] + tm[a]
            if comp[a] is not None and now >= dl and (cancel or firstk[a] < k):
                ties += 1
                if comp[a][0] == dl:
                    exact += 1
            if o[0] != 0:
                live[a] = False
    return ties, exact


def nontrivial(s, t):
    d = decode(s, t)
    if not d:
        return True
    return any(o[0] == 3 for (_, o) in d[3]) or _ties(s, t)[0] > 0


def classify(s, t):
    cancel, n, tm = header(s)
    out = ["cancel" if cancel else "nocancel", "per_request" if (len(s) > 1 and s[1]) else "fixed", "callers%d" % n]
    d = decode(s, t)
    if d:
        rs = set(o[0] for (_, o) in d[3])
        for r, name in ((1, "ok"), (2, "inner_err"), (3, "timeout"), (5, "panic")):
            if r in rs:
                out.append("saw_" + name)
        ties, exact = _ties(s, t)
        if ties:
            out.append("both_ready_poll")
        if exact:
            out.append("exact_tie")
        if any(e[0] == 2 for (e, _) in d[3]):
            out.append("has_cancel")
        if 0 in tm:
            out.append("zero_timeout")
        if not cancel and any(((o[3] >> (2 * j)) & 3) == 2 for (_, o) in d[3][-1:] for j in range(n)) and 3 in rs:
            out.append("ran_on_after_timeout")
    return out


def shrink(s):
    cancel, n, tm = header(s)
    head, body = s[:4 + n], s[4 + n:]
    k = len(body) // 3
    for i in range(k):
        yield head + body[:3 * i] + body[3 * i + 3:]
