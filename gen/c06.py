"""C06: time limiter resolves every call by its deadline."""
import itertools

PROP = "C06"
DRIVER = "c06"
MODEL = "C06"
MODEL_QUALID = "Model.TimeLimiter.run_script"
FORMAT = ("script [cancel; dyn; n; T; t_0..t_(n-1); (op a b)*]: cancel bit0 = cancel_running_future(true), bit1 = the builder sets it before the timeout "
          "(builder-order glue), bits 2-3 = how the calls reach the service: 0 each on a fresh clone of one pristine value, 1 all on the SAME service value, "
          "2 each on a clone of the value used by the previous call, 3 two handles alternately; bits 4.. = mask of callers (bit 4+j: caller j) whose inner call is "
          "budget-hungry: until its completion every poll of it uses up the whole tokio cooperative budget of the polling task (harness only: property and "
          "model do not distinguish it); dyn bit0: 0 = fixed timeout T, 1 = per-request timeout t_i "
          "for caller i; dyn bit1: the time unit of the script is the microsecond instead of the millisecond; dyn bit2: every call is made on a service value of its own that is "
          "dropped as soon as call() has returned the future (overrides the handle mode); a timeout >= 10^15 stands for Duration::MAX; "
          "op 1=Poll a 2=Drop a 3=Advance a 4=Complete a b(0 ok,1 err,2 panic) 5=Call a (build the future) 6=Advance a in one step (the harness does not "
          "walk millisecond by millisecond) 7=Ready a (pick caller a's service value and poll_ready it now; call() follows at a's first op 1/2/5; no trace entry). "
          "trace: per event [r; val; wake mask; inner-call states base 4 (0 none 1 running 2 finished 3 dropped)] with "
          "r: -1 no poll, 0 pending, 1 Ok, 2 Err(Inner), 3 Err(Timeout), 5 panicked, 9 nothing to poll")
RULE = ("per caller a plan (first poll instant, optional Call before it, inner latency strictly below / exactly at / above the deadline or never, or completed "
        "before the first poll, ok/err/panic, prompt or late polls (also at/after the deadline with the result already there), optional cancellation) merged over "
        "1-4 (thorough: up to 6) concurrent callers with different per-request or one fixed timeout, both modes, both builder orders, four ways of reaching the service (fresh clone / "
        "same value / clone of clone / two handles / a value of its own dropped right after call()), poll_ready either immediately before call() or earlier "
        "(op 7, up to the whole timeout earlier), inner calls that are ordinary or budget-hungry (every poll exhausts the cooperative budget; never completing, "
        "completing before / at / after the deadline), same-instant events in random order, in three scales: milliseconds up to 30 ms walked ms by ms; "
        "50 ms .. 1 h timeouts crossed by single clock jumps; microsecond unit with timeouts off the 1 ms timer tick (0, 1, 500, 999, 1001, 1500, 1900 us ...), "
        "polls inside the tick window; Duration::MAX and 3-year timeouts that never fire; plus uniformly random scripts in each scale; "
        "plus (thorough) all scripts up to length 5 over a two-caller alphabet in ms (fresh clone and same-value handle) and us units; "
        "non-trivial = some call timed out or a poll saw both the inner result and the elapsed timer")
TRUSTED = ["tokio time::timeout (inner future polled before the timer), time::sleep, oneshot, task spawning and the biased select! "
           "(receiver before sleep) are modelled; they are tied to the libraries only by this correspondence run",
           "tokio's timer resolution: a sleep fires at the first whole-millisecond tick (counted from the start of the runtime) at or after its deadline; "
           "'at the deadline' is therefore 'at that tick' for timeouts that are not whole milliseconds (model: deadline = tick_up; monitor: Pending or Timeout "
           "accepted between the deadline and its tick, Timeout before the deadline never)",
           "poll atomicity; the spawned task of non-cancel mode runs to quiescence after every script event"]
ASSUMPTIONS = ["every poll of a call future is made with tokio cooperative budget available (the driver yields after every event). A caller whose OWN task budget is "
               "exhausted (a sibling future in the same join!/FuturesUnordered used it up) gets Pending from tokio's timer / oneshot even at/after the deadline or with "
               "the result there, followed by tokio's deferred wake-up and the answer at the next poll: no time passes, but model (C06_timeout_at_poll, "
               "C06_result_at_poll) and monitor are about polls with budget",
               "the tokio runtime (its timer and the spawned task of non-cancel mode) is alive for the whole call: a runtime shut down under a pending call makes "
               "non-cancel mode answer Timeout early (lost inner task = sender dropped, the same path as an inner panic) and cancel mode panic",
               "instants are whole multiples of the script's time unit (1 ms or 1 us)", "single-threaded deterministic executor: one poll at a time",
               "inner panics are outside the property (modelled and compared, not claimed)",
               "what the caller does with a call it cancels itself (drops the future) is outside the property (modelled and compared, not claimed)"]
# scripts on which the REAL code violates the property (none known)
KNOWN_DEFECT = []

BIG = 10 ** 15


def header(s):
    h0, h1, n, T = (s + [0, 0, 0, 0])[:4]
    n = max(0, n)
    dyn = max(0, h1) % 2
    per = [(s[4 + i] if 4 + i < len(s) else 0) for i in range(n)]
    tm = [max(0, per[i] if dyn else T) for i in range(n)]
    return (1 if max(0, h0) % 2 else 0), n, tm


def tick_of(s):
    return 1000 if len(s) > 1 and (max(0, s[1]) >> 1) & 1 else 1


def handle_mode(s):
    return (max(0, s[0]) >> 2) & 3 if s else 0


def hungry_mask(s):
    return max(0, s[0]) >> 4 if s else 0


def _hungry(rng, n):
    """mask (already shifted) of callers with a budget-hungry inner call"""
    if rng.random() < 0.6:
        return 0
    return 16 * rng.choice([(1 << n) - 1, rng.randrange(1, 1 << n)])


def events(s):
    cancel, n, tm = header(s)
    body = s[4 + n:]
    evs = []
    pos = []
    for k in range(0, len(body) - len(body) % 3, 3):
        op, a, b = body[k:k + 3]
        if op in (3, 6) or (op in (1, 2, 4, 5) and 0 <= a < n):
            evs.append((op, a, b))
            pos.append(4 + n + k)
    return cancel, n, tm, evs, pos


def decode(s, t):
    cancel, n, tm, evs, pos = events(s)
    if len(t) != 4 * len(evs):
        return None
    return cancel, n, tm, [(e, t[4 * k:4 * k + 4]) for k, e in enumerate(evs)]


CODE = {0: 1, 1: 2}


def tick_up(g, x):
    return x if g <= 1 else -((-x) // g) * g


# ----------------------------------------------------------------------------------------------
# The property, and nothing more, over the implementation's trace.
#
#   deadline of a call = (start of its clock) + its timeout.  The text does not say where the clock starts: the
#   monitor accepts a trace if it is right under the reading "at the first poll of the future" OR under the reading
#   "when call() returns the future" (one reading per trace).
#   * a poll before the deadline with the inner call unfinished is Pending; a Timeout before the deadline is a violation
#   * a poll at/after the deadline (at/after its timer tick when the deadline is off the 1 ms grid) with the inner call
#     unfinished is Timeout
#   * inner call finished strictly before the deadline: the poll returns its outcome and value, however late the poll
#   * the FIRST poll of a call may always answer Pending instead, provided it leaves the caller woken when the call is
#     due or its result is there (an implementation that runs the inner call / the timer in a task of its own needs
#     one more turn; no time passes)
#   * inner call finished exactly at the deadline or after it (the caller polled late): its outcome or Timeout - the
#     property leaves the tie open and an eager implementation enforcing the deadline answers Timeout for the latter
#   * liveness ("at the deadline", "at the instant it is available"): after every event a pending call that is overdue
#     or whose inner call has completed has its caller woken
#   * cancel mode: after a Timeout answer the inner call is not running any more; non-cancel mode: the limiter never drops
#     the inner call and a completion after the Timeout still runs it to the end
#   * no inner call before call(); a pending call has made its inner call; a result is only returned for an inner call
#     that finished
#   Not stated (pinned by the comparison with the model only): what happens to the inner call of a future the caller
#   drops, whether inner.call() is evaluated in call() or at the first poll, anything after an inner panic.
def _check(d, g, reading):
    cancel, n, tm, evt = d
    now = 0
    made = [None] * n       # instant call() was evaluated (the harness builds the future at the first op 1/2/5)
    first = [None] * n      # instant of first poll
    firstk = [None] * n     # event index of first poll
    comp = [None] * n       # (instant, event index, outcome) of the effective Complete
    state = ["new"] * n     # new | pending | resolved | dropped
    skip = [False] * n      # inner panic seen: outside the property from then on

    def deadline(j):
        base = first[j] if reading == "poll" else made[j]
        return base + tm[j]

    for k, (e, o) in enumerate(evt):
        op, a, b = e
        r, val, mask, vec = o
        dig = [(vec >> (2 * j)) & 3 for j in range(n)]
        if op in (3, 6):
            now += max(0, a)
        elif op == 4:
            if comp[a] is None:
                comp[a] = (now, k, b if b in (0, 1) else 2)
                if comp[a][2] == 2:
                    skip[a] = True
        elif op in (1, 2, 5) and made[a] is None:
            made[a] = now
        if op == 2:
            if state[a] in ("new", "pending"):
                state[a] = "dropped"
        elif op == 1:
            if state[a] in ("resolved", "dropped"):
                if r != 9:
                    return "poll of a finished caller returned %d" % r
            else:
                if state[a] == "new":
                    first[a], firstk[a] = now, k
                    state[a] = "pending"
                dl = deadline(a)
                late = tick_up(g, dl)
                c = comp[a]
                if skip[a]:
                    allowed, msg = None, ""
                elif c is None:
                    if now < dl:
                        allowed, msg = {0}, "inner unfinished, deadline not reached"
                    elif now < late:
                        allowed, msg = {0, 3}, "inner unfinished, deadline reached, its timer tick %d not yet" % late
                    else:
                        allowed, msg = {3}, "inner unfinished at/after the deadline"
                else:
                    res = CODE[c[2]]
                    done_at = max(c[0], first[a])   # the inner call exists from the first poll (or from call()) on
                    if done_at < dl:
                        allowed, msg = {res}, "inner finished before the deadline"
                    else:
                        allowed, msg = {res, 3}, "inner finished at/after the deadline"
                if allowed is not None:
                    if k == firstk[a]:
                        # the first poll may need one more turn (an implementation that hands the inner call to a task
                        # of its own): Pending is accepted if it leaves the caller woken - checked below, after the event
                        allowed.add(0)
                    if r not in allowed:
                        if r == 3 and now < dl:
                            return "Timeout at %d before the deadline %d of caller %d (event %d)" % (now, dl, a, k)
                        return "caller %d polled at %d (deadline %d, %s): got r=%d val=%d (event %d)" % (a, now, dl, msg, r, val, k)
                    if r in (1, 2) and val != a:
                        return "caller %d got the value %d (event %d)" % (a, val, k)
                if r != 0:
                    state[a] = "resolved"
                    if not skip[a]:
                        if cancel and r == 3 and dig[a] == 1:
                            return "cancel mode: Timeout for caller %d but its inner call is still running (event %d)" % (a, k)
                        if r in (1, 2) and dig[a] != 2:
                            return "caller %d got a result but its inner call is in state %d (event %d)" % (a, dig[a], k)
        # after every event
        for j in range(n):
            if skip[j]:
                continue
            if made[j] is None:
                if dig[j] != 0:
                    return "inner call of caller %d exists before call() (event %d)" % (j, k)
                continue
            c = comp[j]
            if state[j] == "pending":
                if dig[j] == 0:
                    return "inner call of caller %d not started by its first poll (event %d)" % (j, k)
                dl = deadline(j)
                if not (mask >> j) & 1:
                    if now >= tick_up(g, dl):
                        return "pending caller %d not woken although its deadline %d has passed (now %d, event %d)" % (j, dl, now, k)
                    if c is not None:
                        return "pending caller %d not woken although its inner call has completed (event %d)" % (j, k)
            if not cancel and state[j] in ("pending", "resolved"):
                if dig[j] == 3:
                    return "non-cancel mode: inner call of caller %d was dropped (event %d)" % (j, k)
                if c is not None and dig[j] != 2:
                    return "non-cancel mode: inner call of caller %d completed by the script but not finished (state %d, event %d)" % (j, dig[j], k)
    return None


def monitor(s, t):
    d = decode(s, t)
    if d is None:
        return "malformed or panicking run: %s" % t[:10]
    g = tick_of(s)
    m = _check(d, g, "poll")
    if m is None:
        return None
    if _check(d, g, "call") is None:
        return None
    return m


def corpus():
    return [
        # non-cancel mode: result ready at t=2, deadline 10, polled only at t=10 - must be the result
        # (reproducer of the un-biased select! defect fixed in /repo 0b06d50)
        [0, 0, 1, 10, 0, 1, 0, 0, 3, 2, 0, 4, 0, 0, 3, 8, 0, 1, 0, 0],
        # the same with the completion exactly at the deadline, and a later poll
        [0, 0, 1, 10, 0, 1, 0, 0, 3, 10, 0, 4, 0, 1, 3, 5, 0, 1, 0, 0],
        # cancel mode, fixed 10 ms: result strictly before, exactly at, after the deadline
        [1, 0, 3, 10, 0, 0, 0, 1, 0, 0, 1, 1, 0, 1, 2, 0, 3, 9, 0, 4, 0, 0, 1, 0, 0, 3, 1, 0, 4, 1, 1, 1, 1, 0, 1, 2, 0, 3, 1, 0, 4, 2, 0],
        # non-cancel mode, same schedule; the inner calls run on
        [0, 0, 3, 10, 0, 0, 0, 1, 0, 0, 1, 1, 0, 1, 2, 0, 3, 9, 0, 4, 0, 0, 1, 0, 0, 3, 1, 0, 4, 1, 1, 1, 1, 0, 1, 2, 0, 3, 1, 0, 4, 2, 0],
        # per-request timeouts; Call long before the first poll: the deadline counts from the first poll
        [1, 1, 2, 0, 5, 20, 5, 0, 0, 5, 1, 0, 3, 7, 0, 1, 0, 0, 1, 1, 0, 3, 5, 0, 1, 0, 0, 3, 15, 0, 1, 1, 0],
        # non-cancel: completion before the first poll, zero timeout, cancellation, late completion
        [0, 1, 3, 0, 0, 8, 8, 4, 0, 0, 1, 0, 0, 1, 0, 0, 1, 1, 0, 4, 1, 1, 1, 1, 0, 1, 2, 0, 2, 2, 0, 3, 20, 0, 4, 2, 0],
        # inner panic in both modes
        [1, 0, 1, 10, 0, 1, 0, 0, 4, 0, 2, 1, 0, 0],
        [0, 0, 1, 10, 0, 1, 0, 0, 4, 0, 2, 1, 0, 0],
        # inner call finishes after the deadline and the caller is polled later still: the code returns the result
        [1, 0, 1, 10, 0, 1, 0, 0, 3, 15, 0, 4, 0, 0, 3, 5, 0, 1, 0, 0],
        [0, 0, 1, 10, 0, 1, 0, 0, 3, 15, 0, 4, 0, 0, 3, 5, 0, 1, 0, 0],
        # all calls on ONE service value, per-request timeouts 5 / 20 / 60000 ms, both modes
        [5, 1, 3, 0, 5, 20, 60000, 1, 0, 0, 1, 1, 0, 1, 2, 0, 3, 5, 0, 1, 0, 0, 3, 15, 0, 1, 1, 0, 6, 59979, 0, 1, 2, 0, 6, 1, 0, 1, 2, 0],
        [4, 1, 3, 0, 5, 20, 60000, 1, 0, 0, 1, 1, 0, 1, 2, 0, 3, 5, 0, 1, 0, 0, 3, 15, 0, 1, 1, 0, 6, 59979, 0, 1, 2, 0, 6, 1, 0, 1, 2, 0],
        # clone of clone / two handles, fixed one-hour timeout crossed by one jump; a 5-minute per-request timeout
        [9, 0, 2, 3600000, 0, 0, 1, 0, 0, 6, 1800000, 0, 1, 1, 0, 6, 1799999, 0, 1, 0, 0, 6, 1, 0, 1, 0, 0, 1, 1, 0, 6, 1800000, 0, 1, 1, 0],
        [13, 1, 2, 0, 300000, 1000, 1, 0, 0, 1, 1, 0, 6, 1000, 0, 1, 1, 0, 6, 59000, 0, 1, 0, 0, 6, 239999, 0, 1, 0, 0, 6, 1, 0, 1, 0, 0],
        # Duration::MAX and a 3-year timeout never fire; the result still comes through
        [1, 1, 2, 0, 10 ** 18, 10 ** 11, 1, 0, 0, 1, 1, 0, 6, 10 ** 10, 0, 1, 0, 0, 1, 1, 0, 4, 0, 0, 4, 1, 1, 1, 0, 0, 1, 1, 0],
        [0, 0, 1, 10 ** 18, 0, 1, 0, 0, 6, 10 ** 10, 0, 1, 0, 0, 4, 0, 1, 1, 0, 0],
        # budget-hungry inner calls (round-3 seed C06-t3: a bare sleep in select! is starved by them), both modes:
        # never completing, polled at the deadline and later; completing before / exactly at / after the deadline
        [17, 0, 1, 10, 0, 1, 0, 0, 3, 9, 0, 1, 0, 0, 3, 1, 0, 1, 0, 0, 3, 5, 0, 1, 0, 0],
        [16, 0, 1, 10, 0, 1, 0, 0, 3, 9, 0, 1, 0, 0, 3, 1, 0, 1, 0, 0, 3, 5, 0, 4, 0, 0, 3, 1, 0],
        [113, 1, 3, 0, 10, 10, 10, 1, 0, 0, 1, 1, 0, 1, 2, 0, 3, 9, 0, 1, 0, 0, 4, 0, 0, 1, 0, 0, 3, 1, 0, 4, 1, 1, 1, 1, 0, 1, 2, 0, 3, 1, 0, 4, 2, 0, 1, 2, 0],
        [112, 1, 3, 0, 10, 10, 10, 1, 0, 0, 1, 1, 0, 1, 2, 0, 3, 9, 0, 1, 0, 0, 4, 0, 0, 1, 0, 0, 3, 1, 0, 4, 1, 1, 1, 1, 0, 1, 2, 0, 3, 1, 0, 4, 2, 0, 1, 2, 0],
        [21, 0, 2, 60000, 0, 0, 1, 0, 0, 6, 30000, 0, 1, 1, 0, 6, 30000, 0, 1, 0, 0, 6, 30000, 0, 1, 1, 0],
        [17, 2, 1, 1500, 0, 1, 0, 0, 3, 1999, 0, 1, 0, 0, 3, 1, 0, 1, 0, 0],
        # poll_ready at 0, call() + first poll at 8, timeout 10: the deadline is 18, not 10 (review-2 regression D1), both modes,
        # fresh clone and same service value
        [1, 0, 1, 10, 0, 7, 0, 0, 3, 8, 0, 1, 0, 0, 3, 2, 0, 1, 0, 0, 3, 8, 0, 1, 0, 0],
        [4, 0, 1, 10, 0, 7, 0, 0, 3, 8, 0, 1, 0, 0, 3, 2, 0, 1, 0, 0, 3, 8, 0, 1, 0, 0],
        [5, 1, 2, 0, 10, 20, 7, 0, 0, 7, 1, 0, 3, 8, 0, 5, 0, 0, 3, 2, 0, 1, 0, 0, 1, 1, 0, 3, 8, 0, 1, 0, 0, 3, 2, 0, 1, 0, 0, 3, 20, 0, 1, 1, 0],
        # every call on a service value of its own, dropped right after call() (review-2 regression D2): non-cancel mode keeps
        # the inner call running - result at 3, and completion after a Timeout; cancel mode for symmetry
        [0, 4, 1, 10, 0, 1, 0, 0, 1, 0, 0, 3, 3, 0, 4, 0, 0, 1, 0, 0],
        [0, 5, 2, 0, 5, 10, 5, 0, 0, 5, 1, 0, 1, 0, 0, 1, 1, 0, 3, 5, 0, 1, 0, 0, 3, 1, 0, 4, 0, 1, 3, 4, 0, 4, 1, 0, 1, 1, 0],
        [1, 4, 1, 10, 0, 7, 0, 0, 1, 0, 0, 3, 3, 0, 4, 0, 0, 1, 0, 0],
        # microsecond unit: 1500 us armed at 0 fires at the 2 ms tick; 999 us armed at 1 us fires at 1 ms; zero timeout off the tick
        [1, 2, 1, 1500, 0, 1, 0, 0, 3, 1499, 0, 1, 0, 0, 3, 1, 0, 1, 0, 0, 3, 499, 0, 1, 0, 0, 3, 1, 0, 1, 0, 0],
        [0, 3, 2, 0, 999, 0, 3, 1, 0, 1, 0, 0, 3, 499, 0, 1, 1, 0, 3, 499, 0, 1, 0, 0, 1, 1, 0, 3, 1, 0, 1, 0, 0, 1, 1, 0],
        # microsecond unit: the inner call finishes between the deadline (1500) and its timer tick (2000)
        [1, 2, 1, 1500, 0, 1, 0, 0, 3, 1700, 0, 4, 0, 0, 1, 0, 0],
        [0, 2, 1, 1500, 0, 1, 0, 0, 3, 1700, 0, 4, 0, 1, 3, 300, 0, 1, 0, 0],
    ]


SCALES = {
    # name: (tick, fixed timeouts, per-request timeouts, first-poll instants, offsets above the deadline, jump advances)
    "ms": (1, [0, 1, 5, 10, 10, 20], [0, 1, 3, 5, 10, 10, 20, 30], [0, 0, 1, 2, 5, 7], [1, 1, 2, 5], False),
    "large": (1, [50, 1000, 60000, 300000, 3600000], [50, 1000, 1000, 60000, 61000, 300000, 3600000, 7200000],
              [0, 0, 1, 30, 1000, 59999], [1, 1, 50, 60000], True),
    "us": (1000, [0, 1, 500, 999, 1000, 1001, 1500, 1900, 2500, 10000], [0, 1, 500, 999, 1000, 1001, 1500, 1900, 2000, 2500, 3100],
           [0, 0, 1, 500, 1000, 1499, 2000], [1, 100, 499, 500, 1000], True),
}


def plan_script(rng, maxn=4, scale=None):
    scale = scale or rng.choice(["ms", "ms", "large", "us"])
    g, fixed, pers, fps, above, jumps = SCALES[scale]
    cancel = rng.choice([0, 1, 2, 3]) + 4 * rng.choice([0, 0, 1, 1, 2, 3])
    dyn = rng.choice([0, 1])
    n = rng.randint(1, maxn)
    cancel += _hungry(rng, n)
    T = rng.choice(fixed)
    per = [rng.choice(pers) for _ in range(n)]
    if rng.random() < 0.12:
        T = rng.choice([10 ** 18, 10 ** 11])
    for i in range(n):
        if rng.random() < 0.08:
            per[i] = rng.choice([10 ** 18, 10 ** 11, 10 ** 15])
    tm = [per[i] if dyn else T for i in range(n)]
    items = []   # (time, tiebreak, event)
    for i in range(n):
        fp = rng.choice(fps)
        tcall = fp
        if rng.random() < 0.4:
            tcall = rng.randint(0, fp)
            items.append((tcall, 0.5 + rng.random() / 2, (5, i, 0)))
        if rng.random() < 0.3:
            # poll_ready ahead of call(): at the same instant, a little earlier, or as early as possible
            items.append((rng.choice([tcall, rng.randint(0, tcall), 0]), rng.random() / 2, (7, i, 0)))
        items.append((fp, 1.0 + rng.random(), (1, i, 0)))
        never_fires = tm[i] >= 10 ** 10
        dl = fp + (rng.choice(fixed) if never_fires else tm[i])   # for a timer that never fires: just some instant to plan around
        late = tick_up(g, dl)
        cls = rng.choice(["below", "below", "at", "at", "above", "never", "early"] + (["tick", "window"] if g > 1 else []))
        out = rng.choices([0, 1, 2], [5, 4, 1])[0]
        if cls == "below":
            tc = rng.randint(fp, max(fp, dl - 1)) if rng.random() < 0.5 else max(fp, dl - 1)
        elif cls == "at":
            tc = dl
        elif cls == "above":
            tc = dl + rng.choice(above)
        elif cls == "early":
            tc = rng.randint(0, fp)
        elif cls == "tick":
            tc = late
        elif cls == "window":
            tc = rng.randint(dl, max(dl, late - 1))
        else:
            tc = None
        if tc is not None:
            items.append((tc, rng.random(), (4, i, out)))
        style = rng.choice(["prompt", "prompt", "late", "random"])
        if style == "prompt":
            pts = [late] + ([dl] if late != dl else []) + ([tc] if tc is not None else [])
        elif style == "late":
            pts = [late + rng.choice(above)] + ([tc + rng.choice([0] + above)] if tc is not None else [])
        else:
            pts = [rng.randint(fp, late + above[-1]) for _ in range(rng.randint(1, 4))]
        if g > 1 and rng.random() < 0.5:
            pts += [max(fp, late - 1), rng.randint(min(dl, late), late)]
        for p in pts:
            # polls after the event of the same instant (prompt) or in random order
            items.append((p, 2.0 if style == "prompt" else rng.random(), (1, i, 0)))
        if rng.random() < 0.25:
            items.append((rng.randint(0, dl + above[0]), rng.random(), (2, i, 0)))
        if rng.random() < 0.5:
            items.append((late + rng.choice(above + [above[-1] * 2]), 3.0, (1, i, 0)))
    items.sort(key=lambda x: (x[0], x[1]))
    s = [cancel, dyn + (2 if g > 1 else 0) + (4 if rng.random() < 0.25 else 0), n, T] + per
    now = 0
    for (t, _, e) in items:
        if t > now:
            gap = t - now
            if g > 1:
                op = rng.choice([3, 6])          # microsecond unit: both move the clock in one step
            elif jumps or gap > 40:
                op = 6
            else:
                op = 3 if rng.random() < 0.8 else 6
            if rng.random() < 0.3 and gap > 1:
                k = rng.randint(1, gap - 1)
                s += [op, k, 0, op, gap - k, 0]
            else:
                s += [op, gap, 0]
            now = t
        s += list(e)
    return s


def random_script(rng, maxn=4, maxlen=30, scale=None):
    scale = scale or rng.choice(["ms", "ms", "large", "us"])
    cancel = rng.choice([0, 1, 2, 3]) + 4 * rng.choice([0, 0, 1, 1, 2, 3])
    dyn = rng.choice([0, 1])
    n = rng.randint(1, maxn)
    cancel += _hungry(rng, n)
    if scale == "ms":
        T = rng.choice([0, 2, 5, 10, 10 ** 18])                  # 10^18 stands for Duration::MAX
        per = [rng.choice([0, 1, 2, 5, 10, 10 ** 18]) for _ in range(n)]
        adv = [(3, x) for x in [1, 1, 2, 3, 5, 5, 10]] + [(6, 5), (6, 10)]
    elif scale == "large":
        T = rng.choice([50, 1000, 60000, 10 ** 11])
        per = [rng.choice([50, 100, 1000, 60000, 3600000, 10 ** 18]) for _ in range(n)]
        adv = [(6, x) for x in [1, 49, 50, 50, 100, 900, 1000, 59000, 60000, 3540000]]
    else:
        T = rng.choice([0, 1, 999, 1500, 2000, 10 ** 18])
        per = [rng.choice([0, 1, 500, 999, 1000, 1001, 1500, 2500]) for _ in range(n)]
        adv = [(3, x) for x in [1, 1, 499, 500, 500, 999, 1000, 1000, 1001]] + [(6, 500), (6, 1000)]
    s = [cancel, dyn + (2 if scale == "us" else 0) + (4 if rng.random() < 0.25 else 0), n, T] + per
    for _ in range(rng.randint(3, maxlen)):
        x = rng.random()
        if x < 0.04:
            s += [7, rng.randrange(n), 0]
        elif x < 0.45:
            s += [1, rng.randrange(n), 0]
        elif x < 0.52:
            s += [2, rng.randrange(n), 0]
        elif x < 0.75:
            op, a = rng.choice(adv)
            s += [op, a, 0]
        elif x < 0.95:
            s += [4, rng.randrange(n), rng.choice([0, 0, 1, 1, 2])]
        else:
            s += [5, rng.randrange(n), 0]
    return s


def exhaustive(depth, cancel, T=2, n=2, us=False, drop=False, ready=False):
    if us:
        adv, head = [(3, 500, 0), (3, 1000, 0)], [cancel, 3 + (4 if drop else 0), n, 0, 1500, 700]
    else:
        adv, head = [(3, 1, 0), (3, 2, 0)], [cancel, 1 + (4 if drop else 0), n, 0, T, 1]
    alpha = [(1, i, 0) for i in range(n)] + [(2, 0, 0)] + adv + [(4, 0, 0), (4, 1, 1), (4, 0, 2)]
    if ready:
        alpha = [(7, 0, 0), (1, 0, 0), (5, 0, 0), (3, 1, 0), (3, 2, 0), (4, 0, 0)]
    for L in range(1, depth + 1):
        for evs in itertools.product(alpha, repeat=L):
            s = head[:4 + n]
            for e in evs:
                s += list(e)
            yield s


def generate(rng, tier):
    out = []
    if tier == "quick":
        out += [plan_script(rng) for _ in range(1800)]
        out += [random_script(rng) for _ in range(900)]
        out += list(exhaustive(2, 0)) + list(exhaustive(2, 1)) + list(exhaustive(2, 5)) + list(exhaustive(2, 0, us=True)) + list(exhaustive(2, 1, us=True)) + list(exhaustive(2, 49)) + list(exhaustive(2, 48)) + list(exhaustive(2, 17, us=True)) + list(exhaustive(3, 0, drop=True)) + list(exhaustive(3, 1, drop=True)) + list(exhaustive(3, 0, ready=True)) + list(exhaustive(3, 5, ready=True))
    else:
        out += [plan_script(rng, rng.choice([4, 4, 6])) for _ in range(40000)]
        out += [random_script(rng, rng.choice([4, 4, 6]), 50) for _ in range(20000)]
        out += list(exhaustive(5, 0)) + list(exhaustive(5, 1)) + list(exhaustive(4, 4)) + list(exhaustive(4, 5))
        out += list(exhaustive(5, 0, us=True)) + list(exhaustive(5, 1, us=True))
        out += list(exhaustive(4, 49)) + list(exhaustive(4, 48)) + list(exhaustive(4, 17, us=True))
        out += list(exhaustive(5, 0, drop=True)) + list(exhaustive(4, 1, drop=True)) + list(exhaustive(6, 0, ready=True)) + list(exhaustive(5, 1, ready=True)) + list(exhaustive(5, 5, ready=True))
    return out


def extended(rng, mism):
    """search used by bin/check when the correspondence broke without a monitor failure"""
    return [plan_script(rng, 4) for _ in range(12000)] + [random_script(rng, 4, 40) for _ in range(6000)]


def _ties(s, t):
    """events where a poll saw both the inner result and the elapsed timer; exact ties; polls in the tick window"""
    d = decode(s, t)
    if not d:
        return 0, 0, 0
    cancel, n, tm, evt = d
    g = tick_of(s)
    now, first, firstk, comp, live = 0, [None] * n, [None] * n, [None] * n, [True] * n
    ties = exact = window = 0
    for k, (e, o) in enumerate(evt):
        op, a, b = e
        if op in (3, 6):
            now += max(0, a)
        elif op == 4 and comp[a] is None:
            comp[a] = (now, k)
        elif op == 2:
            live[a] = False
        elif op == 1 and live[a]:
            if first[a] is None:
                first[a], firstk[a] = now, k
            dl = first[a] + tm[a]
            if dl <= now < tick_up(g, dl):
                window += 1
            if comp[a] is not None and now >= tick_up(g, dl) and (cancel or firstk[a] < k):
                ties += 1
                if comp[a][0] == dl:
                    exact += 1
            if o[0] != 0:
                live[a] = False
    return ties, exact, window


def nontrivial(s, t):
    d = decode(s, t)
    if not d:
        return True
    return any(o[0] == 3 for (_, o) in d[3]) or _ties(s, t)[0] > 0


def classify(s, t):
    cancel, n, tm = header(s)
    out = ["cancel" if cancel else "nocancel", "per_request" if (len(s) > 1 and max(0, s[1]) % 2) else "fixed", "callers%d" % n,
           "unit_us" if tick_of(s) > 1 else "unit_ms", "handle_" + ["fresh_clone", "same_value", "clone_of_clone", "two_handles"][handle_mode(s)]]
    if hungry_mask(s) & ((1 << n) - 1):
        out.append("hungry_inner")
    if len(s) > 1 and (max(0, s[1]) >> 2) & 1:
        out.append("service_dropped_after_call")
    body, now, rdy, gap, saw = s[4 + n:], 0, {}, False, False
    for k in range(0, len(body) - len(body) % 3, 3):
        op, a, b = body[k:k + 3]
        if op in (3, 6):
            now += max(0, a)
        elif op == 7 and 0 <= a < n:
            saw = True
            rdy.setdefault(a, now)
        elif op in (1, 2, 5) and 0 <= a < n:
            if a in rdy and rdy[a] is not None and rdy[a] < now:
                gap = True
            rdy[a] = None
    if saw:
        out.append("ready_op")
    if gap:
        out.append("ready_earlier_than_call")
    if any(BIG <= x for x in tm):
        out.append("duration_max")
    if any(10 ** 10 <= x < BIG for x in tm):
        out.append("timeout_years")
    if any(1000 * tick_of(s) <= x < 10 ** 10 for x in tm):
        out.append("timeout_1s_or_more")
    d = decode(s, t)
    if d:
        rs = set(o[0] for (_, o) in d[3])
        for r, name in ((1, "ok"), (2, "inner_err"), (3, "timeout"), (5, "panic")):
            if r in rs:
                out.append("saw_" + name)
        ties, exact, window = _ties(s, t)
        if ties:
            out.append("both_ready_poll")
        if exact:
            out.append("exact_tie")
        if window:
            out.append("poll_between_deadline_and_tick")
        if any(e[0] == 2 for (e, _) in d[3]):
            out.append("has_cancel")
        if any(e[0] == 6 for (e, _) in d[3]):
            out.append("clock_jump")
        if 0 in tm:
            out.append("zero_timeout")
        seen = set()
        for (e, _) in d[3]:
            if e[0] == 5 and e[1] not in seen:
                out.append("call_before_first_poll")
                break
            if e[0] in (1, 2):
                seen.add(e[1])
        if not cancel and any(((o[3] >> (2 * j)) & 3) == 2 for (_, o) in d[3][-1:] for j in range(n)) and 3 in rs:
            out.append("ran_on_after_timeout")
        if 3 in rs and any(1000 * tick_of(s) <= x for x in tm):
            # a timeout of a second or more actually fired
            now, first = 0, {}
            for (e, o) in d[3]:
                if e[0] in (3, 6):
                    now += max(0, e[1])
                elif e[0] == 1:
                    first.setdefault(e[1], now)
                    if o[0] == 3 and tm[e[1]] >= 1000 * tick_of(s):
                        out.append("long_timeout_fired")
                        break
    return out


def shrink(s):
    cancel, n, tm = header(s)
    head, body = s[:4 + n], s[4 + n:]
    k = len(body) // 3
    for i in range(k):
        yield head + body[:3 * i] + body[3 * i + 3:]
    if len(head) > 1 and head[1] >= 4:
        yield [head[0], head[1] % 4] + head[2:] + body   # keep a service handle alive
    if head and head[0] >= 16:
        yield [head[0] % 16] + head[1:] + body          # no budget-hungry inner calls
    if head and (head[0] >> 2) & 3:
        yield [head[0] - 4 * ((head[0] >> 2) & 3)] + head[1:] + body   # fresh clone per call
