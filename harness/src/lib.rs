//! Deterministic drivers for the correspondence check.
//! Every binary reads one script per line on stdin (decimal integers) and prints
//! one trace line per script (decimal integers), exactly like ocaml/driver.
use std::future::Future;
use std::io::{BufRead, Write};
use std::pin::Pin;
use std::sync::atomic::{AtomicBool, Ordering};
use std::sync::Arc;
use std::task::{Context, Poll, Wake, Waker};

pub type Script = Vec<i128>;

pub fn zn(s: &[i128], i: usize) -> i128 {
    s.get(i).copied().unwrap_or(0)
}

/// Run `f` once per input line; panics escaping `f` are reported as the trace `-999`.
/// Scripts started so far; bit 63 set while one is running. Read by the hang watchdog.
static SCRIPT_SEQ: std::sync::atomic::AtomicU64 = std::sync::atomic::AtomicU64::new(0);

/// A change to the code under test can make a script hang (a lost wake-up under the baton scheduler, a
/// spin that never ends). The watchdog turns that into an answer: if one script has been running for
/// VERIF_SCRIPT_TIMEOUT_S seconds of REAL time (default 30; counted in sleep ticks because the clock is
/// virtual), it writes the trace `-997` for it and exits with status 97; bin/check then reports the
/// script as hung and runs the remaining scripts in a fresh process.
fn spawn_watchdog() {
    let limit_ticks: u64 = std::env::var("VERIF_SCRIPT_TIMEOUT_S")
        .ok()
        .and_then(|s| s.parse::<u64>().ok())
        .unwrap_or(30)
        * 10;
    std::thread::spawn(move || {
        let mut last = 0u64;
        let mut ticks = 0u64;
        loop {
            std::thread::sleep(std::time::Duration::from_millis(100));
            let cur = SCRIPT_SEQ.load(Ordering::SeqCst);
            if cur != last {
                last = cur;
                ticks = 0;
            } else if cur >> 63 == 1 {
                ticks += 1;
                if ticks >= limit_ticks {
                    let msg = b"-997\n";
                    unsafe {
                        libc::write(1, msg.as_ptr() as *const libc::c_void, msg.len());
                        libc::_exit(97);
                    }
                }
            }
        }
    });
}

pub fn main_loop<F: FnMut(&[i128]) -> Vec<i128>>(mut f: F) {
    std::panic::set_hook(Box::new(|_| {}));
    install_observers();
    spawn_watchdog();
    let stdin = std::io::stdin();
    let stdout = std::io::stdout();
    let mut out = std::io::BufWriter::new(stdout.lock());
    let mut seq: u64 = 0;
    for line in stdin.lock().lines() {
        let line = line.unwrap();
        seq += 1;
        SCRIPT_SEQ.store(seq | (1 << 63), Ordering::SeqCst);
        let script: Script = line
            .split_whitespace()
            .map(|t| t.parse::<i128>().expect("bad integer"))
            .collect();
        let tr = match std::panic::catch_unwind(std::panic::AssertUnwindSafe(|| f(&script))) {
            Ok(t) => t,
            Err(_) => vec![-999],
        };
        let strs: Vec<String> = tr.iter().map(|x| x.to_string()).collect();
        writeln!(out, "{}", strs.join(" ")).unwrap();
        // flushed per script so that the watchdog's `-997` lands right after the last finished trace
        out.flush().unwrap();
        SCRIPT_SEQ.store(seq, Ordering::SeqCst);
    }
    out.flush().unwrap();
}

/// A current-thread runtime with a paused clock.
pub fn paused_rt() -> tokio::runtime::Runtime {
    tokio::runtime::Builder::new_current_thread()
        .enable_time()
        .start_paused(true)
        .build()
        .unwrap()
}

pub struct Flag(pub AtomicBool);
impl Wake for Flag {
    fn wake(self: Arc<Self>) {
        self.0.store(true, Ordering::SeqCst);
    }
    fn wake_by_ref(self: &Arc<Self>) {
        self.0.store(true, Ordering::SeqCst);
    }
}

/// A future owned by the harness and polled by hand with its own wake flag.
pub struct Manual<T> {
    pub fut: Option<Pin<Box<dyn Future<Output = T>>>>,
    pub flag: Arc<Flag>,
    pub done: Option<T>,
    pub panicked: bool,
    /// keep a completed future alive (un-polled) until `drop_fut`: callers may hold on to a finished
    /// future (pinned on the stack, a select! arm, a struct field) and drop it much later
    pub keep_done: bool,
    pub parked: Option<Pin<Box<dyn Future<Output = T>>>>,
}

impl<T> Manual<T> {
    pub fn new(f: impl Future<Output = T> + 'static) -> Self {
        Manual {
            fut: Some(Box::pin(f)),
            flag: Arc::new(Flag(AtomicBool::new(false))),
            done: None,
            panicked: false,
            keep_done: false,
            parked: None,
        }
    }
    /// Poll once. Returns true if the future completed in this poll (or panicked).
    pub fn poll(&mut self) -> bool {
        let Some(f) = self.fut.as_mut() else { return false };
        self.flag.0.store(false, Ordering::SeqCst);
        let w = Waker::from(self.flag.clone());
        let mut cx = Context::from_waker(&w);
        let r = std::panic::catch_unwind(std::panic::AssertUnwindSafe(|| f.as_mut().poll(&mut cx)));
        match r {
            Ok(Poll::Ready(v)) => {
                self.done = Some(v);
                if self.keep_done {
                    self.parked = self.fut.take();
                } else {
                    self.fut = None;
                }
                true
            }
            Ok(Poll::Pending) => false,
            Err(_) => {
                self.panicked = true;
                self.fut = None;
                true
            }
        }
    }
    pub fn woken(&self) -> bool {
        self.flag.0.load(Ordering::SeqCst)
    }
    pub fn drop_fut(&mut self) {
        self.fut = None;
        self.parked = None;
    }
    pub fn alive(&self) -> bool {
        self.fut.is_some()
    }
}

/// Let spawned tasks and timers settle without moving the clock.
pub async fn settle() {
    for _ in 0..8 {
        tokio::task::yield_now().await;
    }
}

/// Advance the paused clock by `ms` whole milliseconds, one at a time.
pub async fn advance_ms(ms: u64) {
    for _ in 0..ms {
        VIRT_NS.fetch_add(1_000_000, Ordering::SeqCst);
        tokio::time::advance(std::time::Duration::from_millis(1)).await;
        settle().await;
    }
}

// ---------------------------------------------------------------------------
// Virtual time at the libc boundary.
// std::time::Instant::now() calls clock_gettime(CLOCK_MONOTONIC); this definition,
// linked into every harness binary, takes precedence over libc's, so every
// Instant in the code under test (rate limiter windows, cache TTLs, circuit
// breaker timestamps, measured call durations) reads the harness's virtual clock.
// The tokio runtime is paused; `advance_ms` moves both clocks in lock-step.
// No source change in /repo is needed for time.
pub static VIRT_NS: std::sync::atomic::AtomicU64 = std::sync::atomic::AtomicU64::new(0);
const FAKE_BASE_S: i64 = 1_000_000;
/// Opt-in (default off, so no other driver changes behaviour): when set, the wall clock
/// (CLOCK_REALTIME*, i.e. std::time::SystemTime::now()) reads the same virtual clock, so that
/// code keyed on wall-clock time is deterministic too (used by the C08 driver: a time-based
/// refill of a retry budget must show whichever clock it uses).
pub static VIRT_REALTIME: AtomicBool = AtomicBool::new(false);
const FAKE_EPOCH_S: i64 = 1_700_000_000;

#[no_mangle]
pub unsafe extern "C" fn clock_gettime(clk: libc::clockid_t, ts: *mut libc::timespec) -> libc::c_int {
    if clk == libc::CLOCK_MONOTONIC || clk == libc::CLOCK_MONOTONIC_RAW || clk == libc::CLOCK_BOOTTIME
        || clk == libc::CLOCK_MONOTONIC_COARSE
    {
        let v = VIRT_NS.load(Ordering::SeqCst);
        (*ts).tv_sec = FAKE_BASE_S + (v / 1_000_000_000) as i64;
        (*ts).tv_nsec = (v % 1_000_000_000) as i64;
        0
    } else if (clk == libc::CLOCK_REALTIME || clk == libc::CLOCK_REALTIME_COARSE) && VIRT_REALTIME.load(Ordering::SeqCst) {
        let v = VIRT_NS.load(Ordering::SeqCst);
        (*ts).tv_sec = FAKE_EPOCH_S + (v / 1_000_000_000) as i64;
        (*ts).tv_nsec = (v % 1_000_000_000) as i64;
        0
    } else {
        libc::syscall(libc::SYS_clock_gettime, clk, ts) as libc::c_int
    }
}

/// Current virtual time in nanoseconds.
pub fn now_ns() -> u64 {
    VIRT_NS.load(Ordering::SeqCst)
}

// ---------------------------------------------------------------------------
// Scripted ("gated") inner service: a call never finishes by itself; the script
// completes the n-th call made with request `req` through `complete(req, n, outcome)`.
use std::collections::HashMap;
use std::sync::atomic::AtomicI64;
use std::sync::Mutex;
use tokio::sync::oneshot;

#[derive(Debug, Clone, Copy, PartialEq)]
pub enum Outcome {
    Ok(i128),
    Err(i128),
    Panic,
}

#[derive(Default)]
struct Gate {
    tx: Option<oneshot::Sender<Outcome>>,
    rx: Option<oneshot::Receiver<Outcome>>,
}

#[derive(Default)]
pub struct InnerShared {
    gates: Mutex<HashMap<(i128, u32), Gate>>,
    counts: Mutex<HashMap<i128, u32>>,
    pub inflight: AtomicI64,
    /// (request, in-flight count including this call) for every inner call started
    pub starts: Mutex<Vec<(i128, i64)>>,
    /// requests whose inner future ran to completion (not dropped)
    pub finished: Mutex<Vec<i128>>,
    /// requests whose inner future was dropped before completing
    pub dropped: Mutex<Vec<i128>>,
}

impl InnerShared {
    fn gate(&self, key: (i128, u32)) -> std::sync::MutexGuard<'_, HashMap<(i128, u32), Gate>> {
        let mut g = self.gates.lock().unwrap();
        g.entry(key).or_insert_with(|| {
            let (tx, rx) = oneshot::channel();
            Gate { tx: Some(tx), rx: Some(rx) }
        });
        g
    }
    /// Complete the n-th call made with request `req` (may be called before that call starts).
    pub fn complete(&self, req: i128, n: u32, o: Outcome) -> bool {
        let mut g = self.gate((req, n));
        match g.get_mut(&(req, n)).unwrap().tx.take() {
            Some(tx) => {
                let _ = tx.send(o);
                true
            }
            None => false,
        }
    }
    pub fn take_starts(&self) -> Vec<(i128, i64)> {
        std::mem::take(&mut *self.starts.lock().unwrap())
    }
    pub fn inflight(&self) -> i64 {
        self.inflight.load(Ordering::SeqCst)
    }
}

#[derive(Clone)]
pub struct GatedInner(pub Arc<InnerShared>);

impl GatedInner {
    pub fn new() -> Self {
        GatedInner(Arc::new(InnerShared::default()))
    }
}

struct InflightGuard {
    sh: Arc<InnerShared>,
    req: i128,
    done: bool,
}
impl Drop for InflightGuard {
    fn drop(&mut self) {
        self.sh.inflight.fetch_sub(1, Ordering::SeqCst);
        if self.done {
            self.sh.finished.lock().unwrap().push(self.req);
        } else {
            self.sh.dropped.lock().unwrap().push(self.req);
        }
    }
}

impl tower::Service<i128> for GatedInner {
    type Response = i128;
    type Error = i128;
    type Future = Pin<Box<dyn Future<Output = Result<i128, i128>> + Send>>;
    fn poll_ready(&mut self, _cx: &mut Context<'_>) -> Poll<Result<(), i128>> {
        Poll::Ready(Ok(()))
    }
    fn call(&mut self, req: i128) -> Self::Future {
        let sh = self.0.clone();
        let n = {
            let mut c = sh.counts.lock().unwrap();
            let e = c.entry(req).or_insert(0);
            let n = *e;
            *e += 1;
            n
        };
        let seen = sh.inflight.fetch_add(1, Ordering::SeqCst) + 1;
        sh.starts.lock().unwrap().push((req, seen));
        let rx = {
            let mut g = sh.gate((req, n));
            g.get_mut(&(req, n)).unwrap().rx.take().unwrap()
        };
        let guard = InflightGuard { sh, req, done: false };
        Box::pin(async move {
            let mut guard = guard; // capture the whole guard (not just its Copy field)
            let o = rx.await;
            match o {
                Ok(Outcome::Ok(v)) => {
                    guard.done = true;
                    Ok(v)
                }
                Ok(Outcome::Err(e)) => {
                    guard.done = true;
                    Err(e)
                }
                Ok(Outcome::Panic) => panic!("scripted inner panic"),
                Err(_) => std::future::pending().await,
            }
        })
    }
}


// ---------------------------------------------------------------------------------------------
// Observers: the harness builds every crate with its `metrics` and `tracing` features, and installs
// a process-wide tracing subscriber and a metrics recorder that accept everything, so that the code
// inside the crates' `#[cfg(feature = "metrics")]` / `#[cfg(feature = "tracing")]` blocks is compiled
// AND executed (field and label expressions are evaluated, values are formatted) in every
// correspondence run.  Neither observer has any effect on a trace.  A driver that wants a recorder of
// its own (c11) installs it before `main_loop`; the second installation then fails silently.
// `VERIF_NO_OBSERVERS=1` switches both off (the blocks are then compiled but their macros are inert).

struct FieldSink(usize);
impl tracing::field::Visit for FieldSink {
    fn record_debug(&mut self, _f: &tracing::field::Field, v: &dyn std::fmt::Debug) {
        use std::fmt::Write as _;
        let mut s = String::new();
        let _ = write!(s, "{:?}", v);
        self.0 += s.len();
    }
}
struct AcceptAll;
impl tracing::Subscriber for AcceptAll {
    fn enabled(&self, _: &tracing::Metadata<'_>) -> bool {
        true
    }
    fn new_span(&self, a: &tracing::span::Attributes<'_>) -> tracing::span::Id {
        a.record(&mut FieldSink(0));
        tracing::span::Id::from_u64(1)
    }
    fn record(&self, _: &tracing::span::Id, v: &tracing::span::Record<'_>) {
        v.record(&mut FieldSink(0));
    }
    fn record_follows_from(&self, _: &tracing::span::Id, _: &tracing::span::Id) {}
    fn event(&self, e: &tracing::Event<'_>) {
        e.record(&mut FieldSink(0));
        OBSERVED_EVENTS.fetch_add(1, Ordering::Relaxed);
    }
    fn enter(&self, _: &tracing::span::Id) {}
    fn exit(&self, _: &tracing::span::Id) {}
}
/// number of tracing events + metric registrations seen by the observers (diagnostic only)
pub static OBSERVED_EVENTS: std::sync::atomic::AtomicU64 = std::sync::atomic::AtomicU64::new(0);
struct CountingRecorder;
impl metrics::Recorder for CountingRecorder {
    fn describe_counter(&self, _: metrics::KeyName, _: Option<metrics::Unit>, _: metrics::SharedString) {}
    fn describe_gauge(&self, _: metrics::KeyName, _: Option<metrics::Unit>, _: metrics::SharedString) {}
    fn describe_histogram(&self, _: metrics::KeyName, _: Option<metrics::Unit>, _: metrics::SharedString) {}
    fn register_counter(&self, k: &metrics::Key, _: &metrics::Metadata<'_>) -> metrics::Counter {
        let _ = k.labels().count();
        OBSERVED_EVENTS.fetch_add(1, Ordering::Relaxed);
        metrics::Counter::noop()
    }
    fn register_gauge(&self, k: &metrics::Key, _: &metrics::Metadata<'_>) -> metrics::Gauge {
        let _ = k.labels().count();
        OBSERVED_EVENTS.fetch_add(1, Ordering::Relaxed);
        metrics::Gauge::noop()
    }
    fn register_histogram(&self, k: &metrics::Key, _: &metrics::Metadata<'_>) -> metrics::Histogram {
        let _ = k.labels().count();
        OBSERVED_EVENTS.fetch_add(1, Ordering::Relaxed);
        metrics::Histogram::noop()
    }
}
pub fn install_observers() {
    if std::env::var_os("VERIF_NO_OBSERVERS").is_some() {
        return;
    }
    let _ = tracing::subscriber::set_global_default(AcceptAll);
    let _ = metrics::set_global_recorder(CountingRecorder);
}
