//! Deterministic drivers for the correspondence check.
//! Every binary reads one script per line on stdin (decimal integers) and prints
//! one trace line per script (decimal integers), exactly like ocaml/driver.
use std::future::Future;
use std::io::{BufRead, Write};
use std::pin::Pin;
use std::sync::atomic::{AtomicBool, Ordering};
use std::sync::Arc;
use std::task::{Context, Poll, Wake, Waker};

pub type Script = Vec<i128>;

pub fn zn(s: &[i128], i: usize) -> i128 {
    s.get(i).copied().unwrap_or(0)
}

/// Run `f` once per input line; panics escaping `f` are reported as the trace `-999`.
pub fn main_loop<F: FnMut(&[i128]) -> Vec<i128>>(mut f: F) {
    std::panic::set_hook(Box::new(|_| {}));
    let stdin = std::io::stdin();
    let stdout = std::io::stdout();
    let mut out = std::io::BufWriter::new(stdout.lock());
    for line in stdin.lock().lines() {
        let line = line.unwrap();
        let script: Script = line
            .split_whitespace()
            .map(|t| t.parse::<i128>().expect("bad integer"))
            .collect();
        let tr = match std::panic::catch_unwind(std::panic::AssertUnwindSafe(|| f(&script))) {
            Ok(t) => t,
            Err(_) => vec![-999],
        };
        let strs: Vec<String> = tr.iter().map(|x| x.to_string()).collect();
        writeln!(out, "{}", strs.join(" ")).unwrap();
    }
    out.flush().unwrap();
}

/// A current-thread runtime with a paused clock.
pub fn paused_rt() -> tokio::runtime::Runtime {
    tokio::runtime::Builder::new_current_thread()
        .enable_time()
        .start_paused(true)
        .build()
        .unwrap()
}

pub struct Flag(pub AtomicBool);
impl Wake for Flag {
    fn wake(self: Arc<Self>) {
        self.0.store(true, Ordering::SeqCst);
    }
    fn wake_by_ref(self: &Arc<Self>) {
        self.0.store(true, Ordering::SeqCst);
    }
}

/// A future owned by the harness and polled by hand with its own wake flag.
pub struct Manual<T> {
    pub fut: Option<Pin<Box<dyn Future<Output = T>>>>,
    pub flag: Arc<Flag>,
    pub done: Option<T>,
    pub panicked: bool,
}

impl<T> Manual<T> {
    pub fn new(f: impl Future<Output = T> + 'static) -> Self {
        Manual {
            fut: Some(Box::pin(f)),
            flag: Arc::new(Flag(AtomicBool::new(false))),
            done: None,
            panicked: false,
        }
    }
    /// Poll once. Returns true if the future completed in this poll (or panicked).
    pub fn poll(&mut self) -> bool {
        let Some(f) = self.fut.as_mut() else { return false };
        self.flag.0.store(false, Ordering::SeqCst);
        let w = Waker::from(self.flag.clone());
        let mut cx = Context::from_waker(&w);
        let r = std::panic::catch_unwind(std::panic::AssertUnwindSafe(|| f.as_mut().poll(&mut cx)));
        match r {
            Ok(Poll::Ready(v)) => {
                self.done = Some(v);
                self.fut = None;
                true
            }
            Ok(Poll::Pending) => false,
            Err(_) => {
                self.panicked = true;
                self.fut = None;
                true
            }
        }
    }
    pub fn woken(&self) -> bool {
        self.flag.0.load(Ordering::SeqCst)
    }
    pub fn drop_fut(&mut self) {
        self.fut = None;
    }
    pub fn alive(&self) -> bool {
        self.fut.is_some()
    }
}

/// Let spawned tasks and timers settle without moving the clock.
pub async fn settle() {
    for _ in 0..8 {
        tokio::task::yield_now().await;
    }
}

/// Advance the paused clock by `ms` whole milliseconds, one at a time.
pub async fn advance_ms(ms: u64) {
    for _ in 0..ms {
        VIRT_NS.fetch_add(1_000_000, Ordering::SeqCst);
        tokio::time::advance(std::time::Duration::from_millis(1)).await;
        settle().await;
    }
}

// ---------------------------------------------------------------------------
// Virtual time at the libc boundary.
// std::time::Instant::now() calls clock_gettime(CLOCK_MONOTONIC); this definition,
// linked into every harness binary, takes precedence over libc's, so every
// Instant in the code under test (rate limiter windows, cache TTLs, circuit
// breaker timestamps, measured call durations) reads the harness's virtual clock.
// The tokio runtime is paused; `advance_ms` moves both clocks in lock-step.
// No source change in /repo is needed for time.
pub static VIRT_NS: std::sync::atomic::AtomicU64 = std::sync::atomic::AtomicU64::new(0);
const FAKE_BASE_S: i64 = 1_000_000;

#[no_mangle]
pub unsafe extern "C" fn clock_gettime(clk: libc::clockid_t, ts: *mut libc::timespec) -> libc::c_int {
    if clk == libc::CLOCK_MONOTONIC || clk == libc::CLOCK_MONOTONIC_RAW || clk == libc::CLOCK_BOOTTIME
        || clk == libc::CLOCK_MONOTONIC_COARSE
    {
        let v = VIRT_NS.load(Ordering::SeqCst);
        (*ts).tv_sec = FAKE_BASE_S + (v / 1_000_000_000) as i64;
        (*ts).tv_nsec = (v % 1_000_000_000) as i64;
        0
    } else {
        libc::syscall(libc::SYS_clock_gettime, clk, ts) as libc::c_int
    }
}

/// Current virtual time in nanoseconds.
pub fn now_ns() -> u64 {
    VIRT_NS.load(Ordering::SeqCst)
}
