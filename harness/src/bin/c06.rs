//! C06: time limiter.
//! script = [cancel, dyn, n, T, t_0..t_{n-1}, (op a b)*]
//!   cancel: bit 0 = cancel_running_future(true); bit 1 = the builder sets it BEFORE the timeout setter;
//!           bits 2-3 = how the calls reach the service (harness only, the limiter keeps no state between calls):
//!             0 every call on a fresh clone of one pristine service value
//!             1 every call on the SAME service value (`svc.ready().call()` loop)
//!             2 every call on a clone of the value the previous call was made on (clone of clone of ...)
//!             3 two handles (the value and one clone made up front) used alternately
//!           bits 4.. = mask of callers whose inner call is BUDGET-HUNGRY (bit 4+j: caller j): until its scripted
//!             completion every poll of that inner future uses up the whole tokio cooperative budget of the task that
//!             polls it (a handler draining an always-ready channel) and returns Pending. The property and the model do
//!             not distinguish such an inner call from an ordinary one.
//!   dyn:    bit 0: 0 = timeout_duration(T), 1 = timeout_fn(i -> t_i); bit 1 = the time unit of the whole script
//!           (timeouts, Advance amounts) is the microsecond instead of the millisecond; bit 2 = every call is made on a
//!           service value of its own (layer.layer(inner)) that is DROPPED as soon as call() has returned the future
//!           (no handle of that TimeLimiter survives the call; overrides the handle mode)
//!   a timeout >= 10^15 units stands for Duration::MAX
//!   op 1 Poll a | 2 Drop a | 3 Advance a (ms unit: one millisecond at a time; us unit: one step) |
//!      4 Complete a b (0 ok, 1 err, 2 panic) | 5 Call a (build the future now) | 6 Advance a in ONE step |
//!      7 Ready a: pick the service value caller a's call will be made on and poll_ready it NOW (call() follows at the
//!        caller's first op 1/2/5, without another poll_ready); no trace entry
//! trace per event = [r, val, wake mask, inner-call states base 4]
use std::future::Future;
use std::pin::Pin;
use std::time::Duration;
use tower::{Layer, Service};
use tower_resilience_timelimiter::{TimeLimiterError, TimeLimiterLayer};
use verif_harness::*;

type Res = Result<i128, TimeLimiterError<i128>>;
type Fut = Pin<Box<dyn Future<Output = Res>>>;

/// An inner future that, until the wrapped (gated) future completes, burns the whole cooperative budget of the
/// polling task on every poll: `loop { consume_budget().await }` guarded by the completion. The budget probe is
/// polled with a no-op waker, so the only wake-ups are those of the gated future (its scripted completion).
struct Hungry<F>(F);
impl<F: Future + Unpin> Future for Hungry<F> {
    type Output = F::Output;
    fn poll(mut self: Pin<&mut Self>, cx: &mut std::task::Context<'_>) -> std::task::Poll<F::Output> {
        if let std::task::Poll::Ready(v) = Pin::new(&mut self.0).poll(cx) {
            return std::task::Poll::Ready(v);
        }
        let w = futures::task::noop_waker();
        let mut ncx = std::task::Context::from_waker(&w);
        for _ in 0..100_000 {
            let mut probe = std::pin::pin!(tokio::task::consume_budget());
            if probe.as_mut().poll(&mut ncx).is_pending() {
                break; // budget exhausted
            }
        }
        std::task::Poll::Pending
    }
}

/// The gated inner service; calls of the callers in `mask` are budget-hungry.
#[derive(Clone)]
struct Inner {
    g: GatedInner,
    mask: i128,
}
impl Service<i128> for Inner {
    type Response = i128;
    type Error = i128;
    type Future = Pin<Box<dyn Future<Output = Result<i128, i128>> + Send>>;
    fn poll_ready(&mut self, cx: &mut std::task::Context<'_>) -> std::task::Poll<Result<(), i128>> {
        self.g.poll_ready(cx)
    }
    fn call(&mut self, req: i128) -> Self::Future {
        let f = self.g.call(req);
        if req >= 0 && req < 100 && (self.mask >> req) & 1 != 0 { Box::pin(Hungry(f)) } else { f }
    }
}

/// poll_ready on one service value (the gated inner service is always ready)
fn ready_on<S>(c: &mut S)
where
    S: Service<i128, Response = i128, Error = TimeLimiterError<i128>>,
{
    let w = futures::task::noop_waker();
    let mut cx = std::task::Context::from_waker(&w);
    let _ = c.poll_ready(&mut cx);
}

/// the service value the call of one caller is (going to be) made on
enum Slot<S> {
    Own(S),
    Shared(usize),
}

/// How a call reaches the service. `make(req, true)` = op 7: pick the service value for caller `req` and drive it
/// to readiness now; `make(req, false)` = call() on that value (picked and polled ready at this instant if it was not
/// before). `drop_after`: every call gets a service value of its own, built from the layer, and that value - the only
/// handle of that TimeLimiter - is dropped as soon as call() has returned the future (ServiceExt::oneshot style).
fn maker<S, F>(factory: F, mode: i128, drop_after: bool) -> Box<dyn FnMut(i128, bool) -> Option<Fut>>
where
    F: Fn() -> S + 'static,
    S: Service<i128, Response = i128, Error = TimeLimiterError<i128>> + Clone + 'static,
    S::Future: 'static,
{
    let mut handles: Vec<S> = if drop_after {
        Vec::new()
    } else if mode == 3 {
        let a = factory();
        let b = a.clone();
        vec![a, b]
    } else {
        vec![factory()]
    };
    let mut k = 0usize;
    let mut slots: std::collections::HashMap<i128, Slot<S>> = std::collections::HashMap::new();
    Box::new(move |req, ready_only| {
        if !slots.contains_key(&req) {
            let slot = if drop_after {
                let mut c = factory();
                ready_on(&mut c);
                Slot::Own(c)
            } else {
                match mode {
                    1 => {
                        ready_on(&mut handles[0]);
                        Slot::Shared(0)
                    }
                    3 => {
                        k += 1;
                        let idx = (k + 1) % 2;
                        ready_on(&mut handles[idx]);
                        Slot::Shared(idx)
                    }
                    _ => {
                        // 0: fresh clone of the pristine value; 2: clone of the value the previous call was made on
                        let mut c = handles[0].clone();
                        ready_on(&mut c);
                        Slot::Own(c)
                    }
                }
            };
            slots.insert(req, slot);
        }
        if ready_only {
            return None;
        }
        Some(match slots.remove(&req).unwrap() {
            Slot::Shared(i) => Box::pin(handles[i].call(req)) as Fut,
            Slot::Own(mut c) => {
                let f = Box::pin(c.call(req)) as Fut;
                if mode == 2 && !drop_after {
                    handles[0] = c;
                }
                f
            }
        })
    })
}

/// move both clocks by `d` in one step
async fn jump(d: Duration) {
    VIRT_NS.fetch_add(d.as_nanos() as u64, std::sync::atomic::Ordering::SeqCst);
    tokio::time::advance(d).await;
    settle().await;
}

fn run(s: &[i128]) -> Vec<i128> {
    let h0 = zn(s, 0).max(0);
    let cancel = h0 % 2 != 0;
    let cancel_first = (h0 >> 1) & 1 != 0; // builder order: cancel_running_future before the timeout setter
    let handle_mode = (h0 >> 2) & 3;
    let hungry_mask = h0 >> 4;
    let h1 = zn(s, 1).max(0);
    let dynamic = h1 % 2 != 0;
    let us = (h1 >> 1) & 1 != 0;
    let drop_after = (h1 >> 2) & 1 != 0;
    let unit = move |v: u64| -> Duration { if us { Duration::from_micros(v) } else { Duration::from_millis(v) } };
    let dur = move |v: u64| -> Duration { if v >= 1_000_000_000_000_000 { Duration::MAX } else { unit(v) } };
    let n = zn(s, 2).max(0) as usize;
    let fixed = zn(s, 3).max(0) as u64;
    let per: Vec<u64> = (0..n).map(|i| zn(s, 4 + i).max(0) as u64).collect();
    let rt = paused_rt();
    rt.block_on(async move {
        let gated = GatedInner::new();
        let sh = gated.0.clone();
        let inner = Inner { g: gated, mask: hungry_mask };
        let mut make: Box<dyn FnMut(i128, bool) -> Option<Fut>> = if dynamic {
            let per = per.clone();
            let f = move |req: &i128| dur(per[*req as usize]);
            let layer = if cancel_first {
                TimeLimiterLayer::builder().cancel_running_future(cancel).timeout_fn(f).build()
            } else {
                TimeLimiterLayer::builder().timeout_fn(f).cancel_running_future(cancel).build()
            };
            maker(move || layer.layer(inner.clone()), handle_mode, drop_after)
        } else {
            let layer = if cancel_first {
                TimeLimiterLayer::builder().cancel_running_future(cancel).timeout_duration(dur(fixed)).build()
            } else {
                TimeLimiterLayer::builder().timeout_duration(dur(fixed)).cancel_running_future(cancel).build()
            };
            maker(move || layer.layer(inner.clone()), handle_mode, drop_after)
        };
        let mut callers: Vec<Option<Manual<Res>>> = (0..n).map(|_| None).collect();
        let mut started = vec![false; n];
        let mut tr = Vec::new();
        let start = (4 + n).min(s.len());
        for c in s[start..].chunks(3).filter(|c| c.len() == 3) {
            let (op, a, b) = (c[0], c[1], c[2]);
            let mut r: i128 = -1;
            let mut val: i128 = -1;
            // cancel mode, "the inner call is dropped AT the deadline": the poll that answers Timeout must already
            // have dropped the inner call when it returns. An inner call that is still alive at that moment and
            // only disappears during the settle that follows (handed to a spawned clean-up task, say) is reported
            // as still running (digit 1) for this event.
            let mut alive_at_return: Option<usize> = None;
            if op != 3 && op != 6 && (a < 0 || a as usize >= n) {
                continue;
            }
            match op {
                1 | 2 | 5 => {
                    let i = a as usize;
                    if callers[i].is_none() {
                        callers[i] = Some(Manual::new(make(a, false).unwrap()));
                    }
                    let m = callers[i].as_mut().unwrap();
                    if op == 1 {
                        if !m.alive() {
                            r = 9;
                        } else {
                            let fin = m.poll();
                            r = if !fin {
                                0
                            } else if m.panicked {
                                5
                            } else {
                                match m.done.take().unwrap() {
                                    Ok(v) => { val = v; 1 }
                                    Err(TimeLimiterError::Inner(e)) => { val = e; 2 }
                                    Err(TimeLimiterError::Timeout) => 3,
                                }
                            };
                            if r == 3 && cancel
                                && !sh.dropped.lock().unwrap().contains(&a)
                                && !sh.finished.lock().unwrap().contains(&a)
                            {
                                alive_at_return = Some(i);
                            }
                        }
                    } else if op == 2 {
                        m.drop_fut();
                        m.flag.0.store(false, std::sync::atomic::Ordering::SeqCst);
                    }
                }
                3 if !us => advance_ms(a.max(0) as u64).await,
                3 | 6 => jump(unit(a.clamp(0, 10_000_000_000_000) as u64)).await,
                7 => {
                    // poll_ready now, call() later: no trace entry (the model has no such event)
                    if callers[a as usize].is_none() {
                        make(a, true);
                    }
                    continue;
                }
                4 => {
                    sh.complete(a, 0, match b { 0 => Outcome::Ok(a), 1 => Outcome::Err(a), _ => Outcome::Panic });
                }
                _ => continue,
            }
            settle().await;
            let mut mask: i128 = 0;
            for (j, c) in callers.iter().enumerate() {
                if let Some(m) = c { if m.alive() && m.woken() { mask += 1i128 << j; } }
            }
            for (req, _) in sh.take_starts() { started[req as usize] = true; }
            let fin = sh.finished.lock().unwrap().clone();
            let drp = sh.dropped.lock().unwrap().clone();
            let mut vec: i128 = 0;
            for j in 0..n {
                let code: i128 = if fin.contains(&(j as i128)) { 2 }
                    else if drp.contains(&(j as i128)) { if alive_at_return == Some(j) { 1 } else { 3 } }
                    else if started[j] { 1 } else { 0 };
                vec += code << (2 * j);
            }
            tr.extend([r, val, mask, vec]);
        }
        tr
    })
}

fn main() { main_loop(run); }
