//! C06: time limiter.
//! script = [cancel, dyn, n, T, t_0..t_{n-1}, (op a b)*]
//!   cancel 1 = cancel_running_future(true); dyn 0 = timeout_duration(T ms), 1 = timeout_fn(i -> t_i ms)
//!   op 1 Poll a | 2 Drop a | 3 Advance a ms |
//!      4 Complete a b (0 ok, 1 err, 2 panic) | 5 Call a (build the future now)
//! trace per event = [r, val, wake mask, inner-call states base 4]
use std::future::Future;
use std::pin::Pin;
use std::time::Duration;
use tower::{Layer, Service};
use tower_resilience_timelimiter::{TimeLimiterError, TimeLimiterLayer};
use verif_harness::*;

type Res = Result<i128, TimeLimiterError<i128>>;
type Fut = Pin<Box<dyn Future<Output = Res>>>;

fn run(s: &[i128]) -> Vec<i128> {
    let cancel = zn(s, 0) % 2 != 0;
    let cancel_first = zn(s, 0) >= 2;   // builder order: cancel_running_future before the timeout setter
    fn ms(v: u64) -> Duration { if v >= 1_000_000_000_000_000 { Duration::MAX } else { Duration::from_millis(v) } }
    let dynamic = zn(s, 1) != 0;
    let n = zn(s, 2).max(0) as usize;
    let fixed = zn(s, 3).max(0) as u64;
    let per: Vec<u64> = (0..n).map(|i| zn(s, 4 + i).max(0) as u64).collect();
    let rt = paused_rt();
    rt.block_on(async move {
        let inner = GatedInner::new();
        let sh = inner.0.clone();
        // one service value; every call goes through poll_ready + call on a clone of it
        let mut make: Box<dyn FnMut(i128) -> Fut> = if dynamic {
            let per = per.clone();
            let f = move |req: &i128| ms(per[*req as usize]);
            let svc = if cancel_first {
                TimeLimiterLayer::builder()
                    .cancel_running_future(cancel)
                    .timeout_fn(f.clone())
                    .build()
                    .layer(inner)
            } else {
                TimeLimiterLayer::builder()
                    .timeout_fn(f)
                    .cancel_running_future(cancel)
                    .build()
                    .layer(inner)
            };
            Box::new(move |req| {
                let mut c = svc.clone();
                // GatedInner is always ready
                let w = futures::task::noop_waker();
                let mut cx = std::task::Context::from_waker(&w);
                let _ = c.poll_ready(&mut cx);
                Box::pin(c.call(req)) as Fut
            })
        } else {
            let svc = if cancel_first {
                TimeLimiterLayer::builder()
                    .cancel_running_future(cancel)
                    .timeout_duration(ms(fixed))
                    .build()
                    .layer(inner)
            } else {
                TimeLimiterLayer::builder()
                    .timeout_duration(ms(fixed))
                    .cancel_running_future(cancel)
                    .build()
                    .layer(inner)
            };
            Box::new(move |req| {
                let mut c = svc.clone();
                let w = futures::task::noop_waker();
                let mut cx = std::task::Context::from_waker(&w);
                let _ = c.poll_ready(&mut cx);
                Box::pin(c.call(req)) as Fut
            })
        };
        let mut callers: Vec<Option<Manual<Res>>> = (0..n).map(|_| None).collect();
        let mut started = vec![false; n];
        let mut tr = Vec::new();
        let start = (4 + n).min(s.len());
        for c in s[start..].chunks(3).filter(|c| c.len() == 3) {
            let (op, a, b) = (c[0], c[1], c[2]);
            let mut r: i128 = -1;
            let mut val: i128 = -1;
            if op != 3 && (a < 0 || a as usize >= n) {
                continue;
            }
            match op {
                1 | 2 | 5 => {
                    let i = a as usize;
                    if callers[i].is_none() {
                        callers[i] = Some(Manual::new(make(a)));
                    }
                    let m = callers[i].as_mut().unwrap();
                    if op == 1 {
                        if !m.alive() {
                            r = 9;
                        } else {
                            let fin = m.poll();
                            r = if !fin {
                                0
                            } else if m.panicked {
                                5
                            } else {
                                match m.done.take().unwrap() {
                                    Ok(v) => { val = v; 1 }
                                    Err(TimeLimiterError::Inner(e)) => { val = e; 2 }
                                    Err(TimeLimiterError::Timeout) => 3,
                                }
                            };
                        }
                    } else if op == 2 {
                        m.drop_fut();
                        m.flag.0.store(false, std::sync::atomic::Ordering::SeqCst);
                    }
                }
                3 => advance_ms(a.max(0) as u64).await,
                4 => {
                    sh.complete(a, 0, match b { 0 => Outcome::Ok(a), 1 => Outcome::Err(a), _ => Outcome::Panic });
                }
                _ => continue,
            }
            settle().await;
            let mut mask: i128 = 0;
            for (j, c) in callers.iter().enumerate() {
                if let Some(m) = c { if m.alive() && m.woken() { mask += 1i128 << j; } }
            }
            for (req, _) in sh.take_starts() { started[req as usize] = true; }
            let fin = sh.finished.lock().unwrap().clone();
            let drp = sh.dropped.lock().unwrap().clone();
            let mut vec: i128 = 0;
            for j in 0..n {
                let code: i128 = if fin.contains(&(j as i128)) { 2 }
                    else if drp.contains(&(j as i128)) { 3 }
                    else if started[j] { 1 } else { 0 };
                vec += code << (2 * j);
            }
            tr.extend([r, val, mask, vec]);
        }
        tr
    })
}

fn main() { main_loop(run); }
