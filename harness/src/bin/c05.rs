//! C05: retry. Script / trace format: see coq/Model/Retry.v (run_script) and gen/c05.py.
//! script = [ma_mode; ma_fixed; pred_mode; bkind; bmax; binit; nreq; L; backoff x L;
//!           nreq blocks [max_i; (okind payload gated ready) x L]; (op a)*]
//! op 1 Poll a | 2 Advance a ms | 3 Complete a | 4 MakeReady a
//! durations: below 2^40 milliseconds, 2^40 + n = n nanoseconds
//! pred_mode: mod 4 = predicate; / 4 != 0: attempts beyond the table fail retryably for ever
//! bkind: bit 0 = token bucket; bkind / 2 = builder route (0 .backoff(FnInterval table), 1 .fixed_backoff(b0),
//!        2 .exponential_backoff(b0), 3 builder default, 4 RetryLayer::exponential_backoff(), 5 aggressive(), 6 conservative())
//! ma_mode: bit 0 = per-request max_attempts; ma_mode / 2 = 0 one service per request,
//!          1 all requests through one Retry handle, 2 through clones of one handle
//! trace = per event [r; payload; wake mask; balance; deposits; grants; denials]
//!         ++ per request [ncalls; (start, end|-1)*] ++ [readiness-contract violations; retries started without a prior grant]
use std::future::Future;
use std::pin::Pin;
use std::sync::atomic::{AtomicUsize, Ordering};
use std::sync::{Arc, Mutex};
use std::task::{Context, Poll, Waker};
use std::time::Duration;
use tokio::sync::oneshot;
use tower::{Layer, Service};
use tower_resilience_retry::{FnInterval, RetryBudget, RetryBudgetBuilder, RetryLayer};
use verif_harness::*;

#[derive(Clone, Debug)]
struct Req {
    id: usize,
    max: usize,
}

#[derive(Clone, Debug)]
struct E {
    code: i128,
    flag: bool,
}

#[derive(Clone, Copy, Default)]
struct Entry {
    okind: i128,
    payload: i128,
    gated: i128,
    ready: i128,
}

#[derive(Default)]
struct PerReq {
    entries: Vec<Entry>,
    ncalls: usize,
    calls: Vec<(i128, i128)>,
    tx: Option<oneshot::Sender<()>>,
    blocked: Option<Waker>,
    released: bool,
}

struct Shared {
    /// what attempts beyond the scripted table do: false = Ok(0), true = Err(code k, flag true)
    tail: bool,
    /// a budget is configured: every retry must have been granted before it starts
    budgeted: bool,
    /// request whose future is being polled, withdrawals granted to each request so far
    current: Mutex<Option<usize>>,
    granted: Mutex<Vec<usize>>,
    ungranted: AtomicUsize,
    per: Mutex<Vec<PerReq>>,
    violations: AtomicUsize,
    t0: u64,
    /// request the harness is about to submit (its poll_ready + call on a possibly shared handle)
    starting: Mutex<Option<usize>>,
    /// max_attempts carried by each request: every attempt must be made with the original request
    maxes: Vec<usize>,
}

impl Shared {
    fn now_ms(&self) -> i128 {
        ((now_ns() - self.t0) / 1_000_000) as i128
    }
    fn entry(&self, id: usize, k: usize) -> Entry {
        let dflt = if self.tail { Entry { okind: 1, payload: k as i128, gated: 0, ready: 0 } } else { Entry::default() };
        self.per.lock().unwrap()[id].entries.get(k).copied().unwrap_or(dflt)
    }
}

/// The wrapped service: one instance (and its clones) per request id. Enforces nothing,
/// but counts calls made on an instance that was not polled ready.
struct Scripted {
    /// request this instance serves; None until the first `call` on a shared handle
    id: Option<usize>,
    sh: Arc<Shared>,
    ready: bool,
}

const DUR_FLAG: i128 = 1 << 40;
fn dur_of(e: i128) -> Duration {
    if e < DUR_FLAG {
        Duration::from_millis(e.max(0) as u64)
    } else {
        Duration::from_nanos((e - DUR_FLAG) as u64)
    }
}

/// Advance both clocks. Short advances go one millisecond at a time (as everywhere in the
/// harness); long ones in a single jump (nothing but hand-polled futures lives in this runtime).
async fn advance(ms: u64) {
    if ms <= 64 {
        advance_ms(ms).await;
    } else {
        VIRT_NS.fetch_add(ms * 1_000_000, Ordering::SeqCst);
        tokio::time::advance(Duration::from_millis(ms)).await;
        settle().await;
    }
}

impl Clone for Scripted {
    fn clone(&self) -> Self {
        Scripted { id: self.id, sh: self.sh.clone(), ready: false }
    }
}

impl Service<Req> for Scripted {
    type Response = i128;
    type Error = E;
    type Future = Pin<Box<dyn Future<Output = Result<i128, E>> + Send>>;

    fn poll_ready(&mut self, cx: &mut Context<'_>) -> Poll<Result<(), E>> {
        let starting = *self.sh.starting.lock().unwrap();
        let Some(id) = starting.or(self.id) else {
            self.ready = true;
            return Poll::Ready(Ok(()));
        };
        let k = self.sh.per.lock().unwrap()[id].ncalls;
        if k == 0 {
            self.ready = true;
            return Poll::Ready(Ok(()));
        }
        let e = self.sh.entry(id, k);
        match e.ready {
            0 => {
                self.ready = true;
                Poll::Ready(Ok(()))
            }
            1 => Poll::Ready(Err(E { code: 100000 + e.payload, flag: true })),
            _ => {
                let mut per = self.sh.per.lock().unwrap();
                let p = &mut per[id];
                if p.released {
                    self.ready = true;
                    Poll::Ready(Ok(()))
                } else {
                    p.blocked = Some(cx.waker().clone());
                    Poll::Pending
                }
            }
        }
    }

    fn call(&mut self, req: Req) -> Self::Future {
        if !self.ready || self.sh.maxes.get(req.id).copied() != Some(req.max) {
            self.sh.violations.fetch_add(1, Ordering::SeqCst);
        }
        self.ready = false;
        self.id = Some(req.id);
        let sh = self.sh.clone();
        let id = req.id;
        let now = sh.now_ms();
        let (k, rx) = {
            let mut per = sh.per.lock().unwrap();
            let p = &mut per[id];
            let k = p.ncalls;
            if k >= 1 && sh.budgeted && sh.granted.lock().unwrap()[id] < k {
                sh.ungranted.fetch_add(1, Ordering::SeqCst); // retry number k without k grants so far
            }
            p.ncalls += 1;
            p.released = false;
            p.blocked = None;
            p.calls.push((now, -1));
            let e = p.entries.get(k).copied().unwrap_or_default();
            let rx = if e.gated != 0 {
                let (tx, rx) = oneshot::channel();
                p.tx = Some(tx);
                Some(rx)
            } else {
                None
            };
            (k, rx)
        };
        let e = sh.entry(id, k);
        Box::pin(async move {
            if let Some(rx) = rx {
                if rx.await.is_err() {
                    std::future::pending::<()>().await;
                }
            }
            let t = sh.now_ms();
            sh.per.lock().unwrap()[id].calls[k].1 = t;
            match e.okind {
                0 => Ok(e.payload),
                1 => Err(E { code: e.payload, flag: true }),
                _ => Err(E { code: e.payload, flag: false }),
            }
        })
    }
}

/// Delegates to the real budget and records every operation.
struct Logged {
    inner: Arc<dyn RetryBudget>,
    log: Mutex<Vec<i128>>, // 0 deposit, 1 granted, 2 denied
    sh: Arc<Shared>,
}

impl RetryBudget for Logged {
    fn try_withdraw(&self) -> bool {
        let g = self.inner.try_withdraw();
        if g {
            if let Some(i) = *self.sh.current.lock().unwrap() {
                self.sh.granted.lock().unwrap()[i] += 1;
            }
        }
        self.log.lock().unwrap().push(if g { 1 } else { 2 });
        g
    }
    fn deposit(&self) {
        self.inner.deposit();
        self.log.lock().unwrap().push(0);
    }
    fn balance(&self) -> usize {
        self.inner.balance()
    }
}

type Res = Result<i128, E>;

fn run(s: &[i128]) -> Vec<i128> {
    let (ma_mode, ma_fixed, pred_raw, bkind_raw) = (zn(s, 0), zn(s, 1), zn(s, 2), zn(s, 3));
    let (pred_mode, tail) = (pred_raw.rem_euclid(4), pred_raw.div_euclid(4) != 0);
    let (bkind, route) = (bkind_raw.rem_euclid(2), bkind_raw.div_euclid(2));
    let (bmax, binit) = (zn(s, 4).max(0) as usize, zn(s, 5).max(0) as usize);
    let n = zn(s, 6).max(0) as usize;
    let l = zn(s, 7).max(0) as usize;
    let backoffs: Vec<Duration> = (0..l).map(|k| dur_of(zn(s, 8 + k))).collect();
    let per_request = ma_mode.rem_euclid(2) != 0;
    let handle_mode = ma_mode.div_euclid(2);
    let blk = 1 + 4 * l;
    let mut per = Vec::new();
    let mut maxes = Vec::new();
    for i in 0..n {
        let base = 8 + l + i * blk;
        let dflt = if !per_request { ma_fixed.max(0) as usize } else { zn(s, base).max(0) as usize };
        maxes.push(match route { 4 => 3, 5 => 5, 6 => 2, _ => dflt });
        let entries = (0..l)
            .map(|k| Entry {
                okind: zn(s, base + 1 + 4 * k),
                payload: zn(s, base + 2 + 4 * k),
                gated: zn(s, base + 3 + 4 * k),
                ready: zn(s, base + 4 + 4 * k),
            })
            .collect();
        per.push(PerReq { entries, ..Default::default() });
    }
    let evs: Vec<(i128, i128)> = s[(8 + l + n * blk).min(s.len())..]
        .chunks(2)
        .filter(|c| c.len() == 2)
        .map(|c| (c[0], c[1]))
        .collect();

    let rt = paused_rt();
    rt.block_on(async move {
        let sh = Arc::new(Shared { tail, budgeted: bkind != 0, current: Mutex::new(None), granted: Mutex::new(vec![0; n]),
            ungranted: AtomicUsize::new(0), per: Mutex::new(per), violations: AtomicUsize::new(0), t0: now_ns(), starting: Mutex::new(None), maxes: maxes.clone() });
        let b0 = backoffs.first().copied().unwrap_or(Duration::ZERO);
        let mut b = match route {
            4 => RetryLayer::<Req, E>::exponential_backoff(),
            5 => RetryLayer::<Req, E>::aggressive(),
            6 => RetryLayer::<Req, E>::conservative(),
            _ => {
                let b = RetryLayer::<Req, E>::builder();
                if !per_request { b.max_attempts(ma_fixed.max(0) as usize) } else { b.max_attempts_fn(|r: &Req| r.max) }
            }
        };
        b = match route {
            1 => b.fixed_backoff(b0),
            2 => b.exponential_backoff(b0),
            3 | 4 | 5 | 6 => b,
            _ => b.backoff(FnInterval::new(move |a: usize| backoffs.get(a).copied().unwrap_or(Duration::ZERO))),
        };
        b = match pred_mode {
            0 => b,
            1 => b.retry_on(|e: &E| e.flag),
            2 => b.retry_on(|e: &E| e.code.rem_euclid(2) == 0),
            _ => b.retry_on(|_e: &E| false),
        };
        let logged = if bkind != 0 {
            let real = RetryBudgetBuilder::new().token_bucket().max_tokens(bmax).initial_tokens(binit).build();
            Some(Arc::new(Logged { inner: real, log: Mutex::new(Vec::new()), sh: sh.clone() }))
        } else {
            None
        };
        if let Some(lg) = &logged {
            b = b.budget(lg.clone() as Arc<dyn RetryBudget>);
        }
        let layer = b.build();
        // handle_mode 1/2: one Retry service serves every request (directly / through its clones)
        let mut handle = layer.layer(Scripted { id: None, sh: sh.clone(), ready: false });

        let mut callers: Vec<Option<Manual<Res>>> = (0..n).map(|_| None).collect();
        let mut tr: Vec<i128> = Vec::new();
        for (op, a) in evs {
            let idx_ok = a >= 0 && (a as usize) < n;
            let (mut r, mut payload) = (-1i128, 0i128);
            match op {
                1 => {
                    if !idx_ok { continue; }
                    let i = a as usize;
                    if callers[i].is_none() {
                        *sh.starting.lock().unwrap() = Some(i);
                        let req = Req { id: i, max: maxes[i] };
                        let fut = match handle_mode {
                            1 => {
                                futures::future::poll_fn(|cx| handle.poll_ready(cx)).await.ok();
                                handle.call(req)
                            }
                            2 => {
                                let mut svc = handle.clone();
                                futures::future::poll_fn(|cx| svc.poll_ready(cx)).await.ok();
                                svc.call(req)
                            }
                            _ => {
                                let mut svc = layer.layer(Scripted { id: Some(i), sh: sh.clone(), ready: false });
                                futures::future::poll_fn(|cx| svc.poll_ready(cx)).await.ok();
                                svc.call(req)
                            }
                        };
                        *sh.starting.lock().unwrap() = None;
                        callers[i] = Some(Manual::new(fut));
                    }
                    let m = callers[i].as_mut().unwrap();
                    if !m.alive() {
                        r = 9;
                    } else {
                        *sh.current.lock().unwrap() = Some(i);
                        let fin = m.poll();
                        *sh.current.lock().unwrap() = None;
                        if !fin {
                            r = 0;
                        } else if m.panicked {
                            r = 5;
                        } else {
                            match m.done.take().unwrap() {
                                Ok(v) => { r = 1; payload = v; }
                                Err(e) => { r = 2; payload = e.code; }
                            }
                        }
                    }
                }
                2 => advance(a.max(0) as u64).await,
                3 => {
                    if !idx_ok { continue; }
                    let tx = sh.per.lock().unwrap()[a as usize].tx.take();
                    if let Some(tx) = tx { let _ = tx.send(()); }
                }
                4 => {
                    if !idx_ok { continue; }
                    let w = {
                        let mut per = sh.per.lock().unwrap();
                        let p = &mut per[a as usize];
                        match p.blocked.take() {
                            Some(w) => { p.released = true; Some(w) }
                            None => None,
                        }
                    };
                    if let Some(w) = w { w.wake(); }
                }
                _ => continue,
            }
            settle().await;
            let mut mask: i128 = 0;
            for (j, c) in callers.iter().enumerate() {
                if let Some(m) = c { if m.alive() && m.woken() { mask += 1i128 << j; } }
            }
            let (bal, ops) = match &logged {
                Some(lg) => (lg.balance() as i128, std::mem::take(&mut *lg.log.lock().unwrap())),
                None => (-1, Vec::new()),
            };
            let cnt = |x: i128| ops.iter().filter(|o| **o == x).count() as i128;
            tr.extend([r, payload, mask, bal, cnt(0), cnt(1), cnt(2)]);
        }
        drop(callers);
        let per = sh.per.lock().unwrap();
        for p in per.iter() {
            tr.push(p.calls.len() as i128);
            for (a, b) in &p.calls { tr.push(*a); tr.push(*b); }
        }
        tr.push(sh.violations.load(Ordering::SeqCst) as i128);
        tr.push(sh.ungranted.load(Ordering::SeqCst) as i128);
        tr
    })
}

fn main() { main_loop(run); }
