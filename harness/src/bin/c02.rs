//! C02 / C15: rate limiter. script = [wtype (0 fixed,1 sliding log,2 sliding counter), limit, period,
//! timeout, n + 1000*mode, (op a b)*]
//! limit >= 10^15 stands for usize::MAX (the model just sees a huge number)
//! durations (period, timeout): z < 10^15: z ms; 10^15 <= z < 2*10^15: Duration::MAX; z >= 2*10^15: Duration::from_secs(z - 2*10^15)
//! mode: 0 every caller calls through its own fresh clone of the layered service; 1 all callers call through ONE long-lived
//!   service value (poll_ready + call again and again); 2 clone chain (caller k uses a clone of the value caller k-1 used);
//!   3 even callers through the one value, odd callers through clones of clones
//! op 1 Poll a | 2 Drop a | 3 Advance a ms (1 ms at a time) | 4 Complete a b (0 ok 1 err 2 panic)
//! op 5 = create caller a's call future (call()) without polling it | 6 Jump a ms (the clock moves in ONE step)
//! trace per event = [r, started = number of inner call()s made since the end of the previous event (whatever made them),
//!   in-flight, wake mask]
//! The virtual clock restarts at 0 for every script (Instant = 10^6 s + t), so Instant overflow thresholds are exact.
use std::time::Duration;
use tower::{Layer, Service};
use tower_resilience_ratelimiter::{RateLimiterLayer, RateLimiterServiceError, WindowType};
use verif_harness::*;

type Res = Result<i128, RateLimiterServiceError<i128>>;

fn run(s: &[i128]) -> Vec<i128> {
    let n = (zn(s, 4).max(0) % 1000) as usize;
    let mode = zn(s, 4).max(0) / 1000;
    VIRT_NS.store(0, std::sync::atomic::Ordering::SeqCst);
    let rt = paused_rt();
    let sv: Vec<i128> = s.to_vec();
    rt.block_on(async move {
        let s = &sv[..];
        let inner = GatedInner::new();
        let sh = inner.0.clone();
        let layer = RateLimiterLayer::builder()
            .window_type(match zn(s, 0) { 0 => WindowType::Fixed, 1 => WindowType::SlidingLog, _ => WindowType::SlidingCounter })
            .limit_for_period(if zn(s, 1) >= 1_000_000_000_000_000 { usize::MAX } else { zn(s, 1).max(0) as usize })
            .refresh_period(dur_of(zn(s, 2)))
            .timeout_duration(dur_of(zn(s, 3)))
            .build();
        let mut base = layer.layer(inner);
        let mut chain = base.clone();
        let mut callers: Vec<Option<Manual<Res>>> = (0..n).map(|_| None).collect();
        let mut created = vec![false; n];
        let mut tr = Vec::new();
        let evs: Vec<(i128, i128, i128)> = s[5.min(s.len())..]
            .chunks(3).filter(|c| c.len() == 3).map(|c| (c[0], c[1], c[2])).collect();
        for (op, a, b) in evs {
            let mut r: i128 = -1;
            let started: i128;
            match op {
                1 | 2 | 5 => {
                    if a < 0 || a as usize >= n { continue; }
                    let i = a as usize;
                    if !created[i] {
                        created[i] = true;
                        let through_one = mode == 1 || (mode == 3 && i % 2 == 0);
                        if through_one {
                            futures::future::poll_fn(|cx| base.poll_ready(cx)).await.ok();
                            callers[i] = Some(Manual::new(base.call(i as i128)));
                        } else {
                            let mut svc = if mode == 0 { base.clone() } else { chain.clone() };
                            futures::future::poll_fn(|cx| svc.poll_ready(cx)).await.ok();
                            callers[i] = Some(Manual::new(svc.call(i as i128)));
                            if mode != 0 { chain = svc; }
                        }
                    }
                    let m = callers[i].as_mut().unwrap();
                    if op == 5 {
                        // only create the future (call() without a poll)
                    } else if op == 1 {
                        if !m.alive() { r = 9; } else {
                            let fin = m.poll();
                            r = if !fin { 0 } else if m.panicked { 5 } else {
                                match m.done.take().unwrap() {
                                    Ok(_) => 1,
                                    Err(RateLimiterServiceError::Inner(_)) => 2,
                                    Err(RateLimiterServiceError::RateLimited) => 3,
                                }
                            };
                        }
                    } else {
                        m.drop_fut();
                        m.flag.0.store(false, std::sync::atomic::Ordering::SeqCst);
                    }
                }
                3 => advance_ms(a.max(0) as u64).await,
                6 => {
                    let ms = a.max(0).min(10_000_000_000_000) as u64;
                    VIRT_NS.fetch_add(ms * 1_000_000, std::sync::atomic::Ordering::SeqCst);
                    tokio::time::advance(Duration::from_millis(ms)).await;
                }
                4 => { if a >= 0 && (a as usize) < n { sh.complete(a, 0, match b { 0 => Outcome::Ok(a), 1 => Outcome::Err(a), _ => Outcome::Panic }); } }
                _ => continue,
            }
            settle().await;
            // every inner call() made since the end of the previous event, by whatever (call(), a poll, a drop, a timer)
            started = sh.take_starts().len() as i128;
            let mut mask: i128 = 0;
            for (j, c) in callers.iter().enumerate() {
                if let Some(m) = c { if m.alive() && m.woken() { mask += 1i128 << j; } }
            }
            tr.extend([r, started, sh.inflight() as i128, mask]);
        }
        tr
    })
}

fn dur_of(z: i128) -> Duration {
    const E15: i128 = 1_000_000_000_000_000;
    if z >= 2 * E15 { Duration::from_secs((z - 2 * E15).min(u64::MAX as i128) as u64) }
    else if z >= E15 { Duration::MAX }
    else { Duration::from_millis(z.max(0) as u64) }
}

fn main() { main_loop(run); }
