//! C02 / C15: rate limiter. script = [wtype (0 fixed,1 sliding log,2 sliding counter), limit, period_ms,
//! timeout_ms, n, (op a b)*]; op 1 Poll a | 2 Drop a | 3 Advance a ms | 4 Complete a b (0 ok 1 err 2 panic)
//! trace per event = [r, started (number of inner call()s made during the poll), in-flight, wake mask]
//! op 5 = create caller a's call future (call()) without polling it
use std::time::Duration;
use tower::{Layer, Service};
use tower_resilience_ratelimiter::{RateLimiterLayer, RateLimiterServiceError, WindowType};
use verif_harness::*;

type Res = Result<i128, RateLimiterServiceError<i128>>;

fn run(s: &[i128]) -> Vec<i128> {
    let n = zn(s, 4).max(0) as usize;
    let rt = paused_rt();
    let sv: Vec<i128> = s.to_vec();
    rt.block_on(async move {
        let s = &sv[..];
        let inner = GatedInner::new();
        let sh = inner.0.clone();
        let layer = RateLimiterLayer::builder()
            .window_type(match zn(s, 0) { 0 => WindowType::Fixed, 1 => WindowType::SlidingLog, _ => WindowType::SlidingCounter })
            .limit_for_period(zn(s, 1).max(0) as usize)
            .refresh_period(Duration::from_millis(zn(s, 2).max(0) as u64))
            .timeout_duration(Duration::from_millis(zn(s, 3).max(0) as u64))
            .build();
        let base = layer.layer(inner);
        let mut callers: Vec<Option<Manual<Res>>> = (0..n).map(|_| None).collect();
        let mut created = vec![false; n];
        let mut tr = Vec::new();
        let evs: Vec<(i128, i128, i128)> = s[5.min(s.len())..]
            .chunks(3).filter(|c| c.len() == 3).map(|c| (c[0], c[1], c[2])).collect();
        for (op, a, b) in evs {
            let mut r: i128 = -1;
            let mut started = 0i128;
            match op {
                1 | 2 | 5 => {
                    if a < 0 || a as usize >= n { continue; }
                    let i = a as usize;
                    if !created[i] {
                        created[i] = true;
                        let mut svc = base.clone();
                        futures::future::poll_fn(|cx| svc.poll_ready(cx)).await.ok();
                        callers[i] = Some(Manual::new(svc.call(i as i128)));
                    }
                    let m = callers[i].as_mut().unwrap();
                    if op == 5 {
                        // only create the future (call() without a poll)
                    } else if op == 1 {
                        if !m.alive() { r = 9; } else {
                            sh.take_starts();
                            let fin = m.poll();
                            r = if !fin { 0 } else if m.panicked { 5 } else {
                                match m.done.take().unwrap() {
                                    Ok(_) => 1,
                                    Err(RateLimiterServiceError::Inner(_)) => 2,
                                    Err(RateLimiterServiceError::RateLimited) => 3,
                                }
                            };
                            started = sh.take_starts().len() as i128; // number of inner call()s made during this poll
                        }
                    } else {
                        m.drop_fut();
                        m.flag.0.store(false, std::sync::atomic::Ordering::SeqCst);
                    }
                }
                3 => advance_ms(a.max(0) as u64).await,
                4 => { if a >= 0 && (a as usize) < n { sh.complete(a, 0, match b { 0 => Outcome::Ok(a), 1 => Outcome::Err(a), _ => Outcome::Panic }); } }
                _ => continue,
            }
            settle().await;
            let mut mask: i128 = 0;
            for (j, c) in callers.iter().enumerate() {
                if let Some(m) = c { if m.alive() && m.woken() { mask += 1i128 << j; } }
            }
            tr.extend([r, started, sh.inflight() as i128, mask]);
        }
        tr
    })
}

fn main() { main_loop(run); }
