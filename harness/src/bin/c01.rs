//! C01 / C07: bulkhead. script = [cap, max_wait_ms (-1 none), n, (op a b)*]
//! op 1 Poll a | 2 Drop a | 3 Advance a ms | 4 Complete a b (0 ok, 1 err, 2 panic)
//! trace per event = [r, started, seen, wake mask, in-flight]
use std::time::Duration;
use tower::{Layer, Service};
use tower_resilience_bulkhead::{BulkheadError, BulkheadLayer, BulkheadServiceError};
use verif_harness::*;

type Res = Result<i128, BulkheadServiceError<i128>>;

fn run(s: &[i128]) -> Vec<i128> {
    let cap = zn(s, 0) as usize;
    let mw = zn(s, 1);
    let n = zn(s, 2) as usize;
    let total = n + cap + 1;
    let rt = paused_rt();
    rt.block_on(async move {
        let inner = GatedInner::new();
        let sh = inner.0.clone();
        let mut b = BulkheadLayer::builder().max_concurrent_calls(cap);
        if mw >= 0 {
            b = b.max_wait_duration(Duration::from_millis(mw as u64));
        }
        let base = b.build().layer(inner);
        let mut callers: Vec<Option<Manual<Res>>> = (0..total).map(|_| None).collect();
        let mut created = vec![false; total];
        let mut tr = Vec::new();
        let mut evs: Vec<(i128, i128, i128)> =
            s[3.min(s.len())..].chunks(3).filter(|c| c.len() == 3).map(|c| (c[0], c[1], c[2])).collect();
        for i in 0..n { evs.push((2, i as i128, 0)); }
        for i in n..total { evs.push((1, i as i128, 0)); }
        for (op, a, b) in evs {
            let mut r: i128 = -1;
            let (mut started, mut seen) = (0i128, 0i128);
            match op {
                1 | 2 | 5 => {
                    if a < 0 || a as usize >= total { continue; }
                    let i = a as usize;
                    if !created[i] {
                        created[i] = true;
                        let mut svc = base.clone();
                        futures::future::poll_fn(|cx| svc.poll_ready(cx)).await.ok();
                        callers[i] = Some(Manual::new(svc.call(i as i128)));
                    }
                    let m = callers[i].as_mut().unwrap();
                    if op == 5 {
                        // only create the future (call() without a poll)
                    } else if op == 1 {
                        if !m.alive() {
                            r = 9;
                        } else {
                            sh.take_starts();
                            let fin = m.poll();
                            r = if !fin { 0 } else if m.panicked { 5 } else {
                                match m.done.take().unwrap() {
                                    Ok(_) => 1,
                                    Err(BulkheadServiceError::Inner(_)) => 2,
                                    Err(BulkheadServiceError::Bulkhead(BulkheadError::Timeout)) => 3,
                                    Err(BulkheadServiceError::Bulkhead(_)) => 4,
                                }
                            };
                            if let Some((_, sn)) = sh.take_starts().first() { started = 1; seen = *sn as i128; }
                        }
                    } else {
                        m.drop_fut();
                        m.flag.0.store(false, std::sync::atomic::Ordering::SeqCst);
                    }
                }
                3 => advance_ms(a.max(0) as u64).await,
                4 => { if a >= 0 && (a as usize) < total { sh.complete(a, 0, match b { 0 => Outcome::Ok(a), 1 => Outcome::Err(a), _ => Outcome::Panic }); } }
                _ => continue,
            }
            settle().await;
            let mut mask: i128 = 0;
            for (j, c) in callers.iter().enumerate() {
                if let Some(m) = c { if m.alive() && m.woken() { mask += 1i128 << j; } }
            }
            tr.extend([r, started, seen, mask, sh.inflight() as i128]);
        }
        tr
    })
}

fn main() { main_loop(run); }
