//! C01 / C07: bulkhead. script = [cap, max_wait_ms (-1 none), nf, (op a b)*], nf = n + 1000 * flags
//! op 1 Poll a | 2 Drop a | 3 Advance a | 4 Complete a b (0 ok, 1 err, 2 panic in the response future,
//!   3 synchronous panic inside the inner service's call()) | 5 call() without a poll |
//!   6 call() for every caller (scripted and probe) that has no future yet, then EVERY service handle is dropped
//! cap >= 10^15 is a sentinel for a capacity at / above tokio's Semaphore::MAX_PERMITS (10^15 usize::MAX,
//!   10^15+1 MAX_PERMITS+1, 10^15+2 MAX_PERMITS; builder route 0 only); the probe then has 8 fresh callers
//! durations (max_wait, Advance): a value below 2^40 is in ms, 2^40 + k is k ns (Lib/TokioTime.ns_of); a whole-ms
//!   Advance moves the clocks 1 ms at a time, any other in one jump
//! flags (none of them exists in the model: every route yields (cap, max_wait), every handle shares the semaphore):
//!   flags % 8       builder route: 0 builder().max_concurrent_calls(cap)[.max_wait_duration(mw)]
//!                     1 ….max_concurrent_calls(cap).reject_when_full()        (script has mw = 0)
//!                     2 BulkheadLayer::small()  (script has cap 10, mw 0)   3 medium() (50, 0)   4 large() (200, 0)
//!                     5 builder() with the default max_concurrent_calls (script has cap 25) [.max_wait_duration(mw)]
//!                     6 small().max_wait_duration(mw) (script has cap 10)
//!   (flags / 8) % 4 handle: 0 a fresh clone of the service per caller | 1 every caller through ONE handle |
//!                     2 every caller through the service returned by layer() itself | 3 each caller through a clone
//!                     of the previous caller's handle
//!   (flags / 32) % 2  1 = panicking listeners registered for all four bulkhead events
//!   (flags / 64) % 2  1 = a call future that has completed is kept alive (un-polled) until its Drop event / the
//!                     probe's drop-all, as a caller holding on to a finished future does (Manual::keep_done)
//! max_wait >= 10^15 ms stands for Duration::MAX.
//! trace per event = [r, inner calls started inside this poll, max in-flight seen by any inner call started during
//!   this event, wake mask (first 120 callers), in-flight, ids (+1, base 1024) of the requests whose inner call was
//!   started during this event -- inside the poll or anywhere else (call(), drop, timers, spawned tasks)]
use std::collections::HashSet;
use std::sync::{Arc, Mutex};
use std::task::{Context, Poll};
use std::time::Duration;
use tower::{Layer, Service};
use tower_resilience_bulkhead::{BulkheadError, BulkheadLayer, BulkheadServiceError};
use verif_harness::*;

type Res = Result<i128, BulkheadServiceError<i128>>;

/// GatedInner plus "the service itself panics in call()" for the requests in `sync_panic`:
/// the request is logged as started (it did reach the inner service, which saw in-flight + 1) and
/// the panic unwinds through Bulkhead's response future before any inner future exists.
#[derive(Clone)]
struct Inner {
    g: GatedInner,
    sync_panic: Arc<Mutex<HashSet<i128>>>,
    called: Arc<Mutex<HashSet<i128>>>,
}

impl Service<i128> for Inner {
    type Response = i128;
    type Error = i128;
    type Future = <GatedInner as Service<i128>>::Future;
    fn poll_ready(&mut self, cx: &mut Context<'_>) -> Poll<Result<(), i128>> {
        self.g.poll_ready(cx)
    }
    fn call(&mut self, req: i128) -> Self::Future {
        self.called.lock().unwrap().insert(req);
        if self.sync_panic.lock().unwrap().contains(&req) {
            let sh = &self.g.0;
            sh.starts.lock().unwrap().push((req, sh.inflight() + 1));
            panic!("scripted synchronous panic in inner call()");
        }
        self.g.call(req)
    }
}

const DUR_FLAG: i128 = 1 << 40;
fn ns_of(e: i128) -> u64 {
    if e < DUR_FLAG { (e.max(0) as u64).saturating_mul(1_000_000) } else { (e - DUR_FLAG) as u64 }
}

/// move both clocks by `d` in one step
async fn jump(d: Duration) {
    VIRT_NS.fetch_add(d.as_nanos() as u64, std::sync::atomic::Ordering::SeqCst);
    tokio::time::advance(d).await;
    settle().await;
}

fn run(s: &[i128]) -> Vec<i128> {
    const CAP_SENTINEL: i128 = 1_000_000_000_000_000;
    let big = zn(s, 0) >= CAP_SENTINEL;
    let cap: usize = if big {
        match zn(s, 0) - CAP_SENTINEL { 1 => (usize::MAX >> 3) + 1, 2 => usize::MAX >> 3, _ => usize::MAX }
    } else { zn(s, 0).max(0) as usize };
    let probe = if big { 8 } else { cap + 1 };
    let mw = zn(s, 1);
    let nf = zn(s, 2);
    let n = nf.rem_euclid(1000) as usize;
    let flags = nf.div_euclid(1000);
    let (route, handle, listen, keep) = (flags % 8, (flags / 8) % 4, (flags / 32) % 2, (flags / 64) % 2);
    let total = n + probe;
    let rt = paused_rt();
    rt.block_on(async move {
        let g = GatedInner::new();
        let sh = g.0.clone();
        let inner = Inner { g, sync_panic: Default::default(), called: Default::default() };
        let sync_panic = inner.sync_panic.clone();
        let called = inner.called.clone();
        let wait = |b: tower_resilience_bulkhead::BulkheadConfigBuilder| {
            if mw >= 1_000_000_000_000_000 { b.max_wait_duration(Duration::MAX) }
            else if mw >= 0 { b.max_wait_duration(Duration::from_nanos(ns_of(mw))) }
            else { b }
        };
        let mut b = match route {
            1 => BulkheadLayer::builder().max_concurrent_calls(cap).reject_when_full(),
            2 => BulkheadLayer::small(),
            3 => BulkheadLayer::medium(),
            4 => BulkheadLayer::large(),
            5 => wait(BulkheadLayer::builder()),
            6 => wait(BulkheadLayer::small()),
            _ => wait(BulkheadLayer::builder().max_concurrent_calls(cap)),
        };
        if listen == 1 {
            b = b
                .on_call_permitted(|_| panic!("listener"))
                .on_call_rejected(|_| panic!("listener"))
                .on_call_finished(|_| panic!("listener"))
                .on_call_failed(|_| panic!("listener"));
        }
        let base0 = b.build().layer(inner);
        let mut shared = Some(base0.clone());
        let mut base = Some(base0);
        let mut callers: Vec<Option<Manual<Res>>> = (0..total).map(|_| None).collect();
        let mut created = vec![false; total];
        let mut tr = Vec::new();
        let mut evs: Vec<(i128, i128, i128, bool)> = s[3.min(s.len())..]
            .chunks(3)
            .filter(|c| c.len() == 3)
            .filter(|c| c[0] == 3 || c[0] == 6 || (c[1] >= 0 && (c[1] as usize) < n))
            .map(|c| (c[0], c[1], c[2], false))
            .collect();
        for i in 0..n { evs.push((2, i as i128, 0, true)); }
        for i in n..total { evs.push((1, i as i128, 0, true)); }
        sh.take_starts();
        for (op, a, b, _probe) in evs {
            let mut r: i128 = -1;
            let mut in_poll: i128 = 0;
            let mut all_starts: Vec<(i128, i64)> = Vec::new();
            match op {
                1 | 2 | 5 => {
                    let i = a as usize;
                    if !created[i] {
                        created[i] = true;
                        callers[i] = Some(make(i, handle, keep, &mut base, &mut shared).await);
                    }
                    let m = callers[i].as_mut().unwrap();
                    if op == 5 {
                        // only create the future (call() without a poll)
                    } else if op == 1 {
                        if !m.alive() {
                            r = 9;
                        } else {
                            all_starts.extend(sh.take_starts()); // started by call() itself: not inside the poll
                            let fin = m.poll();
                            r = if !fin { 0 } else if m.panicked { 5 } else {
                                match m.done.take().unwrap() {
                                    Ok(_) => 1,
                                    Err(BulkheadServiceError::Inner(_)) => 2,
                                    Err(BulkheadServiceError::Bulkhead(BulkheadError::Timeout)) => 3,
                                    Err(BulkheadServiceError::Bulkhead(_)) => 4,
                                }
                            };
                            let st = sh.take_starts();
                            in_poll = st.len() as i128;
                            all_starts.extend(st);
                        }
                    } else {
                        m.drop_fut();
                        m.flag.0.store(false, std::sync::atomic::Ordering::SeqCst);
                    }
                }
                3 => {
                    let d = ns_of(a);
                    if d % 1_000_000 == 0 { advance_ms(d / 1_000_000).await } else { jump(Duration::from_nanos(d)).await }
                }
                6 => {
                    for i in 0..total {
                        if !created[i] && base.is_some() {
                            created[i] = true;
                            callers[i] = Some(make(i, handle, keep, &mut base, &mut shared).await);
                        }
                    }
                    base = None;
                    shared = None;
                }
                4 => {
                    // the gate of a caller is set once (later Complete events for it are no-ops, as in the model)
                    let o = match b { 0 => Outcome::Ok(a), 1 => Outcome::Err(a), _ => Outcome::Panic };
                    let first = sh.complete(a, 0, o);
                    if first && b == 3 && !called.lock().unwrap().contains(&a) {
                        sync_panic.lock().unwrap().insert(a);
                    }
                }
                _ => continue,
            }
            settle().await;
            all_starts.extend(sh.take_starts());
            let seen = all_starts.iter().map(|x| x.1 as i128).max().unwrap_or(0);
            let mut ids: i128 = 0;
            for (k, (req, _)) in all_starts.iter().enumerate().take(10) {
                ids += (req + 1) << (10 * k);
            }
            let mut mask: i128 = 0;
            for (j, c) in callers.iter().enumerate().take(120) {
                if let Some(m) = c { if m.alive() && m.woken() { mask += 1i128 << j; } }
            }
            tr.extend([r, in_poll, seen, mask, sh.inflight() as i128, ids]);
        }
        tr
    })
}

type Svc = tower_resilience_bulkhead::Bulkhead<Inner>;

/// call() for caller i through the kind of handle the script asks for
async fn make(i: usize, handle: i128, keep: i128, base: &mut Option<Svc>, shared: &mut Option<Svc>) -> Manual<Res> {
    let fut = match handle {
        1 => { let h = shared.as_mut().unwrap(); futures::future::poll_fn(|cx| h.poll_ready(cx)).await.ok(); h.call(i as i128) }
        2 => { let h = base.as_mut().unwrap(); futures::future::poll_fn(|cx| h.poll_ready(cx)).await.ok(); h.call(i as i128) }
        3 => {
            let mut svc = shared.as_ref().unwrap().clone();
            futures::future::poll_fn(|cx| svc.poll_ready(cx)).await.ok();
            let f = svc.call(i as i128);
            *shared = Some(svc);
            f
        }
        _ => { let mut svc = base.as_ref().unwrap().clone(); futures::future::poll_fn(|cx| svc.poll_ready(cx)).await.ok(); svc.call(i as i128) }
    };
    let mut m = Manual::new(fut);
    m.keep_done = keep == 1;
    m
}

fn main() { main_loop(run); }
