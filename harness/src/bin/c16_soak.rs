//! Soak demonstration for C14's last clause ("retry and reconnect loops can run indefinitely against a
//! dead backend without crashing"): one request through the real reconnect layer with the default
//! unlimited attempts, a zero fixed delay and an inner service that always fails with a connection
//! error. Argument: number of failures to drive (default 2^32 + 16). Prints the number of inner calls
//! made and whether the layer panicked. Before /repo commit "fix: reconnect attempt counter saturates"
//! this panics with "attempt to add with overflow" after exactly 2^32 failures (overflow checks are on
//! in this profile); afterwards it runs to the requested count. Not part of any registered check
//! (about 10-20 minutes on one core).
use std::future::Future;
use std::pin::Pin;
use std::sync::atomic::{AtomicU64, Ordering};
use std::sync::Arc;
use std::task::{Context, Poll};
use std::time::Duration;
use tower::{Layer, Service};
use tower_resilience_reconnect::{ReconnectConfig, ReconnectLayer, ReconnectPolicy};

#[derive(Debug)]
struct Dead;
impl std::fmt::Display for Dead {
    fn fmt(&self, f: &mut std::fmt::Formatter<'_>) -> std::fmt::Result {
        write!(f, "connection refused")
    }
}
impl std::error::Error for Dead {}

#[derive(Clone)]
struct Inner {
    calls: Arc<AtomicU64>,
    stop_at: u64,
}
impl Service<u8> for Inner {
    type Response = u8;
    type Error = Dead;
    type Future = std::future::Ready<Result<u8, Dead>>;
    fn poll_ready(&mut self, _: &mut Context<'_>) -> Poll<Result<(), Dead>> {
        Poll::Ready(Ok(()))
    }
    fn call(&mut self, r: u8) -> Self::Future {
        let n = self.calls.fetch_add(1, Ordering::Relaxed) + 1;
        if n > self.stop_at {
            std::future::ready(Ok(r))
        } else {
            std::future::ready(Err(Dead))
        }
    }
}

fn main() {
    let stop_at: u64 = std::env::args().nth(1).and_then(|s| s.parse().ok()).unwrap_or((1u64 << 32) + 16);
    let calls = Arc::new(AtomicU64::new(0));
    // second argument "max": use max_attempts(u32::MAX) instead of unlimited attempts; the layer must then
    // give up after exactly 2^32 inner calls (it did not before /repo commit 4ccf9b3)
    let bounded = std::env::args().nth(2).as_deref() == Some("max");
    let builder = ReconnectConfig::builder().policy(ReconnectPolicy::fixed(Duration::ZERO));
    let config = if bounded { builder.max_attempts(u32::MAX).build() } else { builder.unlimited_attempts().build() };
    let mut svc = ReconnectLayer::new(config).layer(Inner { calls: calls.clone(), stop_at });
    let rt = tokio::runtime::Builder::new_current_thread().enable_time().start_paused(true).build().unwrap();
    let res = std::panic::catch_unwind(std::panic::AssertUnwindSafe(|| {
        rt.block_on(async {
            let mut fut: Pin<Box<dyn Future<Output = _>>> = Box::pin(svc.call(7u8));
            std::future::poll_fn(|cx| fut.as_mut().poll(cx)).await.map_err(|e| e.to_string())
        })
    }));
    let n = calls.load(Ordering::Relaxed);
    match res {
        Ok(r) => println!("finished after {} inner calls: {:?}", n, r),
        Err(_) => println!("PANICKED after {} inner calls", n),
    }
}
