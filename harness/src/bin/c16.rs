//! C16: reconnect. Script / trace format: see coq/Model/Reconnect.v (run_script) and gen/c16.py.
//! script = [has_max; max; pred_mode; policy; p1; p2; retry; nreq; L; delay x L;
//!           nreq blocks [(okind payload gated ready) x L]; (op a)*]
//! op 1 Poll a | 2 Advance a ms | 3 Complete a | 4 MakeReady a | 5 Call a
//! durations (p1 of Fixed, Custom table): below 2^40 milliseconds, 2^40 + n = n nanoseconds
//! retry: bit 0 = retry_on_reconnect; retry / 2 != 0: calls beyond the table fail with a connection failure for ever
//! has_max: bit 0 = max_attempts(max) (else unlimited); has_max / 2 = 0 one service per request,
//!          1 all requests through one ReconnectService, 2 through clones of one service
//! trace = per event [r; kind; payload; attempts; wake mask; published state; calls started; finished;
//!                    hash of on_state_change `to` states; hash of on_reconnect attempt numbers]
//!         ++ per request [ncalls; (start, end|-1)*] ++ [readiness-contract violations]
use std::future::Future;
use std::pin::Pin;
use std::sync::atomic::{AtomicUsize, Ordering};
use std::sync::{Arc, Mutex};
use std::task::{Context, Poll, Waker};
use std::time::Duration;
use tokio::sync::oneshot;
use tower::{Layer, Service};
use tower_resilience_reconnect::{
    ConnectionState, ReconnectConfig, ReconnectLayer, ReconnectPolicy, ReconnectService,
};
use tower_resilience_retry::FnInterval;
use verif_harness::*;

#[derive(Clone, Debug)]
struct E {
    code: i128,
    flag: bool,
}
impl std::fmt::Display for E {
    fn fmt(&self, f: &mut std::fmt::Formatter<'_>) -> std::fmt::Result {
        write!(f, "code={} flag={}", self.code, if self.flag { 1 } else { 0 })
    }
}
impl std::error::Error for E {}

fn parse_e(s: &str) -> (i128, bool) {
    // "code=<n> flag=<0|1>"
    let mut code = 0i128;
    let mut flag = false;
    for part in s.split_whitespace() {
        if let Some(v) = part.strip_prefix("code=") {
            code = v.parse().unwrap_or(0);
        } else if let Some(v) = part.strip_prefix("flag=") {
            flag = v == "1";
        }
    }
    (code, flag)
}

#[derive(Clone, Copy, Default)]
struct Entry {
    okind: i128,
    payload: i128,
    gated: i128,
    ready: i128,
}

#[derive(Default)]
struct PerReq {
    entries: Vec<Entry>,
    ncalls: usize,
    calls: Vec<(i128, i128)>,
    tx: Option<oneshot::Sender<()>>,
    blocked: Option<Waker>,
    released: bool,
}

struct Shared {
    /// what calls beyond the scripted table do: false = Ok(0), true = Err(code k, flag true)
    tail: bool,
    per: Mutex<Vec<PerReq>>,
    violations: AtomicUsize,
    t0: u64,
    /// request the harness is about to submit (its poll_ready + call on a possibly shared handle)
    starting: Mutex<Option<usize>>,
}

impl Shared {
    fn now_ms(&self) -> i128 {
        ((now_ns() - self.t0) / 1_000_000) as i128
    }
    fn entry(&self, id: usize, k: usize) -> Entry {
        let dflt = if self.tail { Entry { okind: 1, payload: k as i128, gated: 0, ready: 0 } } else { Entry::default() };
        self.per.lock().unwrap()[id].entries.get(k).copied().unwrap_or(dflt)
    }
}

struct Scripted {
    /// request this instance serves; None until the first `call` on a shared handle
    id: Option<usize>,
    sh: Arc<Shared>,
    ready: bool,
}

const DUR_FLAG: i128 = 1 << 40;
fn dur_of(e: i128) -> Duration {
    if e < DUR_FLAG {
        Duration::from_millis(e.max(0) as u64)
    } else {
        Duration::from_nanos((e - DUR_FLAG) as u64)
    }
}

/// Advance both clocks. Short advances go one millisecond at a time (as everywhere in the
/// harness); long ones in a single jump (nothing but hand-polled futures lives in this runtime).
async fn advance(ms: u64) {
    if ms <= 64 {
        advance_ms(ms).await;
    } else {
        VIRT_NS.fetch_add(ms * 1_000_000, Ordering::SeqCst);
        tokio::time::advance(Duration::from_millis(ms)).await;
        settle().await;
    }
}

impl Clone for Scripted {
    fn clone(&self) -> Self {
        Scripted { id: self.id, sh: self.sh.clone(), ready: false }
    }
}

impl Service<usize> for Scripted {
    type Response = i128;
    type Error = E;
    type Future = Pin<Box<dyn Future<Output = Result<i128, E>>>>;

    fn poll_ready(&mut self, cx: &mut Context<'_>) -> Poll<Result<(), E>> {
        let starting = *self.sh.starting.lock().unwrap();
        let Some(id) = starting.or(self.id) else {
            self.ready = true;
            return Poll::Ready(Ok(()));
        };
        let k = self.sh.per.lock().unwrap()[id].ncalls;
        if k == 0 {
            self.ready = true;
            return Poll::Ready(Ok(()));
        }
        let e = self.sh.entry(id, k);
        match e.ready {
            0 => {
                self.ready = true;
                Poll::Ready(Ok(()))
            }
            1 => Poll::Ready(Err(E { code: 100000 + e.payload, flag: true })),
            _ => {
                let mut per = self.sh.per.lock().unwrap();
                let p = &mut per[id];
                if p.released {
                    self.ready = true;
                    Poll::Ready(Ok(()))
                } else {
                    p.blocked = Some(cx.waker().clone());
                    Poll::Pending
                }
            }
        }
    }

    fn call(&mut self, id: usize) -> Self::Future {
        if !self.ready {
            self.sh.violations.fetch_add(1, Ordering::SeqCst);
        }
        self.ready = false;
        self.id = Some(id);
        let sh = self.sh.clone();
        let now = sh.now_ms();
        let (k, rx) = {
            let mut per = sh.per.lock().unwrap();
            let p = &mut per[id];
            let k = p.ncalls;
            p.ncalls += 1;
            p.released = false;
            p.blocked = None;
            p.calls.push((now, -1));
            let e = p.entries.get(k).copied().unwrap_or_default(); // beyond the table nothing is gated
            let rx = if e.gated != 0 {
                let (tx, rx) = oneshot::channel();
                p.tx = Some(tx);
                Some(rx)
            } else {
                None
            };
            (k, rx)
        };
        let e = sh.entry(id, k);
        Box::pin(async move {
            if let Some(rx) = rx {
                if rx.await.is_err() {
                    std::future::pending::<()>().await;
                }
            }
            let t = sh.now_ms();
            sh.per.lock().unwrap()[id].calls[k].1 = t;
            match e.okind {
                0 => Ok(e.payload),
                1 => Err(E { code: e.payload, flag: true }),
                _ => Err(E { code: e.payload, flag: false }),
            }
        })
    }
}

// ReconnectError is not re-exported by the crate: name it through the Service impl
type RErr = <ReconnectService<Scripted> as Service<usize>>::Error;
type Res = Result<i128, RErr>;

fn run(s: &[i128]) -> Vec<i128> {
    let (has_max, max, pred_mode, policy) = (zn(s, 0), zn(s, 1), zn(s, 2), zn(s, 3));
    let (p1, p2, retry) = (zn(s, 4), zn(s, 5).max(0) as u64, zn(s, 6).rem_euclid(2) != 0);
    let tail = zn(s, 6).div_euclid(2) != 0;
    let limited = has_max.rem_euclid(2) != 0;
    let handle_mode = has_max.div_euclid(2);
    let n = zn(s, 7).max(0) as usize;
    let l = zn(s, 8).max(0) as usize;
    let delays: Vec<Duration> = (0..l).map(|k| dur_of(zn(s, 9 + k))).collect();
    let blk = 4 * l;
    let mut per = Vec::new();
    for i in 0..n {
        let base = 9 + l + i * blk;
        let entries = (0..l)
            .map(|k| Entry {
                okind: zn(s, base + 4 * k),
                payload: zn(s, base + 1 + 4 * k),
                gated: zn(s, base + 2 + 4 * k),
                ready: zn(s, base + 3 + 4 * k),
            })
            .collect();
        per.push(PerReq { entries, ..Default::default() });
    }
    let evs: Vec<(i128, i128)> = s[(9 + l + n * blk).min(s.len())..]
        .chunks(2)
        .filter(|c| c.len() == 2)
        .map(|c| (c[0], c[1]))
        .collect();

    let rt = paused_rt();
    rt.block_on(async move {
        let sh = Arc::new(Shared { tail, per: Mutex::new(per), violations: AtomicUsize::new(0), t0: now_ns(), starting: Mutex::new(None) });
        let pol = match policy {
            0 => ReconnectPolicy::None,
            1 => ReconnectPolicy::fixed(dur_of(p1)),
            2 => ReconnectPolicy::Custom(Arc::new(FnInterval::new(move |a: usize| {
                delays.get(a).copied().unwrap_or(Duration::ZERO)
            }))),
            _ => ReconnectPolicy::exponential(Duration::from_millis(p1.max(0) as u64), Duration::from_millis(p2)),
        };
        // callbacks (crate feature `tracing`): rolling hashes of what they are told during one event
        const HP: i128 = 1_000_000_007;
        let cb = Arc::new(Mutex::new((0i128, 0i128)));
        let (cb1, cb2) = (cb.clone(), cb.clone());
        let mut b = ReconnectConfig::builder()
            .policy(pol)
            .retry_on_reconnect(retry)
            .on_state_change(move |_from, to| {
                let code = match to {
                    ConnectionState::Connected => 0,
                    ConnectionState::Disconnected => 1,
                    ConnectionState::Reconnecting => 2,
                };
                let mut g = cb1.lock().unwrap();
                g.0 = (g.0 * 5 + code + 1) % HP;
            })
            .on_reconnect(move |attempt| {
                let mut g = cb2.lock().unwrap();
                g.1 = (g.1 * 1_000_003 + attempt as i128) % HP;
            });
        b = if limited { b.max_attempts(max.max(0) as u32) } else { b.unlimited_attempts() };
        b = match pred_mode {
            0 => b,
            1 => b.reconnect_predicate(|e: &dyn std::error::Error| parse_e(&e.to_string()).1),
            2 => b.reconnect_predicate(|e: &dyn std::error::Error| parse_e(&e.to_string()).0.rem_euclid(2) == 0),
            _ => b.reconnect_predicate(|_e: &dyn std::error::Error| false),
        };
        let layer = ReconnectLayer::new(b.build());
        let state = layer.state().clone();
        // handle_mode 1/2: one ReconnectService serves every request (directly / through its clones)
        let mut handle = layer.layer(Scripted { id: None, sh: sh.clone(), ready: false });

        let mut callers: Vec<Option<Manual<Res>>> = (0..n).map(|_| None).collect();
        let mut tr: Vec<i128> = Vec::new();
        for (op, a) in evs {
            let idx_ok = a >= 0 && (a as usize) < n;
            let (mut r, mut kind, mut payload, mut attempts) = (-1i128, 0i128, 0i128, 0i128);
            match op {
                1 | 5 => {
                    if !idx_ok { continue; }
                    let i = a as usize;
                    if callers[i].is_none() {
                        *sh.starting.lock().unwrap() = Some(i);
                        let fut = match handle_mode {
                            1 => {
                                futures::future::poll_fn(|cx| Service::<usize>::poll_ready(&mut handle, cx)).await.ok();
                                handle.call(i)
                            }
                            2 => {
                                let mut svc = handle.clone();
                                futures::future::poll_fn(|cx| Service::<usize>::poll_ready(&mut svc, cx)).await.ok();
                                svc.call(i)
                            }
                            _ => {
                                let mut svc = layer.layer(Scripted { id: Some(i), sh: sh.clone(), ready: false });
                                futures::future::poll_fn(|cx| Service::<usize>::poll_ready(&mut svc, cx)).await.ok();
                                svc.call(i)
                            }
                        };
                        *sh.starting.lock().unwrap() = None;
                        callers[i] = Some(Manual::new(fut));
                    }
                    if op == 1 {
                        let m = callers[i].as_mut().unwrap();
                        if !m.alive() {
                            r = 9;
                        } else {
                            let fin = m.poll();
                            if !fin {
                                r = 0;
                            } else if m.panicked {
                                r = 5;
                            } else {
                                match m.done.take().unwrap() {
                                    Ok(v) => { r = 1; payload = v; }
                                    Err(e) => {
                                        r = 2;
                                        match e {
                                            RErr::MaxAttemptsExceeded { attempts: at, error } => {
                                                kind = 1;
                                                attempts = at as i128;
                                                payload = match error.downcast_ref::<E>() {
                                                    Some(x) => x.code,
                                                    None => -777,
                                                };
                                            }
                                            RErr::ConnectionFailed(x) => { kind = 2; payload = x.code; }
                                            RErr::ConnectionFailedNoRetry(x) => { kind = 3; payload = x.code; }
                                            RErr::ServiceError(x) => { kind = 4; payload = x.code; }
                                        }
                                    }
                                }
                            }
                        }
                    }
                }
                2 => advance(a.max(0) as u64).await,
                3 => {
                    if !idx_ok { continue; }
                    let tx = sh.per.lock().unwrap()[a as usize].tx.take();
                    if let Some(tx) = tx { let _ = tx.send(()); }
                }
                4 => {
                    if !idx_ok { continue; }
                    let w = {
                        let mut per = sh.per.lock().unwrap();
                        let p = &mut per[a as usize];
                        match p.blocked.take() {
                            Some(w) => { p.released = true; Some(w) }
                            None => None,
                        }
                    };
                    if let Some(w) = w { w.wake(); }
                }
                _ => continue,
            }
            settle().await;
            let mut mask: i128 = 0;
            for (j, c) in callers.iter().enumerate() {
                if let Some(m) = c { if m.alive() && m.woken() { mask += 1i128 << j; } }
            }
            let cs = match state.state() {
                ConnectionState::Connected => 0,
                ConnectionState::Disconnected => 1,
                ConnectionState::Reconnecting => 2,
            };
            let (started, finished) = {
                let per = sh.per.lock().unwrap();
                let st: usize = per.iter().map(|p| p.calls.len()).sum();
                let fi: usize = per.iter().map(|p| p.calls.iter().filter(|c| c.1 >= 0).count()).sum();
                (st as i128, fi as i128)
            };
            let (h1, h2) = std::mem::take(&mut *cb.lock().unwrap());
            tr.extend([r, kind, payload, attempts, mask, cs, started, finished, h1, h2]);
        }
        drop(callers);
        let per = sh.per.lock().unwrap();
        for p in per.iter() {
            tr.push(p.calls.len() as i128);
            for (a, b) in &p.calls { tr.push(*a); tr.push(*b); }
        }
        tr.push(sh.violations.load(Ordering::SeqCst) as i128);
        tr
    })
}

fn main() { main_loop(run); }
