//! C03 / C04 / C09: circuit breaker.
//! script = [time_based, wsize, wdur, minc, fnum, fden, slow_on, slow_thr, snum, sden, wait_open,
//!           permitted, has_fallback, n, (op a b)*]
//! op 1 Poll a | 2 Drop a | 3 Advance a ms | 4 Complete a b | 5 ForceOpen | 6 ForceClosed | 7 Reset
//! outcome b: 0 ok | 1 ok classified as failure | 2 err | 3 err classified as success | 4 panic
//! trace per event = [r, started, state, state_sync, metrics.state, total, failures, successes, slow,
//!                    in-flight, wake mask]
use futures::future::BoxFuture;
use std::time::Duration;
use tower::{Layer, Service};
use tower_resilience_circuitbreaker::{
    CircuitBreakerError, CircuitBreakerLayer, CircuitState, SlidingWindowType,
};
use verif_harness::*;

type Res = Result<i128, CircuitBreakerError<i128>>;

fn code(s: CircuitState) -> i128 {
    match s {
        CircuitState::Closed => 0,
        CircuitState::Open => 1,
        CircuitState::HalfOpen => 2,
    }
}

macro_rules! drive {
    ($svc:expr, $s:expr, $n:expr, $sh:expr) => {{
        let base = $svc;
        let s: &[i128] = $s;
        let n: usize = $n;
        let sh = $sh;
        let mut callers: Vec<Option<Manual<Res>>> = (0..n).map(|_| None).collect();
        let mut created = vec![false; n];
        let mut tr = Vec::new();
        let evs: Vec<(i128, i128, i128)> = s[14.min(s.len())..]
            .chunks(3)
            .filter(|c| c.len() == 3)
            .map(|c| (c[0], c[1], c[2]))
            .collect();
        for (op, a, b) in evs {
            let mut r: i128 = -1;
            let mut started = 0i128;
            match op {
                1 | 2 | 8 => {
                    if a < 0 || a as usize >= n { continue; }
                    let i = a as usize;
                    if !created[i] {
                        created[i] = true;
                        let mut svc = base.clone();
                        futures::future::poll_fn(|cx| svc.poll_ready(cx)).await.ok();
                        callers[i] = Some(Manual::new(svc.call(i as i128)));
                    }
                    let m = callers[i].as_mut().unwrap();
                    if op == 8 {
                        // only create the future (call() without a poll)
                    } else if op == 1 {
                        if !m.alive() {
                            r = 9;
                        } else {
                            sh.take_starts();
                            let fin = m.poll();
                            r = if !fin { 0 } else if m.panicked { 5 } else {
                                match m.done.take().unwrap() {
                                    Ok(77) => 4,
                                    Ok(_) => 1,
                                    Err(CircuitBreakerError::Inner(_)) => 2,
                                    Err(CircuitBreakerError::OpenCircuit) => 3,
                                }
                            };
                            if !sh.take_starts().is_empty() { started = 1; }
                        }
                    } else {
                        m.drop_fut();
                        m.flag.0.store(false, std::sync::atomic::Ordering::SeqCst);
                    }
                }
                3 => advance_ms(a.max(0) as u64).await,
                4 => {
                    if a >= 0 && (a as usize) < n {
                        sh.complete(a, 0, match b { 0 => Outcome::Ok(0), 1 => Outcome::Ok(1), 2 => Outcome::Err(2), 3 => Outcome::Err(3), _ => Outcome::Panic });
                    }
                }
                5 => base.force_open().await,
                6 => base.force_closed().await,
                7 => base.reset().await,
                _ => continue,
            }
            settle().await;
            let mut mask: i128 = 0;
            for (j, c) in callers.iter().enumerate() {
                if let Some(m) = c { if m.alive() && m.woken() { mask += 1i128 << j; } }
            }
            let st = code(base.state().await);
            let mut sync = code(base.state_sync());
            if base.is_open() != (base.state_sync() == CircuitState::Open) { sync += 10; }
            let m = base.metrics().await;
            tr.extend([r, started, st, sync, code(m.state), m.total_calls as i128, m.failure_count as i128,
                       m.success_count as i128, m.slow_call_count as i128, sh.inflight() as i128, mask]);
        }
        tr
    }};
}

fn run(s: &[i128]) -> Vec<i128> {
    let n = zn(s, 13) as usize;
    let rt = paused_rt();
    let sv: Vec<i128> = s.to_vec();
    rt.block_on(async move {
        let s = &sv[..];
        let inner = GatedInner::new();
        let sh = inner.0.clone();
        let mut b = CircuitBreakerLayer::builder()
            .sliding_window_type(if zn(s, 0) != 0 { SlidingWindowType::TimeBased } else { SlidingWindowType::CountBased })
            .sliding_window_size(zn(s, 1).max(0) as usize)
            .sliding_window_duration(Duration::from_millis(zn(s, 2).max(0) as u64))
            .minimum_number_of_calls(zn(s, 3).max(0) as usize)
            .failure_rate_threshold(zn(s, 4) as f64 / zn(s, 5) as f64)
            .slow_call_rate_threshold(zn(s, 8) as f64 / zn(s, 9) as f64)
            .wait_duration_in_open(if zn(s, 10) >= 1_000_000_000_000_000 { Duration::MAX } else { Duration::from_millis(zn(s, 10).max(0) as u64) })
            .permitted_calls_in_half_open(zn(s, 11).max(0) as usize);
        if zn(s, 6) != 0 {
            b = b.slow_call_duration_threshold(Duration::from_millis(zn(s, 7).max(0) as u64));
        }
        let layer = b
            .failure_classifier(|r: &Result<i128, i128>| match r { Ok(v) => *v == 1, Err(e) => *e != 3 })
            .build();
        let cb = layer.layer(inner);
        if zn(s, 12) != 0 {
            let svc = cb.with_fallback(|_req: i128| -> BoxFuture<'static, Result<i128, i128>> { Box::pin(async { Ok(77) }) });
            drive!(svc, s, n, sh)
        } else {
            drive!(cb, s, n, sh)
        }
    })
}

fn main() { main_loop(run); }
