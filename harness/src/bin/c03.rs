//! C03 / C04 / C09: circuit breaker.
//! script = [time_based, wsize, wdur, minc, fnum, fden, slow_on, slow_thr, snum, sden, wait_open,
//!           permitted, has_fallback, n, (op a b)*]
//! op 1 Poll a | 2 Drop a | 3 Advance a ms | 4 Complete a b | 5 ForceOpen | 6 ForceClosed | 7 Reset
//! | 8 Call a (create the call future without polling it) | 15 / 16 / 17 force_open / force_closed / reset
//! called on the service's OWN handle (`base`: the fallback service when a fallback is configured) instead of
//! the plain clone `ctl`; 25 / 26 = HealthTriggerable::trigger_unhealthy / trigger_healthy on `base` (cargo
//! feature `health-integration`: they spawn a task that does force_open / force_closed; it runs during the
//! settle that follows every event). Events naming a caller outside 0..n-1 are skipped (no trace entry).
//! outcome b: 0 ok | 1 ok classified as failure | 2 err | 3 err classified as success
//!            | 5 ok on which the failure classifier panics | anything else: the inner call panics
//! min_calls < 0 = minimum_number_of_calls is not set (builder default: the window size)
//! first field = time_based + 2*unit_us + 4*unit_ns: with unit_us (unit_ns) = 1 wait_open, window duration,
//! slow threshold and Advance are in microseconds (nanoseconds); the clock then jumps by the whole amount in
//! one step: the breaker reads std::time::Instant only, no timer is involved
//! first field bit 3 (+8) = SLOW LISTENER (driver-only, the model ignores it): an `on_state_transition` listener
//! lets `wait_open - 1` units of std::time pass inside every state transition (the virtual CLOCK_MONOTONIC is
//! bumped from inside the listener: time passing INSIDE a poll). The generators set it only on count-based
//! scripts without slow-call detection, where the breaker reads the clock for nothing but the open period: on
//! code that timestamps the new state when it becomes observable (after the listeners), every later reading is
//! shifted by the same amount and the run is indistinguishable from the same script without the bit; code that
//! timestamps the transition BEFORE the listeners ends its open period `wait_open - 1` units early.
//! sync field = code(ctl.state_sync()) + 10 if ctl.is_open() disagrees with it + 20 if the service handle's
//! lock-free view differs from ctl's, in which case + 100 * code(base.state_sync()) as well
//! trace per event = [r, started (number of inner calls started by this event), state, state_sync,
//!                    metrics.state, total, failures, successes, slow, in-flight, wake mask]
//! Handles: callers are clones of `base` (the service, with its fallback when configured); the
//! operator actions and the lock-free view go through `ctl`, a clone of the plain breaker taken
//! BEFORE `with_fallback`; state().await and metrics() are read from `base`. All of them must
//! share one circuit.
use futures::future::BoxFuture;
use std::time::Duration;
use tower::{Layer, Service};
use tower_resilience_circuitbreaker::{
    CircuitBreakerError, CircuitBreakerLayer, CircuitState, SlidingWindowType,
};
use verif_harness::*;

type Res = Result<i128, CircuitBreakerError<i128>>;

fn code(s: CircuitState) -> i128 {
    match s {
        CircuitState::Closed => 0,
        CircuitState::Open => 1,
        CircuitState::HalfOpen => 2,
    }
}

macro_rules! drive {
    ($svc:expr, $ctl:expr, $s:expr, $n:expr, $sh:expr) => {{
        let sub_ns: u64 = match (zn($s, 0).max(0) >> 1) & 3 { 0 => 0, 1 => 1000, _ => 1 };
        let base = $svc;
        let ctl = $ctl;
        let s: &[i128] = $s;
        let n: usize = $n;
        let sh = $sh;
        let mut callers: Vec<Option<Manual<Res>>> = (0..n).map(|_| None).collect();
        let mut created = vec![false; n];
        let mut tr = Vec::new();
        let evs: Vec<(i128, i128, i128)> = s[14.min(s.len())..]
            .chunks(3)
            .filter(|c| c.len() == 3)
            .map(|c| (c[0], c[1], c[2]))
            .collect();
        for (op, a, b) in evs {
            let mut r: i128 = -1;
            sh.take_starts();
            match op {
                1 | 2 | 8 => {
                    if a < 0 || a as usize >= n { continue; }
                    let i = a as usize;
                    if !created[i] {
                        created[i] = true;
                        let mut svc = base.clone();
                        futures::future::poll_fn(|cx| svc.poll_ready(cx)).await.ok();
                        callers[i] = Some(Manual::new(svc.call(i as i128)));
                    }
                    let m = callers[i].as_mut().unwrap();
                    if op == 8 {
                        // only create the future (call() without a poll)
                    } else if op == 1 {
                        if !m.alive() {
                            r = 9;
                        } else {
                            let fin = m.poll();
                            r = if !fin { 0 } else if m.panicked { 5 } else {
                                match m.done.take().unwrap() {
                                    Ok(77) => 4,
                                    Ok(_) => 1,
                                    Err(CircuitBreakerError::Inner(_)) => 2,
                                    Err(CircuitBreakerError::OpenCircuit) => 3,
                                }
                            };
                        }
                    } else {
                        m.drop_fut();
                        m.flag.0.store(false, std::sync::atomic::Ordering::SeqCst);
                    }
                }
                3 => {
                    if sub_ns != 0 {
                        let ns = a.clamp(0, 1_000_000_000_000) as u64 * sub_ns;
                        VIRT_NS.fetch_add(ns, std::sync::atomic::Ordering::SeqCst);
                        tokio::time::advance(Duration::from_nanos(ns)).await;
                    } else {
                        advance_ms(a.max(0) as u64).await
                    }
                }
                4 => {
                    if a < 0 || a as usize >= n { continue; }
                    sh.complete(a, 0, match b { 0 => Outcome::Ok(0), 1 => Outcome::Ok(1), 2 => Outcome::Err(2), 3 => Outcome::Err(3), 5 => Outcome::Ok(5), _ => Outcome::Panic });
                }
                5 => ctl.force_open().await,
                6 => ctl.force_closed().await,
                7 => ctl.reset().await,
                15 => base.force_open().await,
                16 => base.force_closed().await,
                17 => base.reset().await,
                25 => tower_resilience_core::HealthTriggerable::trigger_unhealthy(&base),
                26 => tower_resilience_core::HealthTriggerable::trigger_healthy(&base),
                _ => continue,
            }
            settle().await;
            // every inner call started by this event (also by spawned work during settle)
            let started = sh.take_starts().len() as i128;
            let mut mask: i128 = 0;
            for (j, c) in callers.iter().enumerate().take(120) { // the mask must fit an i128
                if let Some(m) = c { if m.alive() && m.woken() { mask += 1i128 << j; } }
            }
            let st = code(base.state().await);
            let mut sync = code(ctl.state_sync());
            if ctl.is_open() != (ctl.state_sync() == CircuitState::Open) { sync += 10; }
            if base.state_sync() != ctl.state_sync() || base.is_open() != ctl.is_open() {
                sync += 20 + 100 * code(base.state_sync());
            }
            let m = base.metrics().await;
            tr.extend([r, started, st, sync, code(m.state), m.total_calls as i128, m.failure_count as i128,
                       m.success_count as i128, m.slow_call_count as i128, sh.inflight() as i128, mask]);
        }
        tr
    }};
}

fn run(s: &[i128]) -> Vec<i128> {
    let n = zn(s, 13) as usize;
    let rt = paused_rt();
    let sv: Vec<i128> = s.to_vec();
    let unit_sel = (zn(s, 0).max(0) >> 1) & 3;
    let unit = move |v: i128| -> Duration {
        match unit_sel {
            0 => Duration::from_millis(v.max(0) as u64),
            1 => Duration::from_micros(v.max(0) as u64),
            _ => Duration::from_nanos(v.max(0) as u64),
        }
    };
    rt.block_on(async move {
        let s = &sv[..];
        let inner = GatedInner::new();
        let sh = inner.0.clone();
        let mut b = CircuitBreakerLayer::builder()
            .sliding_window_type(if zn(s, 0) & 1 != 0 { SlidingWindowType::TimeBased } else { SlidingWindowType::CountBased })
            .sliding_window_size(zn(s, 1).max(0) as usize)
            .sliding_window_duration(unit(zn(s, 2)))
            .failure_rate_threshold(zn(s, 4) as f64 / zn(s, 5) as f64)
            .slow_call_rate_threshold(zn(s, 8) as f64 / zn(s, 9) as f64)
            .wait_duration_in_open(if zn(s, 10) >= 1_000_000_000_000_000 { Duration::MAX } else { unit(zn(s, 10)) })
            .permitted_calls_in_half_open(zn(s, 11).max(0) as usize);
        if zn(s, 3) >= 0 {
            b = b.minimum_number_of_calls(zn(s, 3) as usize);
        }
        if zn(s, 6) != 0 {
            b = b.slow_call_duration_threshold(unit(zn(s, 7)));
        }
        if (zn(s, 0).max(0) >> 3) & 1 != 0 && zn(s, 10) >= 2 && zn(s, 10) < 1_000_000_000_000_000 {
            let bump = unit(zn(s, 10) - 1).as_nanos().min(u64::MAX as u128 / 4) as u64;
            b = b.on_state_transition(move |_from, _to| {
                VIRT_NS.fetch_add(bump, std::sync::atomic::Ordering::SeqCst);
            });
        }
        let layer = b
            .failure_classifier(|r: &Result<i128, i128>| match r {
                Ok(5) => panic!("scripted classifier panic"),
                Ok(v) => *v == 1,
                Err(e) => *e != 3,
            })
            .build();
        let cb = layer.layer(inner);
        let ctl = cb.clone();
        if zn(s, 12) != 0 {
            let svc = cb.with_fallback(|_req: i128| -> BoxFuture<'static, Result<i128, i128>> { Box::pin(async { Ok(77) }) });
            drive!(svc, ctl, s, n, sh)
        } else {
            drive!(cb, ctl, s, n, sh)
        }
    })
}

fn main() { main_loop(run); }
