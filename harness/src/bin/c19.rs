//! C19: chaos layer.
//! script = [flags; error_rate f64 bits; latency_rate f64 bits; min_latency; max_latency; seed; tail_ms; n;
//!           (gap_ms, ik, inner_val)*n]
//!          (anything after the 3n request fields is the model's oracle and is ignored here)
//!   flags  bit 0: 0 NoErrorInjection, 1 CustomErrorFn; bits 1-4: builder route (see `build`; routes 8-15 call
//!          error_fn() more than once: the error function is replaced, the configured rate must survive)
//!   bounds v < 2^64: Duration::from_micros(v); v >= 2^64: v - 2^64 nanoseconds (Duration::new(secs, nanos))
//!   ik     bit 0: inner outcome 0 Ok / 1 Err; bits 1-2: first poll of the future: 0 right after call(),
//!          1 deferred (polled right after the next request that is polled at once, most recent deferred
//!          first; whatever is still deferred after the last call() is polled then), 2/3 the future is
//!          dropped without ever being polled; bits 3..: milliseconds the inner service sleeps before answering
//! Two equally seeded instances A and B of the REAL layer are driven in lock-step: request i is created
//! (poll_ready + call) on A, then on B, `gap_i` virtual ms after request i-1; nothing waits for a
//! previous request, so requests overlap while an injected latency sleeps. The draw log of the
//! verif hook is taken around every first poll.
//! A third instance C, built later (at another virtual instant), is then driven alone with the same requests in
//! the same order and the same first-poll discipline, but with other gaps (gap_i + i mod 3), the opposite inner
//! outcomes and no tail: its decisions (events error / latency / pass and the reported delay of every request) must
//! equal A's — the decisions may depend on the seed and the order of requests only.
//! trace = [repro; per request 15 ints; n_draws; draw bits...]  (records and draws of instance A)
//!   repro bit 0: A and B produced identical outcomes (record fields 4..15); bit 1: identical draw logs;
//!         bit 2: C made the same decisions as A (record fields 4..8) and logged the same draws
//!   (A uses one service handle for all requests, B a fresh clone of its handle per request)
//!   after the draws: [n; per request the first 8 record fields of instance D] — D is the second service built from
//!   the same layer value as A, driven like A afterwards (compared with the model only)
//!   request record = [n_log; k0; k1; k2 (logged kinds, -1 padding); listener events error, latency, pass
//!                     (counts at the first poll); reported delay ms (-1); inner_called (count); t_call;
//!                     t_poll (-1 never polled); t_inner (-1); res_kind (0 Ok, 1 Err, -1 pending at the end /
//!                     never polled, -2 panicked); res_val; t_done (-1)]
use std::sync::{Arc, Mutex};
use std::time::Duration;
use tower::{Layer, Service};
use tower_resilience_chaos::ChaosLayer;
use tower_resilience_core::verif::take_draws;
use verif_harness::*;

type Res = Result<i128, i128>;
type Svc = tower::util::BoxCloneService<i128, i128, i128>;

#[derive(Default)]
struct Logs {
    ev_err: Mutex<i128>,
    ev_lat: Mutex<Vec<i128>>,
    ev_pass: Mutex<i128>,
    inner: Mutex<Vec<(i128, i128)>>, // (req, t_ms)
}

struct Inst {
    svc: Svc,
    logs: Arc<Logs>,
    futs: Vec<Option<Manual<Res>>>,
    recs: Vec<Vec<i128>>, // first 8 fields of the record
    t_call: Vec<i128>,
    t_poll: Vec<i128>,
    done_at: Vec<i128>,
    deferred: Vec<usize>,
    draws: Vec<u64>,
    via_clone: bool,
}

fn now_ms(t0: tokio::time::Instant) -> i128 {
    (tokio::time::Instant::now() - t0).as_millis() as i128
}

fn dur(v: i128) -> Duration {
    let two64: i128 = 1i128 << 64;
    if v < two64 {
        Duration::from_micros(v.max(0) as u64)
    } else {
        let ns = v - two64;
        Duration::new((ns / 1_000_000_000) as u64, (ns % 1_000_000_000) as u32)
    }
}

fn build(s: &[i128], t0: tokio::time::Instant, flip_inner: bool) -> (Inst, Inst) {
    let inj = zn(s, 0) & 1;
    let route = (zn(s, 0) >> 1) & 15;
    let er = f64::from_bits(zn(s, 1) as u64);
    let lr = f64::from_bits(zn(s, 2) as u64);
    let (mn, mx, seed) = (dur(zn(s, 3)), dur(zn(s, 4)), zn(s, 5) as u64);
    let n = zn(s, 7) as usize;
    let kinds: Vec<(i128, i128, u64)> = (0..n)
        .map(|i| {
            let ik = zn(s, 8 + 3 * i + 1);
            if flip_inner {
                ((ik & 1) ^ 1, zn(s, 8 + 3 * i + 2) + 1, ((ik >> 3).max(0) as u64 + 2) % 5)
            } else {
                (ik & 1, zn(s, 8 + 3 * i + 2), (ik >> 3).max(0) as u64)
            }
        })
        .collect();
    let logs = Arc::new(Logs::default());
    // the inner service of the second service built from the same layer value logs its calls elsewhere
    let logs2 = Arc::new(Logs::default());
    let mk_inner = |l: Arc<Logs>, kinds: Vec<(i128, i128, u64)>| {
        tower::service_fn(move |r: i128| {
            l.inner.lock().unwrap().push((r, now_ms(t0)));
            let (ik, iv, ms) = kinds.get(r as usize).copied().unwrap_or((0, 0, 0));
            async move {
                if ms > 0 {
                    tokio::time::sleep(Duration::from_millis(ms)).await;
                }
                if ik == 0 { Ok::<i128, i128>(iv) } else { Err(iv) }
            }
        })
    };
    let inner = mk_inner(logs.clone(), kinds.clone());
    let inner2 = mk_inner(logs2.clone(), kinds);
    // the setter groups, applicable to each of the three builder types
    macro_rules! lat {
        ($b:expr) => { $b.latency_rate(lr).min_latency(mn).max_latency(mx) };
    }
    macro_rules! lat_rev {
        ($b:expr) => { $b.max_latency(mx).min_latency(mn).latency_rate(lr) };
    }
    macro_rules! obs {
        ($b:expr) => {{
            let (l1, l2, l3) = (logs.clone(), logs.clone(), logs.clone());
            $b.name("verif")
                .on_error_injected(move || *l1.ev_err.lock().unwrap() += 1)
                .on_latency_injected(move |d: Duration| l2.ev_lat.lock().unwrap().push(d.as_millis() as i128))
                .on_passed_through(move || *l3.ev_pass.lock().unwrap() += 1)
        }};
    }
    let f = |r: &i128| *r + 7000;
    let decoy = |r: &i128| *r + 9000; // an error function that is replaced before build()
    let b0 = ChaosLayer::builder();
    let (svc, svc2): (Svc, Svc) = if inj == 0 {
        // NoErrorInjection: only the order of the setters can vary (error_rate() without error_fn()
        // yields a builder that cannot be built)
        let layer = match route {
            0 | 2 | 4 | 6 | 8 | 10 | 12 | 14 => obs!(lat!(b0).seed(seed)).build(),
            1 | 5 | 9 | 13 => lat_rev!(obs!(b0.seed(seed))).build(),
            _ => obs!(lat!(b0.seed(seed ^ 1).latency_rate(0.5)).seed(seed)).build(), // overwritten values
        };
        // ONE layer value, two services: layer() is called twice on it
        (tower::util::BoxCloneService::new(layer.layer(inner)), tower::util::BoxCloneService::new(layer.layer(inner2)))
    } else {
        let layer = match route {
            // error_fn(..).error_rate(..) on a fully configured builder (the only route driven before)
            0 => obs!(lat!(b0).seed(seed)).error_fn(f).error_rate(er).build(),
            // error_rate(..).error_fn(..): through ChaosConfigBuilderWithRate
            1 => obs!(lat!(b0).seed(seed)).error_rate(er).error_fn(f).build(),
            // everything configured on ChaosConfigBuilderWithRate
            2 => obs!(lat!(b0.error_rate(er).seed(seed))).error_fn(f).build(),
            // everything configured on ChaosConfigBuilder<CustomErrorFn>
            3 => lat_rev!(obs!(b0.error_fn(f).error_rate(er))).seed(seed).build(),
            // seed before the route switch, latency on the intermediate builder, listeners at the end
            4 => obs!(lat!(b0.seed(seed).error_rate(er)).error_fn(f)).build(),
            // rate given on both routes, the later one wins
            5 => obs!(lat!(b0.error_rate(0.5).error_fn(f).error_rate(er)).seed(seed)).build(),
            // values overwritten after the route switch
            6 => obs!(lat!(b0.seed(seed ^ 1).latency_rate(0.5).error_fn(f).seed(seed)).error_rate(er)).build(),
            7 => lat_rev!(obs!(b0.latency_rate(0.25).error_rate(er).seed(seed))).error_fn(f).build(),
            // ---- the error function replaced (fix 7904406: error_fn keeps the configured rate) ----
            8 => obs!(lat!(b0.error_rate(er).error_fn(decoy).error_fn(f)).seed(seed)).build(),
            9 => obs!(lat!(b0.error_fn(decoy).error_rate(er).name("x").error_fn(f)).seed(seed)).build(),
            // replaced before the rate is given
            10 => obs!(lat!(b0.error_fn(decoy).error_fn(f).error_rate(er)).seed(seed)).build(),
            // rate overwritten between the replacements, the function replaced twice
            11 => obs!(lat!(b0.error_rate(0.5).error_fn(decoy).error_rate(er).error_fn(decoy).error_fn(f)).seed(seed)).build(),
            12 => obs!(lat!(b0.error_rate(0.25).error_fn(decoy).error_fn(f).error_rate(er)).seed(seed)).build(),
            13 => obs!(lat!(b0.error_fn(decoy).error_rate(er).error_fn(decoy).error_fn(f)).seed(seed)).build(),
            // the other setters before the route switch / between the replacements
            14 => obs!(lat!(b0.seed(seed)).error_rate(er).error_fn(decoy)).error_fn(f).build(),
            _ => lat_rev!(obs!(b0.error_fn(decoy).error_rate(er)).seed(seed)).error_fn(f).build(),
        };
        // ONE layer value, two services: layer() is called twice on it
        (tower::util::BoxCloneService::new(layer.layer(inner)), tower::util::BoxCloneService::new(layer.layer(inner2)))
    };
    let mk = |svc: Svc, logs: Arc<Logs>| Inst {
        svc,
        logs,
        futs: Vec::new(),
        recs: Vec::new(),
        t_call: Vec::new(),
        t_poll: Vec::new(),
        done_at: Vec::new(),
        deferred: Vec::new(),
        draws: Vec::new(),
        via_clone: false,
    };
    // the listeners belong to the layer's configuration: both services report to `logs`' event counters
    let second = mk(svc2, Arc::new(Logs { inner: Mutex::new(Vec::new()), ..Default::default() }));
    let _ = logs2;
    (mk(svc, logs), second)
}

impl Inst {
    /// poll_ready + call() of request i; the future is not polled
    async fn create(&mut self, i: usize, t0: tokio::time::Instant) {
        // instance B sends every request through a fresh clone of its handle: the decisions must be a
        // function of the seed and the order of requests only, not of which clone carries a request
        let m = if self.via_clone {
            let mut c = self.svc.clone();
            futures::future::poll_fn(|cx| c.poll_ready(cx)).await.ok();
            Manual::new(c.call(i as i128))
        } else {
            futures::future::poll_fn(|cx| self.svc.poll_ready(cx)).await.ok();
            Manual::new(self.svc.call(i as i128))
        };
        self.futs.push(Some(m));
        self.recs.push(vec![0, -1, -1, -1, 0, 0, 0, -1]);
        self.t_call.push(now_ms(t0));
        self.t_poll.push(-1);
        self.done_at.push(-1);
    }
    /// first poll of request i
    fn first_poll(&mut self, i: usize, t0: tokio::time::Instant) {
        let _ = take_draws();
        let e0 = *self.logs.ev_err.lock().unwrap();
        let l0 = self.logs.ev_lat.lock().unwrap().len();
        let p0 = *self.logs.ev_pass.lock().unwrap();
        self.t_poll[i] = now_ms(t0);
        let m = self.futs[i].as_mut().unwrap();
        if m.poll() {
            self.done_at[i] = now_ms(t0);
        }
        let d = take_draws();
        let mut rec = vec![d.len() as i128];
        for j in 0..3 {
            rec.push(d.get(j).map(|x| x.0 as i128).unwrap_or(-1));
        }
        self.draws.extend(d.iter().map(|x| x.1));
        let lat = self.logs.ev_lat.lock().unwrap();
        rec.push(*self.logs.ev_err.lock().unwrap() - e0);
        rec.push((lat.len() - l0) as i128);
        rec.push(*self.logs.ev_pass.lock().unwrap() - p0);
        rec.push(if lat.len() > l0 { lat[l0] } else { -1 });
        drop(lat);
        self.recs[i] = rec;
    }
    /// request i has been created: apply its polling mode
    fn after_create(&mut self, i: usize, mode: i128, t0: tokio::time::Instant) {
        match mode {
            0 => {
                self.first_poll(i, t0);
                while let Some(d) = self.deferred.pop() {
                    self.first_poll(d, t0);
                }
            }
            1 => self.deferred.push(i),
            _ => self.futs[i] = None, // dropped without a poll
        }
    }
    fn flush_deferred(&mut self, t0: tokio::time::Instant) {
        while let Some(d) = self.deferred.pop() {
            self.first_poll(d, t0);
        }
    }
    /// poll every woken future until nothing is woken
    fn pump(&mut self, t0: tokio::time::Instant) {
        loop {
            let mut any = false;
            for (i, m) in self.futs.iter_mut().enumerate() {
                let Some(m) = m.as_mut() else { continue };
                if self.t_poll[i] >= 0 && m.alive() && m.woken() {
                    any = true;
                    if m.poll() {
                        self.done_at[i] = now_ms(t0);
                    }
                }
            }
            if !any {
                break;
            }
        }
    }
    fn finish(&self, n: usize) -> Vec<Vec<i128>> {
        let inner = self.logs.inner.lock().unwrap();
        let mut out = Vec::new();
        for i in 0..n {
            let mut rec = self.recs[i].clone();
            let calls: Vec<i128> = inner.iter().filter(|c| c.0 == i as i128).map(|c| c.1).collect();
            rec.push(calls.len() as i128);
            rec.push(self.t_call[i]);
            rec.push(self.t_poll[i]);
            rec.push(calls.first().copied().unwrap_or(-1));
            match self.futs[i].as_ref() {
                Some(m) => match m.done {
                    Some(Ok(v)) => rec.extend([0, v]),
                    Some(Err(e)) => rec.extend([1, e]),
                    None => rec.extend([if m.panicked { -2 } else { -1 }, 0]),
                },
                None => rec.extend([-1, 0]),
            }
            rec.push(self.done_at[i]);
            out.push(rec);
        }
        out
    }
}

fn run(s: &[i128]) -> Vec<i128> {
    let n = zn(s, 7).max(0) as usize;
    let tail = zn(s, 6).max(0) as u64;
    let rt = paused_rt();
    rt.block_on(async move {
        let t0 = tokio::time::Instant::now();
        let _ = take_draws();
        let (mut a, mut d) = build(s, t0, false);
        let (mut b, _) = build(s, t0, false);
        b.via_clone = true;
        for i in 0..n {
            let gap = zn(s, 8 + 3 * i).max(0) as u64;
            let mode = (zn(s, 8 + 3 * i + 1) >> 1) & 3;
            for _ in 0..gap {
                advance_ms(1).await;
                a.pump(t0);
                b.pump(t0);
            }
            a.create(i, t0).await;
            a.after_create(i, mode, t0);
            b.create(i, t0).await;
            b.after_create(i, mode, t0);
            settle().await;
            a.pump(t0);
            b.pump(t0);
        }
        a.flush_deferred(t0);
        b.flush_deferred(t0);
        settle().await;
        a.pump(t0);
        b.pump(t0);
        for _ in 0..tail {
            advance_ms(1).await;
            a.pump(t0);
            b.pump(t0);
        }
        let ra = a.finish(n);
        let rb = b.finish(n);
        let same_outcomes = ra.iter().zip(rb.iter()).all(|(x, y)| x[4..] == y[4..]);
        let same_draws = a.draws == b.draws && ra.iter().zip(rb.iter()).all(|(x, y)| x[..4] == y[..4]);
        // third instance: other gaps, other inner outcomes, built at another instant, same order and poll discipline
        drop(b);
        advance_ms(3).await;
        let (mut c, _) = build(s, t0, true);
        for i in 0..n {
            let gap = zn(s, 8 + 3 * i).max(0) as u64 + (i as u64 % 3);
            let mode = (zn(s, 8 + 3 * i + 1) >> 1) & 3;
            for _ in 0..gap.min(60) {
                advance_ms(1).await;
                c.pump(t0);
            }
            c.create(i, t0).await;
            c.after_create(i, mode, t0);
            settle().await;
            c.pump(t0);
        }
        c.flush_deferred(t0);
        let same_decisions = c.draws == a.draws
            && ra.iter().zip(c.recs.iter()).all(|(x, y)| y.len() >= 8 && x[..8] == y[..8]);
        let mut tr = vec![(same_outcomes as i128) + 2 * (same_draws as i128) + 4 * (same_decisions as i128)];
        for r in ra {
            tr.extend(r);
        }
        tr.push(a.draws.len() as i128);
        tr.extend(a.draws.iter().map(|x| *x as i128));
        // fourth instance D: the SECOND service built from the same layer value as A (layer.layer() once more),
        // driven like A once A, B and C are done. Not judged by the monitor (the property can be read per layer or per
        // service); compared with the model: one generator per service, each seeded from the configuration.
        drop(c);
        a.futs.clear();
        d.logs = a.logs.clone(); // the event listeners of the shared configuration count into A's logs
        for i in 0..n {
            let gap = zn(s, 8 + 3 * i).max(0) as u64;
            let mode = (zn(s, 8 + 3 * i + 1) >> 1) & 3;
            for _ in 0..gap.min(60) {
                advance_ms(1).await;
                d.pump(t0);
            }
            d.create(i, t0).await;
            d.after_create(i, mode, t0);
            settle().await;
            d.pump(t0);
        }
        d.flush_deferred(t0);
        tr.push(n as i128);
        for r in d.recs.iter() {
            tr.extend(r.iter().take(8).copied());
        }
        tr
    })
}

fn main() {
    main_loop(run);
}
