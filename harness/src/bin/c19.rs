//! C19: chaos layer.
//! script = [inj_kind (0 NoErrorInjection, 1 CustomErrorFn); error_rate f64 bits; latency_rate f64 bits;
//!           min_latency us; max_latency us; seed; tail_ms; n; (gap_ms, inner_kind 0 ok/1 err, inner_val)*n]
//!          (anything after the 3n request fields is the model's oracle and is ignored here)
//! Two equally seeded instances A and B of the REAL layer are driven in lock-step: request i is issued
//! (call + first poll) to A, then to B, `gap_i` virtual ms after request i-1; nothing waits for a
//! previous request, so requests overlap while an injected latency sleeps. The draw log of the
//! verif hook is taken after every first poll.
//! trace = [repro; per request 14 ints; n_draws; draw bits...]  (records and draws of instance A)
//!   repro = 1 iff A and B produced identical records and identical draw logs
//!   (A uses one service handle for all requests, B a fresh clone of its handle per request)
//!   request record = [n_log; k0; k1; k2 (logged kinds, -1 padding); listener events error, latency, pass
//!                     (counts); reported delay ms (-1); inner_called; t_issue; t_inner (-1); res_kind
//!                     (0 Ok, 1 Err, -1 pending at the end); res_val; t_done (-1)]
use std::sync::{Arc, Mutex};
use std::time::Duration;
use tower::{Layer, Service};
use tower_resilience_chaos::ChaosLayer;
use tower_resilience_core::verif::take_draws;
use verif_harness::*;

type Res = Result<i128, i128>;
type Svc = tower::util::BoxCloneService<i128, i128, i128>;

#[derive(Default)]
struct Logs {
    ev_err: Mutex<i128>,
    ev_lat: Mutex<Vec<i128>>,
    ev_pass: Mutex<i128>,
    inner: Mutex<Vec<(i128, i128)>>, // (req, t_ms)
}

struct Inst {
    svc: Svc,
    logs: Arc<Logs>,
    futs: Vec<Manual<Res>>,
    recs: Vec<Vec<i128>>,
    draws: Vec<u64>,
    via_clone: bool,
}

fn now_ms(t0: tokio::time::Instant) -> i128 {
    (tokio::time::Instant::now() - t0).as_millis() as i128
}

fn build(s: &[i128], t0: tokio::time::Instant) -> Inst {
    let inj = zn(s, 0);
    let er = f64::from_bits(zn(s, 1) as u64);
    let lr = f64::from_bits(zn(s, 2) as u64);
    let (min_us, max_us, seed) = (zn(s, 3) as u64, zn(s, 4) as u64, zn(s, 5) as u64);
    let n = zn(s, 7) as usize;
    let kinds: Vec<(i128, i128)> = (0..n).map(|i| (zn(s, 8 + 3 * i + 1), zn(s, 8 + 3 * i + 2))).collect();
    let logs = Arc::new(Logs::default());
    let l = logs.clone();
    let inner = tower::service_fn(move |r: i128| {
        l.inner.lock().unwrap().push((r, now_ms(t0)));
        let (ik, iv) = kinds.get(r as usize).copied().unwrap_or((0, 0));
        async move { if ik == 0 { Ok::<i128, i128>(iv) } else { Err(iv) } }
    });
    let (l1, l2, l3) = (logs.clone(), logs.clone(), logs.clone());
    let b = ChaosLayer::builder()
        .name("verif")
        .latency_rate(lr)
        .min_latency(Duration::from_micros(min_us))
        .max_latency(Duration::from_micros(max_us))
        .seed(seed)
        .on_error_injected(move || *l1.ev_err.lock().unwrap() += 1)
        .on_latency_injected(move |d: Duration| l2.ev_lat.lock().unwrap().push(d.as_millis() as i128))
        .on_passed_through(move || *l3.ev_pass.lock().unwrap() += 1);
    let svc: Svc = if inj == 0 {
        tower::util::BoxCloneService::new(b.build().layer(inner))
    } else {
        tower::util::BoxCloneService::new(
            b.error_fn(|r: &i128| *r + 7000).error_rate(er).build().layer(inner),
        )
    };
    Inst { svc, logs, futs: Vec::new(), recs: Vec::new(), draws: Vec::new(), via_clone: false }
}

impl Inst {
    /// call + first poll of request i
    async fn issue(&mut self, i: usize, t0: tokio::time::Instant) {
        let _ = take_draws();
        let e0 = *self.logs.ev_err.lock().unwrap();
        let l0 = self.logs.ev_lat.lock().unwrap().len();
        let p0 = *self.logs.ev_pass.lock().unwrap();
        // instance B sends every request through a fresh clone of its handle: the decisions must be a
        // function of the seed and the order of requests only, not of which clone carries a request
        let mut m = if self.via_clone {
            let mut c = self.svc.clone();
            futures::future::poll_fn(|cx| c.poll_ready(cx)).await.ok();
            Manual::new(c.call(i as i128))
        } else {
            futures::future::poll_fn(|cx| self.svc.poll_ready(cx)).await.ok();
            Manual::new(self.svc.call(i as i128))
        };
        let t_issue = now_ms(t0);
        m.poll();
        let d = take_draws();
        let mut rec = vec![d.len() as i128];
        for j in 0..3 {
            rec.push(d.get(j).map(|x| x.0 as i128).unwrap_or(-1));
        }
        self.draws.extend(d.iter().map(|x| x.1));
        let lat = self.logs.ev_lat.lock().unwrap();
        rec.push(*self.logs.ev_err.lock().unwrap() - e0);
        rec.push((lat.len() - l0) as i128);
        rec.push(*self.logs.ev_pass.lock().unwrap() - p0);
        rec.push(if lat.len() > l0 { lat[l0] } else { -1 });
        rec.push(t_issue); // placeholder layout: filled in by finish()
        drop(lat);
        self.futs.push(m);
        self.recs.push(rec);
    }
    /// poll every woken future until nothing is woken
    fn pump(&mut self, t0: tokio::time::Instant, done_at: &mut Vec<i128>) {
        loop {
            let mut any = false;
            for (i, m) in self.futs.iter_mut().enumerate() {
                if m.alive() && m.woken() {
                    any = true;
                    if m.poll() {
                        done_at[i] = now_ms(t0);
                    }
                }
            }
            if !any {
                break;
            }
        }
    }
}

fn run(s: &[i128]) -> Vec<i128> {
    let n = zn(s, 7).max(0) as usize;
    let tail = zn(s, 6).max(0) as u64;
    let rt = paused_rt();
    rt.block_on(async move {
        let t0 = tokio::time::Instant::now();
        let _ = take_draws();
        let mut a = build(s, t0);
        let mut b = build(s, t0);
        b.via_clone = true;
        let mut da = vec![-1i128; n];
        let mut db = vec![-1i128; n];
        for i in 0..n {
            let gap = zn(s, 8 + 3 * i).max(0) as u64;
            for _ in 0..gap {
                advance_ms(1).await;
                a.pump(t0, &mut da);
                b.pump(t0, &mut db);
            }
            a.issue(i, t0).await;
            if a.futs[i].done.is_some() { da[i] = now_ms(t0); }
            b.issue(i, t0).await;
            if b.futs[i].done.is_some() { db[i] = now_ms(t0); }
            settle().await;
            a.pump(t0, &mut da);
            b.pump(t0, &mut db);
        }
        for _ in 0..tail {
            advance_ms(1).await;
            a.pump(t0, &mut da);
            b.pump(t0, &mut db);
        }
        let finish = |x: &mut Inst, d: &Vec<i128>| -> Vec<i128> {
            let inner = x.logs.inner.lock().unwrap();
            let mut out = Vec::new();
            for i in 0..n {
                let mut rec = x.recs[i].clone();
                let t_issue = rec.pop().unwrap();
                let calls: Vec<i128> = inner.iter().filter(|c| c.0 == i as i128).map(|c| c.1).collect();
                rec.push(calls.len() as i128);
                rec.push(t_issue);
                rec.push(calls.first().copied().unwrap_or(-1));
                match x.futs[i].done {
                    Some(Ok(v)) => rec.extend([0, v]),
                    Some(Err(e)) => rec.extend([1, e]),
                    None => rec.extend([if x.futs[i].panicked { -2 } else { -1 }, 0]),
                }
                rec.push(d[i]);
                out.extend(rec);
            }
            out
        };
        let ra = finish(&mut a, &da);
        let rb = finish(&mut b, &db);
        let repro = (ra == rb && a.draws == b.draws) as i128;
        let mut tr = vec![repro];
        tr.extend(ra);
        tr.push(a.draws.len() as i128);
        tr.extend(a.draws.iter().map(|x| *x as i128));
        tr
    })
}

fn main() {
    main_loop(run);
}
