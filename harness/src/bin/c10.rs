//! C10: cache. script = [policy (0 LRU,1 LFU,2 FIFO), max_size, ttl_ms (-1 none),
//!   shared (0 private: CacheLayer, 1: SharedCacheLayer::builder, 2: CacheLayer::shared()),
//!   n callers, m events, (op a b)*m, (oracle*m: ignored here, read by the model)]
//! op 0 Call a on service b/8 with key b%8 | 1 Poll a | 2 Drop a | 3 Advance a ms
//!    4 Complete a b (b>0 Ok b, b=0 Err, b<0 panic)
//! trace per event = [r, value, inner calls started, inner calls in flight,
//!                    listener events (1 hit, 2 miss, 4 eviction), keys present in store 0, in store 1]
//!
//! Presence of a key in a store is observed without any hook: the key type counts its
//! live instances (new/clone/drop). The only holders of a key are the store (>= 1 copy
//! while present) and the futures of pending misses (exactly one each, the `key` captured
//! by the async block in Cache::call), which the harness knows.
use std::sync::atomic::{AtomicI64, AtomicUsize, Ordering};
use std::sync::{Arc, Mutex};
use std::time::Duration;
use tower::{Layer, Service};
use tower_resilience_cache::{Cache, CacheError, CacheLayer, EvictionPolicy, SharedCacheLayer};
use verif_harness::*;

const Z: AtomicI64 = AtomicI64::new(0);
static LIVE: [[AtomicI64; 8]; 2] = [[Z; 8], [Z; 8]];

#[derive(PartialEq, Eq, Hash)]
struct Key {
    tag: u8,
    k: u8,
}
impl Key {
    fn new(tag: u8, k: u8) -> Key {
        LIVE[tag as usize][k as usize].fetch_add(1, Ordering::SeqCst);
        Key { tag, k }
    }
}
impl Clone for Key {
    fn clone(&self) -> Key {
        Key::new(self.tag, self.k)
    }
}
impl Drop for Key {
    fn drop(&mut self) {
        LIVE[self.tag as usize][self.k as usize].fetch_sub(1, Ordering::SeqCst);
    }
}

type Res = Result<i128, CacheError<i128>>;
type Svc = Cache<GatedInner, i128, Key, i128>;

fn run(s: &[i128]) -> Vec<i128> {
    let pol = match zn(s, 0) {
        1 => EvictionPolicy::Lfu,
        2 => EvictionPolicy::Fifo,
        _ => EvictionPolicy::Lru,
    };
    let max_size = zn(s, 1).max(0) as usize;
    let ttl = zn(s, 2);
    let shared = zn(s, 3);
    let n = zn(s, 4).max(0) as usize;
    let m = zn(s, 5).max(0) as usize;
    for row in LIVE.iter() {
        for c in row.iter() {
            c.store(0, Ordering::SeqCst);
        }
    }
    let rt = paused_rt();
    let tr = rt.block_on(async move {
        let inner = GatedInner::new();
        let sh = inner.0.clone();
        // request = caller id; the key extractor looks the (store tag, key) up
        let table: Arc<Mutex<Vec<(u8, u8)>>> = Arc::new(Mutex::new(vec![(0, 0); n]));
        let hits = Arc::new(AtomicUsize::new(0));
        let misses = Arc::new(AtomicUsize::new(0));
        let evictions = Arc::new(AtomicUsize::new(0));
        let (t2, h2, m2, e2) = (table.clone(), hits.clone(), misses.clone(), evictions.clone());
        let extract = move |req: &i128| {
            let (tag, k) = t2.lock().unwrap()[*req as usize];
            Key::new(tag, k)
        };
        let base: Vec<Svc> = if shared == 1 {
            let mut b = SharedCacheLayer::<i128, Key, i128>::builder()
                .max_size(max_size)
                .eviction_policy(pol)
                .key_extractor(extract)
                .on_hit(move || { h2.fetch_add(1, Ordering::SeqCst); })
                .on_miss(move || { m2.fetch_add(1, Ordering::SeqCst); })
                .on_eviction(move || { e2.fetch_add(1, Ordering::SeqCst); });
            if ttl >= 0 {
                b = b.ttl(Duration::from_millis(ttl as u64));
            }
            let l = b.build();
            vec![l.layer(inner.clone()), l.layer(inner.clone())]
        } else {
            let mut b = CacheLayer::<i128, Key>::builder()
                .max_size(max_size)
                .eviction_policy(pol)
                .key_extractor(extract)
                .on_hit(move || { h2.fetch_add(1, Ordering::SeqCst); })
                .on_miss(move || { m2.fetch_add(1, Ordering::SeqCst); })
                .on_eviction(move || { e2.fetch_add(1, Ordering::SeqCst); });
            if ttl >= 0 {
                b = b.ttl(Duration::from_millis(ttl as u64));
            }
            let l = b.build();
            if shared != 0 {
                let l = l.shared::<i128>();
                vec![l.layer(inner.clone()), l.layer(inner.clone())]
            } else {
                vec![l.layer(inner.clone()), l.layer(inner.clone())]
            }
        };
        let mut callers: Vec<Option<Manual<Res>>> = (0..n).map(|_| None).collect();
        let mut miss: Vec<Option<(u8, u8)>> = vec![None; n];
        let mut tr = Vec::new();
        let evs: Vec<(i128, i128, i128)> = s[6.min(s.len())..]
            .chunks(3)
            .take(m)
            .map(|c| (zn(c, 0), zn(c, 1), zn(c, 2)))
            .collect();
        let (mut h0, mut m0, mut e0) = (0usize, 0usize, 0usize);
        for (op, a, b) in evs {
            let mut r: i128 = -1;
            let mut val: i128 = 0;
            sh.take_starts();
            let valid = a >= 0 && (a as usize) < n;
            let i = if valid { a as usize } else { 0 };
            match op {
                3 => advance_ms(a.clamp(0, 100_000) as u64).await,
                0 if valid && (0..16).contains(&b) && callers[i].is_none() => {
                    let svc_id = (b / 8) as usize;
                    let k = (b % 8) as u8;
                    let tag = if shared != 0 { 0u8 } else { svc_id as u8 };
                    table.lock().unwrap()[i] = (tag, k);
                    // every call goes through a fresh clone (Cache::clone shares the store)
                    let mut svc = base[svc_id].clone();
                    futures::future::poll_fn(|cx| svc.poll_ready(cx)).await.ok();
                    let fut = svc.call(i as i128);
                    if !sh.starts.lock().unwrap().is_empty() {
                        miss[i] = Some((tag, k));
                    }
                    callers[i] = Some(Manual::new(fut));
                }
                1 if valid => match callers[i].as_mut() {
                    Some(mm) if mm.alive() => {
                        let fin = mm.poll();
                        r = if !fin {
                            0
                        } else if mm.panicked {
                            5
                        } else {
                            match mm.done.take().unwrap() {
                                Ok(v) => {
                                    val = v;
                                    1
                                }
                                Err(CacheError::Inner(_)) => 2,
                            }
                        };
                    }
                    _ => r = 9,
                },
                2 if valid => {
                    if let Some(mm) = callers[i].as_mut() {
                        mm.drop_fut();
                    }
                }
                4 if valid => {
                    let o = if b > 0 { Outcome::Ok(b) } else if b == 0 { Outcome::Err(a) } else { Outcome::Panic };
                    sh.complete(a, 0, o);
                }
                _ => {}
            }
            settle().await;
            let started = sh.take_starts().len() as i128;
            let (h1, m1, e1) = (hits.load(Ordering::SeqCst), misses.load(Ordering::SeqCst), evictions.load(Ordering::SeqCst));
            let evt = (h1 - h0) as i128 + 2 * (m1 - m0) as i128 + 4 * (e1 - e0) as i128;
            h0 = h1;
            m0 = m1;
            e0 = e1;
            let mut pres = [0i128; 2];
            for tag in 0..2usize {
                for k in 0..8usize {
                    let pending = (0..n)
                        .filter(|&j| miss[j] == Some((tag as u8, k as u8)) && callers[j].as_ref().map_or(false, |c| c.alive()))
                        .count() as i64;
                    let live = LIVE[tag][k].load(Ordering::SeqCst);
                    if live - pending > 0 {
                        pres[tag] += 1 << k;
                    }
                    if live - pending < 0 {
                        pres[tag] = -1_000_000; // accounting broken: make it visible
                    }
                }
            }
            tr.extend([r, val, started, sh.inflight() as i128, evt, pres[0], pres[1]]);
        }
        drop(callers);
        drop(base);
        tr
    });
    drop(rt);
    tr
}

fn main() {
    main_loop(run);
}
