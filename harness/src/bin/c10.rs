//! C10: cache. script = [policy (0 LRU,1 LFU,2 FIFO), max_size (2^64-1 = usize::MAX, 2^63-1 = usize::MAX/2), ttl (-1 none), sh,
//!   n callers, m events, (op a b)*m, (oracle*m: ignored here, read by the model)]
//!   sh mod 4: 0 private (CacheLayer), 1 SharedCacheLayer::builder, 2|3 CacheLayer::shared();
//!   (sh / 4) odd: ttl is in fine units, otherwise in milliseconds; (sh / 8) odd: the fine unit is the
//!   nanosecond, otherwise the microsecond
//! op 0 Call a on service b/8 with key b%8 (fresh clone of the service)
//!    5 Call a with key b%128 (<120) on service (b/128)%2; b/256 = 1: through the long-lived service
//!      value itself (several calls on one `Cache` value), 0: through a fresh clone
//!    7 Call a with key b%256 (<240) on service (b/256)%2; b/512 = 1: long-lived service value
//!    1 Poll a | 2 Drop a | 3 Advance a ms (1 ms steps) | 6 Advance a fine units (one jump)
//!    4 Complete a b (b>0 Ok b, b=0 Err, b<0 panic)
//! trace per event = [r, value, inner calls started, inner calls in flight,
//!                    listener events (1 hit, 2 miss, 4 eviction),
//!                    keys present in store 0 (two words: keys 0..119, keys 120..239), in store 1 (two words),
//!                    values present in store 0 (two words), in store 1 (two words)]
//!
//! Presence in a store is observed without any hook, twice:
//!  * keys: the key type counts its live instances (new/clone/drop). The only holders of a key are the
//!    store (>= 1 copy while present) and the futures of pending misses (exactly one each, the `key`
//!    captured by the async block in Cache::call), which the harness knows.
//!  * values: the response type counts its live instances per (store tag, key) of the request it answers.
//!    A response exists only from the completion of the inner future on; the holders are the store
//!    (entry.value), the not yet polled futures of hits (one clone each) and the futures of misses whose inner
//!    call has completed Ok but which have not returned yet (one each; none for the code as it is), which
//!    the harness knows;
//!    the harness drops every response it receives at once.
//! Both read the same for the code as it is; they differ for a store that keeps key copies of removed
//! entries (lazy deletion) or interns keys — the property monitor (gen/c10.py) uses the value view.
use std::future::Future;
use std::pin::Pin;
use std::sync::atomic::{AtomicI64, AtomicUsize, Ordering};
use std::sync::{Arc, Mutex};
use std::task::{Context, Poll};
use std::time::Duration;
use tower::{Layer, Service};
use tower_resilience_cache::{Cache, CacheError, CacheLayer, EvictionPolicy, SharedCacheLayer};
use verif_harness::*;

const NK: usize = 256;
const Z: AtomicI64 = AtomicI64::new(0);
static LIVE: [[AtomicI64; NK]; 2] = [[Z; NK], [Z; NK]];
static LIVE_VAL: [[AtomicI64; NK]; 2] = [[Z; NK], [Z; NK]];

/// `tag` only says which store's counters the instance is booked on; equality and hash look at `k` alone,
/// so a private store that leaked into the other service would show as a cross-service hit
struct Key {
    tag: u8,
    k: u8,
}
impl PartialEq for Key {
    fn eq(&self, o: &Key) -> bool {
        self.k == o.k
    }
}
impl Eq for Key {}
impl std::hash::Hash for Key {
    fn hash<H: std::hash::Hasher>(&self, h: &mut H) {
        self.k.hash(h)
    }
}
impl Key {
    fn new(tag: u8, k: u8) -> Key {
        LIVE[tag as usize][k as usize].fetch_add(1, Ordering::SeqCst);
        Key { tag, k }
    }
}
impl Clone for Key {
    fn clone(&self) -> Key {
        Key::new(self.tag, self.k)
    }
}
impl Drop for Key {
    fn drop(&mut self) {
        LIVE[self.tag as usize][self.k as usize].fetch_sub(1, Ordering::SeqCst);
    }
}

/// response of the inner service: the scripted value, tagged with the (store tag, key) of its request
struct Val {
    tag: u8,
    k: u8,
    v: i128,
}
impl Val {
    fn new(tag: u8, k: u8, v: i128) -> Val {
        LIVE_VAL[tag as usize][k as usize].fetch_add(1, Ordering::SeqCst);
        Val { tag, k, v }
    }
}
impl Clone for Val {
    fn clone(&self) -> Val {
        Val::new(self.tag, self.k, self.v)
    }
}
impl Drop for Val {
    fn drop(&mut self) {
        LIVE_VAL[self.tag as usize][self.k as usize].fetch_sub(1, Ordering::SeqCst);
    }
}

type Table = Arc<Mutex<Vec<(u8, u8)>>>;

/// GatedInner with the response wrapped into a counted `Val` at completion
#[derive(Clone)]
struct ValInner {
    inner: GatedInner,
    table: Table,
}
impl Service<i128> for ValInner {
    type Response = Val;
    type Error = i128;
    type Future = Pin<Box<dyn Future<Output = Result<Val, i128>> + Send>>;
    fn poll_ready(&mut self, cx: &mut Context<'_>) -> Poll<Result<(), i128>> {
        self.inner.poll_ready(cx)
    }
    fn call(&mut self, req: i128) -> Self::Future {
        let (tag, k) = self.table.lock().unwrap()[req as usize];
        let f = self.inner.call(req);
        Box::pin(async move { f.await.map(|v| Val::new(tag, k, v)) })
    }
}

type Res = Result<Val, CacheError<i128>>;
type Svc = Cache<ValInner, i128, Key, Val>;

fn run(s: &[i128]) -> Vec<i128> {
    let pol = match zn(s, 0) {
        1 => EvictionPolicy::Lfu,
        2 => EvictionPolicy::Fifo,
        _ => EvictionPolicy::Lru,
    };
    // only usize::MAX and usize::MAX/2 are ever driven above 2^26 (anything between would make a store that
    // pre-allocates max_size entries reserve gigabytes or abort the process); other large values read as usize::MAX
    let max_size = match zn(s, 1).max(0) {
        v if v <= (1 << 26) => v as usize,
        v if v == (usize::MAX / 2) as i128 => usize::MAX / 2,
        _ => usize::MAX,
    };
    let ttl = zn(s, 2);
    let shared = zn(s, 3).rem_euclid(4);
    let ttl_fine = zn(s, 3).div_euclid(4).rem_euclid(2) == 1;
    let ns = zn(s, 3).div_euclid(8).rem_euclid(2) == 1;
    let n = zn(s, 4).max(0) as usize;
    let m = zn(s, 5).max(0) as usize;
    for row in LIVE.iter().chain(LIVE_VAL.iter()) {
        for c in row.iter() {
            c.store(0, Ordering::SeqCst);
        }
    }
    let ttl_dur = if ttl < 0 {
        None
    } else if ttl_fine && ns {
        Some(Duration::from_nanos(ttl.min(u64::MAX as i128) as u64))
    } else if ttl_fine {
        Some(Duration::from_micros(ttl.min(u64::MAX as i128) as u64))
    } else {
        Some(Duration::from_millis(ttl.min((u64::MAX / 1000) as i128) as u64))
    };
    let rt = paused_rt();
    let tr = rt.block_on(async move {
        let gated = GatedInner::new();
        let sh = gated.0.clone();
        // request = caller id; the key extractor looks the (store tag, key) up
        let table: Table = Arc::new(Mutex::new(vec![(0, 0); n]));
        let inner = ValInner { inner: gated, table: table.clone() };
        let hits = Arc::new(AtomicUsize::new(0));
        let misses = Arc::new(AtomicUsize::new(0));
        let evictions = Arc::new(AtomicUsize::new(0));
        let (t2, h2, m2, e2) = (table.clone(), hits.clone(), misses.clone(), evictions.clone());
        let extract = move |req: &i128| {
            let (tag, k) = t2.lock().unwrap()[*req as usize];
            Key::new(tag, k)
        };
        let mut base: Vec<Svc> = if shared == 1 {
            let mut b = SharedCacheLayer::<i128, Key, Val>::builder()
                .max_size(max_size)
                .eviction_policy(pol)
                .key_extractor(extract)
                .on_hit(move || { h2.fetch_add(1, Ordering::SeqCst); })
                .on_miss(move || { m2.fetch_add(1, Ordering::SeqCst); })
                .on_eviction(move || { e2.fetch_add(1, Ordering::SeqCst); });
            if let Some(d) = ttl_dur {
                b = b.ttl(d);
            }
            let l = b.build();
            vec![l.layer(inner.clone()), l.layer(inner.clone())]
        } else {
            let mut b = CacheLayer::<i128, Key>::builder()
                .max_size(max_size)
                .eviction_policy(pol)
                .key_extractor(extract)
                .on_hit(move || { h2.fetch_add(1, Ordering::SeqCst); })
                .on_miss(move || { m2.fetch_add(1, Ordering::SeqCst); })
                .on_eviction(move || { e2.fetch_add(1, Ordering::SeqCst); });
            if let Some(d) = ttl_dur {
                b = b.ttl(d);
            }
            let l = b.build();
            if shared != 0 {
                let l = l.shared::<Val>();
                vec![l.layer(inner.clone()), l.layer(inner.clone())]
            } else {
                vec![l.layer(inner.clone()), l.layer(inner.clone())]
            }
        };
        let mut callers: Vec<Option<Manual<Res>>> = (0..n).map(|_| None).collect();
        let mut miss: Vec<Option<(u8, u8)>> = vec![None; n];
        let mut hit: Vec<Option<(u8, u8)>> = vec![None; n];
        // scripted outcome is Ok / the inner future of this caller ran to completion: its response exists
        let mut ok_outcome: Vec<bool> = vec![false; n];
        let mut inner_done: Vec<bool> = vec![false; n];
        let mut tr = Vec::new();
        let evs: Vec<(i128, i128, i128)> = s[6.min(s.len())..]
            .chunks(3)
            .take(m)
            .map(|c| (zn(c, 0), zn(c, 1), zn(c, 2)))
            .collect();
        let (mut h0, mut m0, mut e0) = (0usize, 0usize, 0usize);
        for (op, a, b) in evs {
            let mut r: i128 = -1;
            let mut val: i128 = 0;
            sh.take_starts();
            let valid = a >= 0 && (a as usize) < n;
            let i = if valid { a as usize } else { 0 };
            // (service, key, reuse the long-lived service value)
            let call: Option<(usize, u8, bool)> = match op {
                0 if (0..16).contains(&b) => Some(((b / 8) as usize, (b % 8) as u8, false)),
                5 if (0..512).contains(&b) && b % 128 < 120 => {
                    Some((((b / 128) % 2) as usize, (b % 128) as u8, b / 256 == 1))
                }
                7 if (0..1024).contains(&b) && b % 256 < 240 => {
                    Some((((b / 256) % 2) as usize, (b % 256) as u8, b / 512 == 1))
                }
                _ => None,
            };
            match op {
                3 => advance_ms(a.clamp(0, 100_000) as u64).await,
                6 => {
                    let fine = a.clamp(0, 1_000_000_000_000) as u64;
                    let d = if ns { Duration::from_nanos(fine) } else { Duration::from_micros(fine) };
                    VIRT_NS.fetch_add(d.as_nanos() as u64, Ordering::SeqCst);
                    tokio::time::advance(d).await;
                }
                0 | 5 | 7 if valid && call.is_some() && callers[i].is_none() => {
                    let (svc_id, k, reuse) = call.unwrap();
                    let tag = if shared != 0 { 0u8 } else { svc_id as u8 };
                    table.lock().unwrap()[i] = (tag, k);
                    let fut = if reuse {
                        let svc = &mut base[svc_id];
                        futures::future::poll_fn(|cx| svc.poll_ready(cx)).await.ok();
                        svc.call(i as i128)
                    } else {
                        // a fresh clone (Cache::clone shares the store)
                        let mut svc = base[svc_id].clone();
                        futures::future::poll_fn(|cx| svc.poll_ready(cx)).await.ok();
                        svc.call(i as i128)
                    };
                    if !sh.starts.lock().unwrap().is_empty() {
                        miss[i] = Some((tag, k));
                    } else {
                        hit[i] = Some((tag, k));
                    }
                    callers[i] = Some(Manual::new(fut));
                }
                1 if valid => match callers[i].as_mut() {
                    Some(mm) if mm.alive() => {
                        let fin = mm.poll();
                        r = if !fin {
                            0
                        } else if mm.panicked {
                            5
                        } else {
                            match mm.done.take().unwrap() {
                                Ok(v) => {
                                    val = v.v;
                                    1
                                }
                                Err(CacheError::Inner(_)) => 2,
                            }
                        };
                    }
                    _ => r = 9,
                },
                2 if valid => {
                    if let Some(mm) = callers[i].as_mut() {
                        mm.drop_fut();
                    }
                }
                4 if valid => {
                    let o = if b > 0 { Outcome::Ok(b) } else if b == 0 { Outcome::Err(a) } else { Outcome::Panic };
                    if sh.complete(a, 0, o) {
                        ok_outcome[i] = b > 0;
                    }
                }
                _ => {}
            }
            settle().await;
            let started = sh.take_starts().len() as i128;
            let (h1, m1, e1) = (hits.load(Ordering::SeqCst), misses.load(Ordering::SeqCst), evictions.load(Ordering::SeqCst));
            let evt = (h1 - h0) as i128 + 2 * (m1 - m0) as i128 + 4 * (e1 - e0) as i128;
            h0 = h1;
            m0 = m1;
            e0 = e1;
            for req in std::mem::take(&mut *sh.finished.lock().unwrap()) {
                if req >= 0 && (req as usize) < n {
                    inner_done[req as usize] = true;
                }
            }
            // holders outside the stores: one key per pending miss, one response per unpolled hit and per miss
            // whose inner call has completed Ok but whose future has not returned yet (never the case for the
            // code as it is: the poll that completes the inner call returns)
            let mut pend_k = [[0i64; NK]; 2];
            let mut pend_v = [[0i64; NK]; 2];
            for j in 0..n {
                if callers[j].as_ref().map_or(false, |c| c.alive()) {
                    if let Some((t, k)) = miss[j] {
                        pend_k[t as usize][k as usize] += 1;
                        if inner_done[j] && ok_outcome[j] {
                            pend_v[t as usize][k as usize] += 1;
                        }
                    }
                    if let Some((t, k)) = hit[j] {
                        pend_v[t as usize][k as usize] += 1;
                    }
                }
            }
            // [store][word]: word 0 = keys 0..119, word 1 = keys 120..239
            let mut pres = [[0i128; 2]; 2];
            let mut pres_v = [[0i128; 2]; 2];
            for tag in 0..2usize {
                for k in 0..240usize {
                    let (w, bit) = (k / 120, k % 120);
                    let live = LIVE[tag][k].load(Ordering::SeqCst) - pend_k[tag][k];
                    if live > 0 && pres[tag][w] >= 0 {
                        pres[tag][w] += 1 << bit;
                    }
                    if live < 0 {
                        pres[tag][w] = -1_000_000; // accounting broken: make it visible
                    }
                    let live_v = LIVE_VAL[tag][k].load(Ordering::SeqCst) - pend_v[tag][k];
                    if live_v > 0 && pres_v[tag][w] >= 0 {
                        pres_v[tag][w] += 1 << bit;
                    }
                    if live_v < 0 {
                        pres_v[tag][w] = -1_000_000;
                    }
                }
            }
            tr.extend([r, val, started, sh.inflight() as i128, evt]);
            tr.extend([pres[0][0], pres[0][1], pres[1][0], pres[1][1]]);
            tr.extend([pres_v[0][0], pres_v[0][1], pres_v[1][0], pres_v[1][1]]);
        }
        drop(callers);
        drop(base);
        tr
    });
    drop(rt);
    tr
}

fn main() {
    main_loop(run);
}
