//! C20 driver: the thirteen real layers, alone and stacked, against
//!   mode 1: a strict, contract-checking wrapped service (readiness protocol), one long-lived handle,
//!           one request after the other,
//!   mode 3: the same service under a client PROGRAM: several handles (clones of the top of the stack),
//!           overlapping requests (calls of the wrapped service held until released by the script),
//!           futures left un-polled, layers AT their gate (bulkhead full, adaptive limiter at its limit),
//!   mode 0: a scripted wrapped service, directly or behind tower's Buffer / ConcurrencyLimit
//!           (transparency of non-triggering configurations),
//!   mode 2: one layer in a TRIGGERING configuration with well-behaved and with panicking listeners
//!           (listeners only observe), compared with a reference run of the same binary,
//!   mode 4: stacks in non-triggering configurations with listeners on every layer that has a listener
//!           API: outcome and ABSOLUTE per-layer / per-listener / per-event-kind counts.
//!
//! Real layer ids: 0 bulkhead, 1 ratelimiter, 2 circuitbreaker, 3 retry, 4 timelimiter (cancel mode),
//! 5 cache, 6 fallback, 7 hedge, 8 reconnect, 9 adaptive, 10 coalesce, 11 executor, 12 chaos,
//! 13 circuitbreaker.with_fallback, 14 timelimiter (non-cancelling mode), 15 retry with zero backoff,
//! 16 circuitbreaker that HAS BEEN OPEN: tripped with force_open() at construction, wait_duration_in_open
//!    5 ms, the harness advances virtual time by 6 ms before the client's first poll_ready, so the first
//!    call that reaches the breaker is the half-open trial call (Open -> HalfOpen happens lazily inside
//!    call()); with permitted_calls_in_half_open = 1 a successful trial closes the breaker,
//! 17 the same for circuitbreaker.with_fallback,
//! 18 circuitbreaker that is Open whenever the client polls it ready and is closed with force_closed()
//!    between the client's poll_ready and call (re-opened with force_open() after every request),
//! 19 the same for circuitbreaker.with_fallback, closed with reset(),
//! 20 hedge in LATENCY mode (delay 1 ms; in modes 1 / 3 every call of the strict service then takes 10 ms, so
//!    that all k hedges fire, one per millisecond, through the timer branch of execute_with_hedging),
//! 21 bulkhead AT ITS GATE: max_concurrent_calls 1, max_wait_duration 1 s (a second request queues for the
//!    permit while the first is held),
//! 22 rate limiter AT ITS GATE: 1 permit per 10 ms window, timeout 30 ms (the second request of a window
//!    waits for the next window inside its future),
//! 23 adaptive limiter AT ITS GATE: AIMD with initial = min = max limit 1 (poll_ready answers Pending
//!    without polling the inner service while a call is in flight),
//! 24 retry with the crate's DEFAULT policy (no retry_on: every error is retried), 25 reconnect with the
//!    crate's DEFAULT predicate (every error triggers a reconnection) -- ids 3 / 15 / 8 refuse everything
//!    but the strict service's TRANSIENT errors --,
//! 26 hedge in latency mode with a delay (10 ms) LONGER than a call of the strict service (2 ms): the next
//!    hedge is started only after every earlier attempt has failed.
//!
//! K field of modes 1 and 3: K = k + 16 * E + 2^20 * F; k (<= 6): further attempts of every retrying /
//!   hedging layer; E: bit j-1 = every call for request j fails with an APPLICATION error (val -100 - j);
//!   F = 0: default failure schedule (with a hedge layer nothing fails, otherwise the first (k+1)^m - 1 calls
//!   of every request fail with a TRANSIENT error, m = number of retry / reconnect layers), F > 0: the first
//!   F - 1 calls of every request fail.
//!
//! mode 1: [1; n; layer ids (outermost first); k; nreq; shared oracle entries (0 Ready 1 Pending 2 Err)...]
//!   -> per request a code (0 answered Ok(10 * request), 1 readiness error at poll_ready in pass-through
//!      wrapping of all n layers, 2 the same inside the call, 3 never ready, 6 an error made up by a layer,
//!      10 the strict service's application error in pass-through wrapping, 11 its transient error; never
//!      produced by the model: 4 poll_ready failed with anything else, 5 an error of the wrapped service
//!      in a wrong wrapping, 7 panic, 9 hang), then the strict service's log with instances renamed by first
//!      use ([1; inst; r; 0] poll / [2; inst; was-ready + 2 * result (0 Ok 1 transient 2 application);
//!      request] call), [violations]
//! mode 3: [3; n; layer ids; k; nops; (opcode; a; b) * nops; per-instance oracle: entries of the instance
//!      used first, -1, entries of the instance used second, -1, ...]
//!      opcodes: 0 poll handle a until Ready (8 Pending answers at most) / 1 call on handle a, b = 1: the
//!      wrapped service's calls for this request are HELD until released / 2 clone handle a /
//!      3 release request a / 4 one poll_ready on handle a whose layer's gate is closed /
//!      5 call on handle a, the future is left un-polled / 6 drive the future of request a
//!   -> one code per operation (poll: 0 1 3 4 7 as above; call, clone: 0 done, 8 refused (handle unknown or
//!      not polled ready); gate: 3 Pending, 0 Ready, 1 error; others 0), one outcome code per issued
//!      request (as in mode 1; every held call is released at the end of the script), log, [violations]
//! mode 0: [0; n; layer ids; inner kind (0 direct, 1 Buffer(4), 2 ConcurrencyLimit(2), 3 ConcurrencyLimit(1)); nreq;
//!      (req; okind; oval)*]
//!   -> per request [inner calls; request seen; 0 Ok / 1 inner error wrapped in pass-through variants
//!      only / 2 anything else; payload]
//! mode 2: [2; layer id; nlisteners; panic mask; nreq; okind*]
//!   -> per request [outcome equals the reference run; every listener counted, per event kind, like the
//!      reference's]
//! mode 4: [4; n; layer ids; nlisteners; panic mask; nreq; (req; okind; oval)*]
//!   -> per request the four integers of mode 0, then for every layer position (outermost first), every
//!      listener and every event kind 0..5 the number of invocations, then the same counts of the
//!      REFERENCE run (same script, well-behaved listeners)
//! panic mask (modes 2 and 4): bit i = listener i panics with a String payload; bit i + 4 = listener i
//!   panics with a payload whose Drop panics (std::panic::panic_any(Bomb)); bit i + 8 = with a payload whose
//!   Drop panics with such a payload again, three levels deep (panic_any(Nested(3)))
//!
//! Every layer sits directly under a `tower::util::MapErr` that folds the layer's error type back
//! into the common error `E` (pass-through variant: depth + 1; anything the layer made up itself:
//! kind LAYER) and a `tower::util::BoxCloneService` (uniform type for run-time stacks). Both
//! forward poll_ready/call to the very instance they hold.
use futures::future::BoxFuture;
use futures::FutureExt;
use std::collections::{HashMap, HashSet, VecDeque};
use std::fmt;
use std::panic::{catch_unwind, AssertUnwindSafe};
use std::sync::atomic::{AtomicBool, AtomicU64, Ordering};
use std::sync::{Arc, Mutex};
use std::task::{Context, Poll, Waker};
use std::time::Duration;
use tower::util::{BoxCloneService, MapErr};
use tower::{Layer, Service};
use tower_resilience_adaptive::{AdaptiveError, AdaptiveLimiterLayer, Aimd};
use tower_resilience_bulkhead::{BulkheadLayer, BulkheadServiceError};
use tower_resilience_cache::{CacheError, CacheLayer};
use tower_resilience_chaos::ChaosLayer;
use tower_resilience_circuitbreaker::{CircuitBreakerError, CircuitBreakerLayer};
use tower_resilience_coalesce::{CoalesceError, CoalesceLayer};
use tower_resilience_core::FnListener;
use tower_resilience_executor::{ExecutorError, ExecutorLayer};
use tower_resilience_fallback::{FallbackError, FallbackEvent, FallbackLayer};
use tower_resilience_hedge::{HedgeError, HedgeEvent, HedgeLayer};
use tower_resilience_ratelimiter::{RateLimiterLayer, RateLimiterServiceError};
use tower_resilience_reconnect::{ReconnectConfig, ReconnectLayer, ReconnectPolicy, ReconnectService};
use tower_resilience_retry::RetryLayer;
use tower_resilience_timelimiter::{TimeLimiterError, TimeLimiterLayer};
use verif_harness::*;

// ---------------------------------------------------------------------------
// the common error
const APP: u8 = 0; // the wrapped service's own (application) error, payload = val
const TRANSIENT: u8 = 1; // retryable / "connection" error of the wrapped service
const READY: u8 = 2; // error returned by the wrapped service's poll_ready
const LAYER: u8 = 3; // an error a layer produced itself (val = 100 * layer id + variant)

#[derive(Clone, Debug, PartialEq)]
struct E {
    kind: u8,
    val: i128,
    /// number of pass-through wrappers this error went through
    depth: u32,
}

impl fmt::Display for E {
    fn fmt(&self, f: &mut fmt::Formatter<'_>) -> fmt::Result {
        write!(f, "E kind={} val={} depth={}", self.kind, self.val, self.depth)
    }
}
impl std::error::Error for E {}

fn pass(e: E) -> E {
    E { depth: e.depth + 1, ..e }
}
fn made(layer: i128, variant: i128) -> E {
    E { kind: LAYER, val: 100 * layer + variant, depth: 0 }
}

type Bx = BoxCloneService<i128, i128, E>;

fn bx<S>(s: S) -> Bx
where
    S: Service<i128, Response = i128, Error = E> + Clone + Send + 'static,
    S::Future: Send + 'static,
{
    BoxCloneService::new(s)
}

// ---------------------------------------------------------------------------
// listeners (modes 2 and 4)
/// event kinds per layer (the order of the registration methods / enum variants in `wrap`)
const NK: usize = 6;

#[derive(Clone)]
struct Lst {
    /// counts[listener][event kind]
    counts: Arc<Vec<Vec<AtomicU64>>>,
    mask: i128,
}

impl Lst {
    fn new(n: usize, mask: i128) -> Self {
        Lst { counts: Arc::new((0..n).map(|_| (0..NK).map(|_| AtomicU64::new(0)).collect()).collect()), mask }
    }
    fn n(&self) -> usize {
        self.counts.len()
    }
    /// how listener i misbehaves: 0 not at all, 1 panics with a String payload (bit i of the mask),
    /// 2 panics with a payload whose Drop panics (bit i + 4 of the mask: std::panic::panic_any(Bomb)),
    /// 3 panics with a payload whose Drop panics with a payload whose Drop panics ..., 3 levels deep
    /// (bit i + 8: panic_any(Nested(3)))
    fn style(&self, i: usize) -> u8 {
        if (self.mask >> (i + 8)) & 1 == 1 {
            3
        } else if (self.mask >> (i + 4)) & 1 == 1 {
            2
        } else if (self.mask >> i) & 1 == 1 {
            1
        } else {
            0
        }
    }
    /// listener i, registered for event kind `kind`: counts the event, then misbehaves in its style
    fn h(&self, i: usize, kind: usize) -> impl Fn() + Send + Sync + Clone + 'static {
        let c = self.counts.clone();
        let p = self.style(i);
        move || {
            c[i][kind].fetch_add(1, Ordering::SeqCst);
            misbehave(p, i);
        }
    }
    /// listener i for layers with ONE registration method and an event enum: `kind_of` picks the kind
    fn hk(&self, i: usize) -> impl Fn(usize) + Send + Sync + Clone + 'static {
        let c = self.counts.clone();
        let p = self.style(i);
        move |kind: usize| {
            c[i][kind.min(NK - 1)].fetch_add(1, Ordering::SeqCst);
            misbehave(p, i);
        }
    }
    fn snapshot(&self) -> Vec<u64> {
        self.counts.iter().flat_map(|r| r.iter().map(|c| c.load(Ordering::SeqCst))).collect()
    }
}

/// a panic payload whose destructor panics in turn (unless the thread is already unwinding)
struct Bomb;
impl Drop for Bomb {
    fn drop(&mut self) {
        if !std::thread::panicking() {
            panic!("panic payload dropped");
        }
    }
}

/// a panic payload whose destructor panics with a payload of the same kind, n levels deep
struct Nested(u32);
impl Drop for Nested {
    fn drop(&mut self) {
        if self.0 > 0 && !std::thread::panicking() {
            std::panic::panic_any(Nested(self.0 - 1));
        }
    }
}

fn misbehave(style: u8, i: usize) {
    match style {
        1 => panic!("listener {} panics", i),
        2 => std::panic::panic_any(Bomb),
        3 => std::panic::panic_any(Nested(3)),
        _ => {}
    }
}

/// the panic mask of a script: bits 0..nl (String payload), 4..4+nl (Bomb payload), 8..8+nl (nested)
fn clamp_mask(mask: i128, nl: usize) -> i128 {
    let low = (1i128 << nl) - 1;
    mask & (low | (low << 4) | (low << 8))
}

type Hook = Box<dyn Fn() + Send>;

/// things the harness does to a layer from outside, around the client's steps
#[derive(Clone, Default)]
struct Hooks {
    /// between the client's successful poll_ready and its call
    pre_call: Arc<Mutex<Vec<Hook>>>,
    /// after the request has completed
    post: Arc<Mutex<Vec<Hook>>>,
}

impl Hooks {
    fn run(v: &Arc<Mutex<Vec<Hook>>>) {
        for h in v.lock().unwrap().iter() {
            h();
        }
    }
}

struct Cfg {
    mode: i128,
    k: usize,
    keys: Arc<AtomicU64>,
    hooks: Hooks,
}

impl Cfg {
    fn new(mode: i128, k: usize) -> Self {
        Cfg { mode, k, keys: Arc::new(AtomicU64::new(0)), hooks: Hooks::default() }
    }
}

fn has_listeners(id: i128) -> bool {
    matches!(id, 0 | 1 | 2 | 3 | 4 | 5 | 6 | 7 | 8 | 12 | 13 | 14 | 15 | 20 | 21 | 22 | 24 | 25 | 26)
}

/// breaker variants that start Open and whose open period has to elapse before the first request
fn pre_tripped(id: i128) -> bool {
    id == 16 || id == 17
}

type RErr = <ReconnectService<Bx> as Service<i128>>::Error;

/// wrap `inner` in real layer `id`; `lst`: the listeners to register on this layer (modes 2 and 4)
fn wrap(id: i128, inner: Bx, c: &Cfg, lst: Option<&Lst>) -> Bx {
    let m2 = c.mode == 2;
    let nl = lst.map(|l| l.n()).unwrap_or(0);
    let lst = lst.cloned();
    let lst2 = lst.clone();
    let h = move |i: usize, kind: usize| lst.as_ref().unwrap().h(i, kind);
    let hk = move |i: usize| lst2.as_ref().unwrap().hk(i);
    match id {
        0 | 21 => {
            let mut b = BulkheadLayer::builder().name("c20");
            b = if id == 21 {
                b.max_concurrent_calls(1).max_wait_duration(Duration::from_secs(1))
            } else {
                b.max_concurrent_calls(4)
            };
            for i in 0..nl {
                let (h1, h2, h3, h4) = (h(i, 0), h(i, 1), h(i, 2), h(i, 3));
                b = b
                    .on_call_permitted(move |_| h1())
                    .on_call_rejected(move |_| h2())
                    .on_call_finished(move |_| h3())
                    .on_call_failed(move |_| h4());
            }
            bx(MapErr::new(b.build().layer(inner), |e: BulkheadServiceError<E>| match e {
                BulkheadServiceError::Inner(x) => pass(x),
                BulkheadServiceError::Bulkhead(_) => made(0, 1),
            }))
        }
        1 | 22 => {
            let mut b = RateLimiterLayer::builder();
            b = if id == 22 {
                b.limit_for_period(1).refresh_period(Duration::from_millis(10)).timeout_duration(Duration::from_millis(30))
            } else {
                b.limit_for_period(if m2 { 2 } else { 1000 })
                    .refresh_period(Duration::from_secs(1))
                    .timeout_duration(Duration::from_millis(0))
            };
            for i in 0..nl {
                let (h1, h2, h3) = (h(i, 0), h(i, 1), h(i, 2));
                b = b
                    .on_permit_acquired(move |_| h1())
                    .on_permit_rejected(move |_| h2())
                    .on_permits_refreshed(move |_| h3());
            }
            bx(MapErr::new(b.build().layer(inner), |e: RateLimiterServiceError<E>| match e {
                RateLimiterServiceError::Inner(x) => pass(x),
                RateLimiterServiceError::RateLimited => made(1, 1),
            }))
        }
        2 | 13 | 16 | 17 | 18 | 19 => {
            let mut b = CircuitBreakerLayer::builder()
                .failure_rate_threshold(0.5)
                .sliding_window_size(if m2 { 4 } else { 100 })
                .minimum_number_of_calls(if m2 { 2 } else { 1000 })
                .wait_duration_in_open(Duration::from_millis(5))
                .permitted_calls_in_half_open(1);
            for i in 0..nl {
                let (h1, h2, h3, h4, h5, h6) = (h(i, 0), h(i, 1), h(i, 2), h(i, 3), h(i, 4), h(i, 5));
                b = b
                    .on_state_transition(move |_, _| h1())
                    .on_call_permitted(move |_| h2())
                    .on_call_rejected(move || h3())
                    .on_success(move |_| h4())
                    .on_failure(move |_| h5())
                    .on_slow_call(move |_| h6());
            }
            let conv = |e: CircuitBreakerError<E>| match e {
                CircuitBreakerError::Inner(x) => pass(x),
                CircuitBreakerError::OpenCircuit => made(2, 1),
            };
            let cb = b.build().layer(inner);
            // the control methods only take the (uncontended) circuit lock: they complete at once
            if id >= 16 {
                cb.force_open().now_or_never().expect("force_open");
            }
            if id == 13 || id == 17 || id == 19 {
                let svc = cb.with_fallback(|req: i128| -> BoxFuture<'static, Result<i128, E>> {
                    Box::pin(async move { Ok(-4242 - req) })
                });
                if id == 19 {
                    // a handle on the same circuit (the clone's inner instance is never used)
                    let (h1, h2) = (svc.clone(), svc.clone());
                    c.hooks.pre_call.lock().unwrap().push(Box::new(move || {
                        h1.reset().now_or_never().expect("reset");
                    }));
                    c.hooks.post.lock().unwrap().push(Box::new(move || {
                        h2.force_open().now_or_never().expect("force_open");
                    }));
                }
                bx(MapErr::new(svc, conv))
            } else {
                if id == 18 {
                    let (h1, h2) = (cb.clone(), cb.clone());
                    c.hooks.pre_call.lock().unwrap().push(Box::new(move || {
                        h1.force_closed().now_or_never().expect("force_closed");
                    }));
                    c.hooks.post.lock().unwrap().push(Box::new(move || {
                        h2.force_open().now_or_never().expect("force_open");
                    }));
                }
                bx(MapErr::new(cb, conv))
            }
        }
        3 | 15 | 24 => {
            let mut b = RetryLayer::<i128, E>::builder()
                .max_attempts(if c.mode == 1 || c.mode == 3 { c.k + 1 } else { 3 })
                // variant 15: retries without any backoff (Duration::ZERO)
                .fixed_backoff(if id == 15 { Duration::ZERO } else { Duration::from_millis(1) });
            // variant 24: the crate's DEFAULT policy (every error is retried), no retry_on
            if id != 24 {
                b = b.retry_on(|e: &E| e.kind == TRANSIENT);
            }
            for i in 0..nl {
                let (h1, h2, h3, h4, h5) = (h(i, 0), h(i, 1), h(i, 2), h(i, 3), h(i, 4));
                b = b
                    .on_retry(move |_, _| h1())
                    .on_success(move |_| h2())
                    .on_error(move |_| h3())
                    .on_ignored_error(move || h4())
                    .on_budget_exhausted(move |_| h5());
            }
            // retry's error type is the inner error type itself
            bx(MapErr::new(b.build().layer(inner), pass))
        }
        4 | 14 => {
            let mut b = TimeLimiterLayer::builder()
                .timeout_duration(if m2 { Duration::from_millis(20) } else { Duration::from_secs(10) })
                .cancel_running_future(id == 4);
            for i in 0..nl {
                let (h1, h2, h3) = (h(i, 0), h(i, 1), h(i, 2));
                b = b.on_success(move |_| h1()).on_error(move |_| h2()).on_timeout(move || h3());
            }
            bx(MapErr::new(b.build().layer(inner), |e: TimeLimiterError<E>| match e {
                TimeLimiterError::Inner(x) => pass(x),
                TimeLimiterError::Timeout => made(4, 1),
            }))
        }
        5 => {
            let keys = c.keys.clone();
            let mut b = CacheLayer::<i128, u64>::builder().max_size(if m2 { 2 } else { 64 }).key_extractor(
                move |r: &i128| {
                    if m2 {
                        r.rem_euclid(3) as u64
                    } else {
                        // every request is a key of its own
                        keys.fetch_add(1, Ordering::SeqCst)
                    }
                },
            );
            for i in 0..nl {
                let (h1, h2, h3) = (h(i, 0), h(i, 1), h(i, 2));
                b = b.on_hit(move || h1()).on_miss(move || h2()).on_eviction(move || h3());
            }
            bx(MapErr::new(b.build().layer(inner), |e: CacheError<E>| match e {
                CacheError::Inner(x) => pass(x),
            }))
        }
        6 => {
            let mut b = FallbackLayer::<i128, i128, E>::builder().value(-777);
            if !m2 {
                b = b.handle(|_e: &E| false);
            }
            for i in 0..nl {
                let h1 = hk(i);
                b = b.on_event(move |ev: &FallbackEvent| {
                    h1(match ev {
                        FallbackEvent::Success { .. } => 0,
                        FallbackEvent::FailedAttempt { .. } => 1,
                        FallbackEvent::Applied { .. } => 2,
                        FallbackEvent::Failed { .. } => 3,
                        FallbackEvent::Skipped { .. } => 4,
                    })
                });
            }
            bx(MapErr::new(b.build().layer(inner), |e: FallbackError<E>| match e {
                FallbackError::Inner(x) => pass(x),
                FallbackError::FallbackFailed(_) => made(6, 1),
            }))
        }
        7 | 20 | 26 => {
            let mut b = HedgeLayer::builder().name("c20");
            b = match (c.mode, id) {
                (1 | 3, 7) => b.no_delay().max_hedged_attempts(c.k + 1),
                // latency mode: one hedge per millisecond while the primary is still running
                (1 | 3, 20) => b.delay(Duration::from_millis(1)).max_hedged_attempts(c.k + 1),
                // latency mode, the delay (10 ms) longer than a call of the strict service (2 ms): the
                // next hedge is started only after every earlier attempt has failed
                (1 | 3, _) => b.delay(Duration::from_millis(10)).max_hedged_attempts(c.k + 1),
                (2, _) => b.delay(Duration::from_millis(10)).max_hedged_attempts(2),
                _ => b.delay(Duration::from_secs(10)).max_hedged_attempts(2),
            };
            for i in 0..nl {
                let h1 = hk(i);
                b = b.on_event(FnListener::new(move |ev: &HedgeEvent| {
                    h1(match ev {
                        HedgeEvent::PrimaryStarted { .. } => 0,
                        HedgeEvent::HedgeStarted { .. } => 1,
                        HedgeEvent::PrimarySucceeded { .. } => 2,
                        HedgeEvent::HedgeSucceeded { .. } => 3,
                        HedgeEvent::AllFailed { .. } => 4,
                    })
                }));
            }
            bx(MapErr::new(b.build().layer(inner), |e: HedgeError<E>| match e {
                HedgeError::Inner(x) => pass(x),
                HedgeError::AllAttemptsFailed(_) => made(7, 1),
            }))
        }
        8 | 25 => {
            let mut b = ReconnectConfig::builder()
                .policy(ReconnectPolicy::fixed(Duration::from_millis(1)))
                .max_attempts(if c.mode == 1 || c.mode == 3 { c.k as u32 + 1 } else { 3 })
                .retry_on_reconnect(true);
            // variant 25: the crate's DEFAULT predicate (every error triggers a reconnection)
            if id != 25 {
                b = b.reconnect_predicate(|e: &dyn std::error::Error| e.to_string().starts_with("E kind=1 "));
            }
            // the crate's `tracing` feature: ONE callback per kind. Listener 0 is on_state_change
            // (event kind 0), listener 1 is on_reconnect (event kind 1); further listeners are not registered
            if nl >= 1 {
                let h0 = h(0, 0);
                b = b.on_state_change(move |_, _| h0());
            }
            if nl >= 2 {
                let h1 = h(1, 1);
                b = b.on_reconnect(move |_| h1());
            }
            let cfg = b.build();
            bx(MapErr::new(ReconnectLayer::new(cfg).layer(inner), |e: RErr| match e {
                RErr::ServiceError(x) => pass(x),
                RErr::ConnectionFailed(_) => made(8, 1),
                RErr::ConnectionFailedNoRetry(_) => made(8, 2),
                RErr::MaxAttemptsExceeded { .. } => made(8, 3),
            }))
        }
        9 | 23 => {
            let a = if id == 23 {
                Aimd::builder().initial_limit(1).min_limit(1).max_limit(1).build()
            } else {
                Aimd::builder().initial_limit(10).build()
            };
            bx(MapErr::new(AdaptiveLimiterLayer::new(a).layer(inner), |e: AdaptiveError<E>| match e {
                AdaptiveError::Service(x) => pass(x),
                AdaptiveError::LimitReached => made(9, 1),
            }))
        }
        10 => {
            let keys = c.keys.clone();
            let layer = CoalesceLayer::new(move |_r: &i128| keys.fetch_add(1, Ordering::SeqCst));
            bx(MapErr::new(layer.layer(inner), |e: CoalesceError<E>| match e {
                CoalesceError::Service(x) => pass(x),
                CoalesceError::LeaderCancelled => made(10, 1),
                CoalesceError::RecvError => made(10, 2),
            }))
        }
        11 => {
            let layer = ExecutorLayer::new(tokio::runtime::Handle::current());
            bx(MapErr::new(layer.layer(inner), |e: ExecutorError<E>| match e {
                ExecutorError::Service(x) => pass(x),
                ExecutorError::TaskCancelled => made(11, 1),
            }))
        }
        _ => {
            let mut b = ChaosLayer::builder().name("c20");
            for i in 0..nl {
                let (h1, h2, h3) = (h(i, 0), h(i, 1), h(i, 2));
                b = b
                    .on_error_injected(move || h1())
                    .on_latency_injected(move |_| h2())
                    .on_passed_through(move || h3());
            }
            // chaos's error type is the inner error type itself
            if m2 {
                let l = b.seed(42).error_fn(|_r: &i128| made(12, 1)).error_rate(0.5).build();
                bx(MapErr::new(l.layer(inner), pass))
            } else {
                bx(MapErr::new(b.build().layer(inner), pass))
            }
        }
    }
}

/// `lsts`: one listener set per layer position (outermost first), or none at all
fn stack(ids: &[i128], bottom: Bx, c: &Cfg, lsts: &[Lst]) -> Bx {
    let mut svc = bottom;
    for (p, id) in ids.iter().enumerate().rev() {
        let l = if has_listeners(*id) { lsts.get(p) } else { None };
        svc = wrap(*id, svc, c, l);
    }
    svc
}

// ---------------------------------------------------------------------------
// the strict, contract-checking wrapped service (modes 1 and 3)
struct StrictState {
    /// shared oracle: the answers to the coming polls, in order (mode 1)
    shared: VecDeque<i128>,
    /// per-instance oracle (mode 3): instance number c in order of first use answers its i-th poll
    /// with per_inst[c][i]
    per_inst: Option<Vec<Vec<i128>>>,
    /// instances in order of first use (poll or call): the log names instances by their position here
    seen: Vec<usize>,
    pcnt: HashMap<usize, usize>,
    /// [1, inst, r, 0] poll, [2, inst, was-ready, request] call
    log: Vec<[i128; 4]>,
    ready: Vec<bool>,
    violations: i128,
    /// attempts 1..=kfail of every request fail with a transient error
    kfail: usize,
    /// bit j-1 set: every call for request j fails with an application error
    emask: i128,
    attempts: HashMap<i128, usize>,
    /// every call takes this long (virtual ms)
    slow_ms: u64,
    /// requests whose calls do not complete before the script releases them
    held: HashSet<i128>,
    wakers: Vec<Waker>,
}

impl StrictState {
    fn new(kfail: usize, slow_ms: u64) -> Self {
        StrictState {
            shared: VecDeque::new(),
            per_inst: None,
            seen: Vec::new(),
            pcnt: HashMap::new(),
            log: Vec::new(),
            ready: vec![false],
            violations: 0,
            kfail,
            emask: 0,
            attempts: HashMap::new(),
            slow_ms,
            held: HashSet::new(),
            wakers: Vec::new(),
        }
    }
    fn cidx(&mut self, id: usize) -> usize {
        match self.seen.iter().position(|x| *x == id) {
            Some(i) => i,
            None => {
                self.seen.push(id);
                self.seen.len() - 1
            }
        }
    }
    fn release(&mut self, req: Option<i128>) {
        match req {
            Some(r) => {
                self.held.remove(&r);
            }
            None => self.held.clear(),
        }
        for w in self.wakers.drain(..) {
            w.wake();
        }
    }
}

struct Strict {
    sh: Arc<Mutex<StrictState>>,
    id: usize,
}

impl Clone for Strict {
    fn clone(&self) -> Self {
        let mut st = self.sh.lock().unwrap();
        let id = st.ready.len();
        st.ready.push(false); // a clone has not been polled ready
        Strict { sh: self.sh.clone(), id }
    }
}

impl Service<i128> for Strict {
    type Response = i128;
    type Error = E;
    type Future = BoxFuture<'static, Result<i128, E>>;
    fn poll_ready(&mut self, cx: &mut Context<'_>) -> Poll<Result<(), E>> {
        let mut st = self.sh.lock().unwrap();
        let id = self.id;
        let c = st.cidx(id);
        let nth = {
            let e = st.pcnt.entry(id).or_insert(0);
            *e += 1;
            *e - 1
        };
        let shared = st.shared.pop_front().unwrap_or(0);
        let r = match &st.per_inst {
            Some(p) => p.get(c).and_then(|v| v.get(nth)).copied().unwrap_or(0),
            None => shared,
        };
        match r {
            0 => {
                st.ready[id] = true;
                st.log.push([1, c as i128, 0, 0]);
                Poll::Ready(Ok(()))
            }
            1 => {
                st.log.push([1, c as i128, 1, 0]);
                cx.waker().wake_by_ref();
                Poll::Pending
            }
            _ => {
                st.log.push([1, c as i128, 2, 0]);
                Poll::Ready(Err(E { kind: READY, val: -2, depth: 0 }))
            }
        }
    }
    fn call(&mut self, req: i128) -> Self::Future {
        let mut st = self.sh.lock().unwrap();
        let id = self.id;
        let c = st.cidx(id);
        let ok = st.ready[id];
        if !ok {
            st.violations += 1;
        }
        st.ready[id] = false;
        let a = {
            let e = st.attempts.entry(req).or_insert(0);
            *e += 1;
            *e
        };
        let app = (1..=100).contains(&req) && (st.emask >> (req - 1)) & 1 == 1;
        let res = if app {
            Err(E { kind: APP, val: -100 - req, depth: 0 })
        } else if a <= st.kfail {
            Err(E { kind: TRANSIENT, val: -1, depth: 0 })
        } else {
            Ok(req * 10)
        };
        let rc = match &res {
            Ok(_) => 0,
            Err(e) if e.kind == TRANSIENT => 1,
            Err(_) => 2,
        };
        st.log.push([2, c as i128, ok as i128 + 2 * rc, req]);
        let slow = st.slow_ms;
        let sh = self.sh.clone();
        Box::pin(async move {
            if slow > 0 {
                tokio::time::sleep(Duration::from_millis(slow)).await;
            }
            futures::future::poll_fn(|cx| {
                let mut st = sh.lock().unwrap();
                if st.held.contains(&req) {
                    st.wakers.push(cx.waker().clone());
                    Poll::Pending
                } else {
                    Poll::Ready(())
                }
            })
            .await;
            res
        })
    }
}

// ---------------------------------------------------------------------------
// the scripted wrapped service (modes 0 and 2)
#[derive(Default)]
struct ScriptState {
    okind: i128,
    oval: i128,
    calls: Vec<i128>,
}

#[derive(Clone)]
struct Scripted(Arc<Mutex<ScriptState>>);

impl Service<i128> for Scripted {
    type Response = i128;
    type Error = E;
    type Future = BoxFuture<'static, Result<i128, E>>;
    fn poll_ready(&mut self, _cx: &mut Context<'_>) -> Poll<Result<(), E>> {
        Poll::Ready(Ok(()))
    }
    fn call(&mut self, req: i128) -> Self::Future {
        let (ok, ov, a) = {
            let mut st = self.0.lock().unwrap();
            st.calls.push(req);
            (st.okind, st.oval, st.calls.len())
        };
        Box::pin(async move {
            match ok {
                0 => Ok(ov),
                1 => Err(E { kind: APP, val: ov, depth: 0 }),
                // transient failure of the first attempt only
                2 => {
                    if a == 1 {
                        Err(E { kind: TRANSIENT, val: -1, depth: 0 })
                    } else {
                        Ok(ov)
                    }
                }
                // slow success
                3 => {
                    tokio::time::sleep(Duration::from_millis(50)).await;
                    Ok(ov)
                }
                _ => Err(E { kind: TRANSIENT, val: -1, depth: 0 }),
            }
        })
    }
}

// ---------------------------------------------------------------------------
// the client
#[derive(Debug, Clone, PartialEq)]
enum Outcome {
    Ok(i128),
    Err(E),
    PollErr(E),
    NeverReady,
    Panic,
    Hang,
}

/// poll_ready on the one long-lived top-level instance until Ready (at most `fuel` Pending
/// answers), then call and drive the returned future to completion
async fn request(svc: &mut Bx, req: i128, fuel: usize, hooks: &Hooks) -> Outcome {
    let out = request_inner(svc, req, fuel, hooks).await;
    Hooks::run(&hooks.post);
    out
}

async fn request_inner(svc: &mut Bx, req: i128, fuel: usize, hooks: &Hooks) -> Outcome {
    let flag = Arc::new(Flag(AtomicBool::new(false)));
    let w = Waker::from(flag.clone());
    let mut ready = false;
    for _ in 0..fuel {
        flag.0.store(false, Ordering::SeqCst);
        let mut cx = Context::from_waker(&w);
        match catch_unwind(AssertUnwindSafe(|| svc.poll_ready(&mut cx))) {
            Err(_) => return Outcome::Panic,
            Ok(Poll::Ready(Ok(()))) => {
                ready = true;
                break;
            }
            Ok(Poll::Ready(Err(e))) => return Outcome::PollErr(e),
            Ok(Poll::Pending) => {
                settle().await;
                if !flag.0.load(Ordering::SeqCst) {
                    advance_ms(1).await;
                }
            }
        }
    }
    if !ready {
        return Outcome::NeverReady;
    }
    Hooks::run(&hooks.pre_call);
    let fut = match catch_unwind(AssertUnwindSafe(|| svc.call(req))) {
        Ok(f) => f,
        Err(_) => return Outcome::Panic,
    };
    let mut m = Manual::new(fut);
    let mut steps = 0u32;
    while !m.poll() {
        steps += 1;
        if steps > 25_000 {
            m.drop_fut();
            return Outcome::Hang;
        }
        settle().await;
        if !m.woken() {
            advance_ms(1).await;
        }
    }
    // let detached tasks (hedges, executor / non-cancelling time limiter tasks) finish
    settle().await;
    if m.panicked {
        return Outcome::Panic;
    }
    match m.done.take() {
        Some(Ok(v)) => Outcome::Ok(v),
        Some(Err(e)) => Outcome::Err(e),
        None => Outcome::Hang,
    }
}

// ---------------------------------------------------------------------------
fn ids_of(s: &[i128]) -> (usize, Vec<i128>) {
    let n = zn(s, 1).clamp(0, 8) as usize;
    (n, (0..n).map(|i| zn(s, 2 + i)).collect())
}

/// the K field of a protocol script: k + 16 * E + 2^20 * F
/// (k <= 6 further attempts; E: application-error mask over the requests; F: 0 = default failure
/// schedule, F > 0: the first F - 1 calls of every request fail with a transient error)
fn k_field(kf: i128) -> (usize, i128, i128) {
    let kf = kf.max(0);
    ((kf % 16).clamp(0, 6) as usize, (kf / 16) % 65536, kf / 1_048_576)
}

/// the strict service's failure schedule and speed for a stack.
/// Default schedule: with a hedge in the stack nothing fails. Otherwise every call of a request fails
/// except the last one the retrying layers can make: with m retry / reconnect layers of k further
/// attempts each, the first (k + 1)^m - 1 calls fail (m = 1: the first k).
fn strict_for(ids: &[i128], kf: i128) -> StrictState {
    let (k, emask, f) = k_field(kf);
    let m = ids.iter().filter(|i| matches!(**i, 3 | 8 | 15 | 24 | 25)).count() as u32;
    let hedge = ids.iter().any(|i| matches!(*i, 7 | 20 | 26));
    let kfail = if f > 0 {
        ((f - 1).min(4095)) as usize
    } else if hedge {
        0
    } else {
        (k + 1).saturating_pow(m).min(4096) - 1
    };
    // hedge in latency mode: calls slow enough for every hedge to fire (20) / faster than the delay (26)
    let slow_ms = if ids.contains(&20) {
        10
    } else if ids.contains(&26) {
        2
    } else {
        0
    };
    let mut st = StrictState::new(kfail, slow_ms);
    st.emask = emask;
    st
}

/// outcome code of a request whose request value was `req` through `n` layers
fn code_of(out: &Outcome, req: i128, n: usize) -> i128 {
    match out {
        Outcome::Ok(v) => {
            if *v == req * 10 {
                0
            } else {
                6
            }
        }
        Outcome::Err(e) => {
            if e.kind == LAYER {
                6
            } else if e.depth as usize != n {
                5
            } else if e.kind == READY {
                2
            } else if e.kind == APP {
                if e.val == -100 - req {
                    10
                } else {
                    6
                }
            } else {
                11
            }
        }
        Outcome::PollErr(e) => {
            if e.kind == READY && e.depth as usize == n {
                1
            } else {
                4
            }
        }
        Outcome::NeverReady => 3,
        Outcome::Panic => 7,
        Outcome::Hang => 9,
    }
}

fn finish_trace(tr: &mut Vec<i128>, sh: &Arc<Mutex<StrictState>>) {
    let st = sh.lock().unwrap();
    for e in st.log.iter() {
        tr.extend(e.iter().copied());
    }
    tr.push(st.violations);
}

fn run_protocol(s: &[i128]) -> Vec<i128> {
    let (n, ids) = ids_of(s);
    let kf = zn(s, 2 + n);
    let k = k_field(kf).0;
    let nreq = zn(s, 3 + n).clamp(0, 16);
    let oracle: VecDeque<i128> = s.iter().skip(4 + n).copied().collect();
    let rt = paused_rt();
    rt.block_on(async move {
        let mut st0 = strict_for(&ids, kf);
        st0.shared = oracle;
        let sh = Arc::new(Mutex::new(st0));
        let cfg = Cfg::new(1, k);
        let mut svc = stack(&ids, bx(Strict { sh: sh.clone(), id: 0 }), &cfg, &[]);
        if ids.iter().any(|i| pre_tripped(*i)) {
            advance_ms(6).await; // past wait_duration_in_open
        }
        let mut tr = Vec::new();
        for j in 1..=nreq {
            let out = request(&mut svc, j, 8, &cfg.hooks).await;
            tr.push(code_of(&out, j, n));
            settle().await;
        }
        finish_trace(&mut tr, &sh);
        tr
    })
}

// ---------------------------------------------------------------------------
// mode 3: client programs
type CallFut = Manual<Result<i128, E>>;

fn outcome_of(m: &mut CallFut) -> Outcome {
    if m.panicked {
        return Outcome::Panic;
    }
    match m.done.take() {
        Some(Ok(v)) => Outcome::Ok(v),
        Some(Err(e)) => Outcome::Err(e),
        None => Outcome::Hang,
    }
}

/// poll the future while it makes progress; when it is stuck let up to `budget_ms` of virtual time
/// pass. None: still in flight.
async fn drive(m: &mut CallFut, budget_ms: u32) -> Option<Outcome> {
    if !m.alive() {
        return None;
    }
    let mut left = budget_ms;
    let mut polls = 0u32;
    loop {
        if m.poll() {
            break;
        }
        polls += 1;
        if polls > 5000 {
            return None;
        }
        settle().await;
        if m.woken() {
            continue;
        }
        if left == 0 {
            return None;
        }
        left -= 1;
        advance_ms(1).await;
    }
    // let detached tasks (hedges, executor / non-cancelling time limiter tasks) finish
    settle().await;
    Some(outcome_of(m))
}

/// virtual time a call may take inside one operation: retry / reconnect backoff (1 ms each), the
/// rate limiter's next window (10 ms), the slow strict service under a latency-mode hedge (10 ms);
/// far below the time limiter's 10 s and the gated bulkhead's max_wait_duration of 1 s
const OP_BUDGET_MS: u32 = 12;

fn run_program(s: &[i128]) -> Vec<i128> {
    let (n, ids) = ids_of(s);
    let kf = zn(s, 2 + n);
    let k = k_field(kf).0;
    let nops = zn(s, 3 + n).clamp(0, 64) as usize;
    let ops: Vec<(i128, i128, i128)> =
        (0..nops).map(|i| (zn(s, 4 + n + 3 * i), zn(s, 5 + n + 3 * i), zn(s, 6 + n + 3 * i))).collect();
    let mut per_inst: Vec<Vec<i128>> = Vec::new();
    let mut cur: Vec<i128> = Vec::new();
    for x in s.iter().skip(4 + n + 3 * nops) {
        if *x == -1 {
            per_inst.push(std::mem::take(&mut cur));
        } else {
            cur.push(*x);
        }
    }
    if !cur.is_empty() {
        per_inst.push(cur);
    }
    let rt = paused_rt();
    rt.block_on(async move {
        let mut st0 = strict_for(&ids, kf);
        st0.per_inst = Some(per_inst);
        let sh = Arc::new(Mutex::new(st0));
        let cfg = Cfg::new(3, k);
        let top = stack(&ids, bx(Strict { sh: sh.clone(), id: 0 }), &cfg, &[]);
        if ids.iter().any(|i| pre_tripped(*i)) {
            advance_ms(6).await;
        }
        let mut handles: Vec<Bx> = vec![top];
        let mut hready: Vec<bool> = vec![false];
        // per issued request: its future while in flight, its outcome once known
        let mut futs: Vec<CallFut> = Vec::new();
        let mut outs: Vec<Option<Outcome>> = Vec::new();
        let mut tr = Vec::new();
        for (op, a, b) in ops {
            let h = a as usize;
            let known = a >= 0 && h < handles.len();
            let code = match op {
                0 if known => {
                    let flag = Arc::new(Flag(AtomicBool::new(false)));
                    let w = Waker::from(flag.clone());
                    let mut code = 3;
                    for _ in 0..8 {
                        flag.0.store(false, Ordering::SeqCst);
                        let mut cx = Context::from_waker(&w);
                        match catch_unwind(AssertUnwindSafe(|| handles[h].poll_ready(&mut cx))) {
                            Err(_) => {
                                code = 7;
                                break;
                            }
                            Ok(Poll::Ready(Ok(()))) => {
                                code = 0;
                                break;
                            }
                            Ok(Poll::Ready(Err(e))) => {
                                code = code_of(&Outcome::PollErr(e), 0, n);
                                break;
                            }
                            Ok(Poll::Pending) => {
                                settle().await;
                                if !flag.0.load(Ordering::SeqCst) {
                                    advance_ms(1).await;
                                }
                            }
                        }
                    }
                    hready[h] = code == 0;
                    code
                }
                1 | 5 if known && hready[h] => {
                    let req = futs.len() as i128 + 1;
                    hready[h] = false;
                    if op == 1 && b == 1 {
                        sh.lock().unwrap().held.insert(req);
                    }
                    match catch_unwind(AssertUnwindSafe(|| handles[h].call(req))) {
                        Ok(f) => {
                            let mut m = Manual::new(f);
                            let o = if op == 1 { drive(&mut m, OP_BUDGET_MS).await } else { None };
                            futs.push(m);
                            outs.push(o);
                        }
                        Err(_) => {
                            futs.push(Manual::new(async { Err(made(99, 9)) }));
                            outs.push(Some(Outcome::Panic));
                        }
                    }
                    0
                }
                2 if known => {
                    let c = handles[h].clone();
                    handles.push(c);
                    hready.push(false);
                    0
                }
                3 => {
                    sh.lock().unwrap().release(Some(a));
                    settle().await;
                    for j in 0..futs.len() {
                        if outs[j].is_none() && futs[j].woken() {
                            outs[j] = drive(&mut futs[j], OP_BUDGET_MS).await;
                        }
                    }
                    // whoever queued behind the released request
                    for j in 0..futs.len() {
                        if outs[j].is_none() && futs[j].woken() {
                            outs[j] = drive(&mut futs[j], OP_BUDGET_MS).await;
                        }
                    }
                    0
                }
                4 if known => {
                    let flag = Arc::new(Flag(AtomicBool::new(false)));
                    let w = Waker::from(flag.clone());
                    let mut cx = Context::from_waker(&w);
                    match catch_unwind(AssertUnwindSafe(|| handles[h].poll_ready(&mut cx))) {
                        Err(_) => 7,
                        Ok(Poll::Pending) => 3,
                        Ok(Poll::Ready(Ok(()))) => 0,
                        Ok(Poll::Ready(Err(_))) => 1,
                    }
                }
                6 => {
                    let j = a as usize;
                    if a >= 1 && j <= futs.len() && outs[j - 1].is_none() {
                        outs[j - 1] = drive(&mut futs[j - 1], OP_BUDGET_MS).await;
                    }
                    0
                }
                0 | 1 | 2 | 4 | 5 => 8,
                _ => 0,
            };
            tr.push(code);
            settle().await;
            // futures that were woken meanwhile (a permit was handed over, a task finished)
            for j in 0..futs.len() {
                if outs[j].is_none() && futs[j].woken() {
                    outs[j] = drive(&mut futs[j], 0).await;
                }
            }
        }
        // the end of the script: everything is released and driven to completion, oldest first
        sh.lock().unwrap().release(None);
        settle().await;
        for j in 0..futs.len() {
            if outs[j].is_none() {
                outs[j] = Some(drive(&mut futs[j], 2000).await.unwrap_or(Outcome::Hang));
            }
        }
        for (j, o) in outs.iter().enumerate() {
            tr.push(code_of(o.as_ref().unwrap(), j as i128 + 1, n));
        }
        finish_trace(&mut tr, &sh);
        tr
    })
}

// ---------------------------------------------------------------------------
/// modes 0 and 4: a stack in its non-triggering configuration over the scripted service
/// `mask_override`: run with this panic mask instead of the script's (mode 4's reference run)
fn run_transparent(s: &[i128], with_listeners: bool, mask_override: Option<i128>) -> Vec<i128> {
    let (n, ids) = ids_of(s);
    let (ik, nl, mask, base) = if with_listeners {
        (0, zn(s, 2 + n).clamp(0, 4) as usize, zn(s, 3 + n), 4 + n)
    } else {
        (zn(s, 2 + n), 0, 0, 3 + n)
    };
    let mask = clamp_mask(mask_override.unwrap_or(mask), nl);
    let nreq = zn(s, base).clamp(0, 32) as usize;
    let reqs: Vec<(i128, i128, i128)> =
        (0..nreq).map(|i| (zn(s, base + 1 + 3 * i), zn(s, base + 2 + 3 * i), zn(s, base + 3 + 3 * i))).collect();
    let rt = paused_rt();
    rt.block_on(async move {
        let st = Arc::new(Mutex::new(ScriptState::default()));
        let scripted = Scripted(st.clone());
        let bottom: Bx = match ik {
            1 => bx(MapErr::new(tower::buffer::Buffer::new(scripted, 4), |e: tower::BoxError| {
                match e.downcast::<E>() {
                    Ok(x) => *x,
                    Err(_) => made(99, 1),
                }
            })),
            2 => bx(tower::limit::ConcurrencyLimit::new(scripted, 2)),
            // a single unit of capacity: whoever holds a reservation it does not use blocks everybody else
            3 => bx(tower::limit::ConcurrencyLimit::new(scripted, 1)),
            _ => bx(scripted),
        };
        let cfg = Cfg::new(if with_listeners { 4 } else { 0 }, 0);
        let lsts: Vec<Lst> = if with_listeners { (0..n).map(|_| Lst::new(nl, mask)).collect() } else { Vec::new() };
        let mut svc = stack(&ids, bottom, &cfg, &lsts);
        settle().await;
        if ids.iter().any(|i| pre_tripped(*i)) {
            advance_ms(6).await; // past wait_duration_in_open
        }
        let mut tr = Vec::new();
        for (req, okind, oval) in reqs {
            {
                let mut g = st.lock().unwrap();
                g.okind = if okind == 0 { 0 } else { 1 };
                g.oval = oval;
                g.calls.clear();
            }
            let out = request(&mut svc, req, 64, &cfg.hooks).await;
            settle().await;
            let (kind, payload) = match out {
                Outcome::Ok(v) => (0, v),
                Outcome::Err(e) => {
                    if e.kind == APP && e.depth as usize == n {
                        (1, e.val)
                    } else {
                        (2, e.val)
                    }
                }
                Outcome::PollErr(e) => (2, -998_000 - e.val),
                Outcome::NeverReady => (2, -997),
                Outcome::Panic => (2, -999),
                Outcome::Hang => (2, -996),
            };
            let g = st.lock().unwrap();
            tr.extend([g.calls.len() as i128, g.calls.first().copied().unwrap_or(0), kind, payload]);
        }
        for (p, id) in ids.iter().enumerate() {
            if !with_listeners {
                break;
            }
            if has_listeners(*id) {
                tr.extend(lsts[p].snapshot().iter().map(|c| *c as i128));
            } else {
                tr.extend((0..nl * NK).map(|_| 0));
            }
        }
        tr
    })
}

/// one run of layer `id` with `nl` listeners, those in `mask` panicking
fn listener_run(id: i128, nl: usize, mask: i128, okinds: &[i128]) -> Vec<(Outcome, Vec<u64>)> {
    let okinds = okinds.to_vec();
    let rt = paused_rt();
    rt.block_on(async move {
        let st = Arc::new(Mutex::new(ScriptState::default()));
        let lst = Lst::new(nl, mask);
        let cfg = Cfg::new(2, 0);
        let mut svc = wrap(id, bx(Scripted(st.clone())), &cfg, Some(&lst));
        let mut out = Vec::new();
        for (j, ok) in okinds.iter().enumerate() {
            let j = j as i128 + 1;
            {
                let mut g = st.lock().unwrap();
                g.okind = *ok;
                g.oval = j * 10;
                g.calls.clear();
            }
            let o = request(&mut svc, j, 64, &cfg.hooks).await;
            settle().await;
            out.push((o, lst.snapshot()));
        }
        out
    })
}

fn run_listeners(s: &[i128]) -> Vec<i128> {
    let id = zn(s, 1);
    let nl = zn(s, 2).clamp(0, 4) as usize;
    let mask = clamp_mask(zn(s, 3), nl);
    let nreq = zn(s, 4).clamp(0, 32) as usize;
    let okinds: Vec<i128> = (0..nreq).map(|i| zn(s, 5 + i)).collect();
    if !has_listeners(id) {
        // adaptive, coalesce, executor: no listener API, nothing to observe
        return (0..nreq).flat_map(|_| [1, 1]).collect();
    }
    let reference = listener_run(id, nl, 0, &okinds);
    let actual = listener_run(id, nl, mask, &okinds);
    if std::env::var_os("C20_DEBUG").is_some() {
        for (r, a) in reference.iter().zip(actual.iter()) {
            eprintln!("ref {:?} {:?} | act {:?} {:?}", r.0, r.1, a.0, a.1);
        }
    }
    let mut tr = Vec::new();
    for (r, a) in reference.iter().zip(actual.iter()) {
        tr.push((r.0 == a.0) as i128);
        tr.push((r.1 == a.1) as i128);
    }
    tr
}

fn run(s: &[i128]) -> Vec<i128> {
    match zn(s, 0) {
        1 => run_protocol(s),
        3 => run_program(s),
        0 => run_transparent(s, false, None),
        4 => {
            // the run with the script's panic mask, then the counts of the reference run of the same
            // script with well-behaved listeners
            let mut tr = run_transparent(s, true, None);
            let reference = run_transparent(s, true, Some(0));
            let nreq = zn(s, 4 + ids_of(s).0).clamp(0, 32) as usize;
            tr.extend(reference.iter().skip(4 * nreq).copied());
            tr
        }
        _ => run_listeners(s),
    }
}

fn main() {
    main_loop(run);
}
