//! C20 driver: the thirteen real layers, alone and stacked, against
//!   mode 1: a strict, contract-checking wrapped service (readiness protocol),
//!   mode 0: a scripted wrapped service, directly or behind tower's Buffer / ConcurrencyLimit
//!           (transparency of non-triggering configurations),
//!   mode 2: the same layer with well-behaved and with panicking listeners (listeners only observe).
//!
//! Real layer ids: 0 bulkhead, 1 ratelimiter, 2 circuitbreaker, 3 retry, 4 timelimiter (cancel mode),
//! 5 cache, 6 fallback, 7 hedge, 8 reconnect, 9 adaptive, 10 coalesce, 11 executor, 12 chaos,
//! 13 circuitbreaker.with_fallback, 14 timelimiter (non-cancelling mode), 15 retry with zero backoff,
//! 16 circuitbreaker that HAS BEEN OPEN: tripped with force_open() at construction, wait_duration_in_open
//!    5 ms, the harness advances virtual time by 6 ms before the client's first poll_ready, so the first
//!    call that reaches the breaker is the half-open trial call (Open -> HalfOpen happens lazily inside
//!    call()); with permitted_calls_in_half_open = 1 a successful trial closes the breaker,
//! 17 the same for circuitbreaker.with_fallback,
//! 18 circuitbreaker that is Open whenever the client polls it ready and is closed with force_closed()
//!    between the client's poll_ready and call (re-opened with force_open() after every request),
//! 19 the same for circuitbreaker.with_fallback, closed with reset().
//!
//! mode 1: [1; n; layer ids (outermost first); k; nreq; oracle entries (0 Ready 1 Pending 2 Err)...]
//!   -> per request a code (0 called, 1 readiness error at poll_ready, 2 readiness error inside the
//!      call, 3 never ready; 7 panic, 9 hang: never produced by the model), the strict service's
//!      poll/call log with instances renamed by first use ([1; inst; r] / [2; inst; ok]), [violations]
//! mode 0: [0; n; layer ids; inner kind (0 direct, 1 Buffer, 2 ConcurrencyLimit(2)); nreq; (req; okind; oval)*]
//!   -> per request [inner calls; request seen; 0 Ok / 1 inner error wrapped in pass-through variants
//!      only / 2 anything else; payload]
//! mode 2: [2; layer id; nlisteners; panic mask; nreq; okind*]
//!   -> per request [outcome equals the reference run; every listener counted like the reference's]
//!
//! Every layer sits directly under a `tower::util::MapErr` that folds the layer's error type back
//! into the common error `E` (pass-through variant: depth + 1; anything the layer made up itself:
//! kind LAYER) and a `tower::util::BoxCloneService` (uniform type for run-time stacks). Both
//! forward poll_ready/call to the very instance they hold.
use futures::future::BoxFuture;
use futures::FutureExt;
use std::collections::{HashMap, VecDeque};
use std::fmt;
use std::panic::{catch_unwind, AssertUnwindSafe};
use std::sync::atomic::{AtomicBool, AtomicU64, Ordering};
use std::sync::{Arc, Mutex};
use std::task::{Context, Poll, Waker};
use std::time::Duration;
use tower::util::{BoxCloneService, MapErr};
use tower::{Layer, Service};
use tower_resilience_adaptive::{AdaptiveError, AdaptiveLimiterLayer, Aimd};
use tower_resilience_bulkhead::{BulkheadLayer, BulkheadServiceError};
use tower_resilience_cache::{CacheError, CacheLayer};
use tower_resilience_chaos::ChaosLayer;
use tower_resilience_circuitbreaker::{CircuitBreakerError, CircuitBreakerLayer};
use tower_resilience_coalesce::{CoalesceError, CoalesceLayer};
use tower_resilience_core::FnListener;
use tower_resilience_executor::{ExecutorError, ExecutorLayer};
use tower_resilience_fallback::{FallbackError, FallbackEvent, FallbackLayer};
use tower_resilience_hedge::{HedgeError, HedgeEvent, HedgeLayer};
use tower_resilience_ratelimiter::{RateLimiterLayer, RateLimiterServiceError};
use tower_resilience_reconnect::{ReconnectConfig, ReconnectLayer, ReconnectPolicy, ReconnectService};
use tower_resilience_retry::RetryLayer;
use tower_resilience_timelimiter::{TimeLimiterError, TimeLimiterLayer};
use verif_harness::*;

// ---------------------------------------------------------------------------
// the common error
const APP: u8 = 0; // the wrapped service's own (application) error, payload = val
const TRANSIENT: u8 = 1; // retryable / "connection" error of the wrapped service
const READY: u8 = 2; // error returned by the wrapped service's poll_ready
const LAYER: u8 = 3; // an error a layer produced itself (val = 100 * layer id + variant)

#[derive(Clone, Debug, PartialEq)]
struct E {
    kind: u8,
    val: i128,
    /// number of pass-through wrappers this error went through
    depth: u32,
}

impl fmt::Display for E {
    fn fmt(&self, f: &mut fmt::Formatter<'_>) -> fmt::Result {
        write!(f, "E kind={} val={} depth={}", self.kind, self.val, self.depth)
    }
}
impl std::error::Error for E {}

fn pass(e: E) -> E {
    E { depth: e.depth + 1, ..e }
}
fn made(layer: i128, variant: i128) -> E {
    E { kind: LAYER, val: 100 * layer + variant, depth: 0 }
}

type Bx = BoxCloneService<i128, i128, E>;

fn bx<S>(s: S) -> Bx
where
    S: Service<i128, Response = i128, Error = E> + Clone + Send + 'static,
    S::Future: Send + 'static,
{
    BoxCloneService::new(s)
}

// ---------------------------------------------------------------------------
// listeners (mode 2)
#[derive(Clone)]
struct Lst {
    counts: Arc<Vec<AtomicU64>>,
    mask: i128,
}

impl Lst {
    fn new(n: usize, mask: i128) -> Self {
        Lst { counts: Arc::new((0..n).map(|_| AtomicU64::new(0)).collect()), mask }
    }
    fn n(&self) -> usize {
        self.counts.len()
    }
    /// listener i: counts the event, then panics if bit i of the mask is set
    fn h(&self, i: usize) -> impl Fn() + Send + Sync + Clone + 'static {
        let c = self.counts.clone();
        let p = (self.mask >> i) & 1 == 1;
        move || {
            c[i].fetch_add(1, Ordering::SeqCst);
            if p {
                panic!("listener {} panics", i);
            }
        }
    }
    fn snapshot(&self) -> Vec<u64> {
        self.counts.iter().map(|c| c.load(Ordering::SeqCst)).collect()
    }
}

type Hook = Box<dyn Fn() + Send>;

/// things the harness does to a layer from outside, around the client's steps
#[derive(Clone, Default)]
struct Hooks {
    /// between the client's successful poll_ready and its call
    pre_call: Arc<Mutex<Vec<Hook>>>,
    /// after the request has completed
    post: Arc<Mutex<Vec<Hook>>>,
}

impl Hooks {
    fn run(v: &Arc<Mutex<Vec<Hook>>>) {
        for h in v.lock().unwrap().iter() {
            h();
        }
    }
}

struct Cfg {
    mode: i128,
    k: usize,
    lst: Option<Lst>,
    keys: Arc<AtomicU64>,
    hooks: Hooks,
}

impl Cfg {
    fn new(mode: i128, k: usize, lst: Option<Lst>) -> Self {
        Cfg { mode, k, lst, keys: Arc::new(AtomicU64::new(0)), hooks: Hooks::default() }
    }
}

fn has_listeners(id: i128) -> bool {
    matches!(id, 0 | 1 | 2 | 3 | 4 | 5 | 6 | 7 | 12 | 13 | 14 | 15)
}

/// breaker variants that start Open and whose open period has to elapse before the first request
fn pre_tripped(id: i128) -> bool {
    id == 16 || id == 17
}

type RErr = <ReconnectService<Bx> as Service<i128>>::Error;

/// wrap `inner` in real layer `id`
fn wrap(id: i128, inner: Bx, c: &Cfg) -> Bx {
    let m2 = c.mode == 2;
    let nl = c.lst.as_ref().map(|l| l.n()).unwrap_or(0);
    let lst = c.lst.clone();
    let h = move |i: usize| lst.as_ref().unwrap().h(i);
    match id {
        0 => {
            let mut b = BulkheadLayer::builder().max_concurrent_calls(4).name("c20");
            for i in 0..nl {
                let (h1, h2, h3, h4) = (h(i), h(i), h(i), h(i));
                b = b
                    .on_call_permitted(move |_| h1())
                    .on_call_rejected(move |_| h2())
                    .on_call_finished(move |_| h3())
                    .on_call_failed(move |_| h4());
            }
            bx(MapErr::new(b.build().layer(inner), |e: BulkheadServiceError<E>| match e {
                BulkheadServiceError::Inner(x) => pass(x),
                BulkheadServiceError::Bulkhead(_) => made(0, 1),
            }))
        }
        1 => {
            let mut b = RateLimiterLayer::builder()
                .limit_for_period(if m2 { 2 } else { 1000 })
                .refresh_period(Duration::from_secs(1))
                .timeout_duration(Duration::from_millis(0));
            for i in 0..nl {
                let (h1, h2, h3) = (h(i), h(i), h(i));
                b = b
                    .on_permit_acquired(move |_| h1())
                    .on_permit_rejected(move |_| h2())
                    .on_permits_refreshed(move |_| h3());
            }
            bx(MapErr::new(b.build().layer(inner), |e: RateLimiterServiceError<E>| match e {
                RateLimiterServiceError::Inner(x) => pass(x),
                RateLimiterServiceError::RateLimited => made(1, 1),
            }))
        }
        2 | 13 | 16 | 17 | 18 | 19 => {
            let mut b = CircuitBreakerLayer::builder()
                .failure_rate_threshold(0.5)
                .sliding_window_size(if m2 { 4 } else { 100 })
                .minimum_number_of_calls(if m2 { 2 } else { 1000 })
                .wait_duration_in_open(Duration::from_millis(5))
                .permitted_calls_in_half_open(1);
            for i in 0..nl {
                let (h1, h2, h3, h4, h5, h6) = (h(i), h(i), h(i), h(i), h(i), h(i));
                b = b
                    .on_state_transition(move |_, _| h1())
                    .on_call_permitted(move |_| h2())
                    .on_call_rejected(move || h3())
                    .on_success(move |_| h4())
                    .on_failure(move |_| h5())
                    .on_slow_call(move |_| h6());
            }
            let conv = |e: CircuitBreakerError<E>| match e {
                CircuitBreakerError::Inner(x) => pass(x),
                CircuitBreakerError::OpenCircuit => made(2, 1),
            };
            let cb = b.build().layer(inner);
            // the control methods only take the (uncontended) circuit lock: they complete at once
            if id >= 16 {
                cb.force_open().now_or_never().expect("force_open");
            }
            if id == 13 || id == 17 || id == 19 {
                let svc = cb.with_fallback(|req: i128| -> BoxFuture<'static, Result<i128, E>> {
                    Box::pin(async move { Ok(-4242 - req) })
                });
                if id == 19 {
                    // a handle on the same circuit (the clone's inner instance is never used)
                    let (h1, h2) = (svc.clone(), svc.clone());
                    c.hooks.pre_call.lock().unwrap().push(Box::new(move || {
                        h1.reset().now_or_never().expect("reset");
                    }));
                    c.hooks.post.lock().unwrap().push(Box::new(move || {
                        h2.force_open().now_or_never().expect("force_open");
                    }));
                }
                bx(MapErr::new(svc, conv))
            } else {
                if id == 18 {
                    let (h1, h2) = (cb.clone(), cb.clone());
                    c.hooks.pre_call.lock().unwrap().push(Box::new(move || {
                        h1.force_closed().now_or_never().expect("force_closed");
                    }));
                    c.hooks.post.lock().unwrap().push(Box::new(move || {
                        h2.force_open().now_or_never().expect("force_open");
                    }));
                }
                bx(MapErr::new(cb, conv))
            }
        }
        3 | 15 => {
            let mut b = RetryLayer::<i128, E>::builder()
                .max_attempts(if c.mode == 1 { c.k + 1 } else { 3 })
                // variant 15: retries without any backoff (Duration::ZERO)
                .fixed_backoff(if id == 15 { Duration::ZERO } else { Duration::from_millis(1) })
                .retry_on(|e: &E| e.kind == TRANSIENT);
            for i in 0..nl {
                let (h1, h2, h3, h4, h5) = (h(i), h(i), h(i), h(i), h(i));
                b = b
                    .on_retry(move |_, _| h1())
                    .on_success(move |_| h2())
                    .on_error(move |_| h3())
                    .on_ignored_error(move || h4())
                    .on_budget_exhausted(move |_| h5());
            }
            // retry's error type is the inner error type itself
            bx(MapErr::new(b.build().layer(inner), pass))
        }
        4 | 14 => {
            let mut b = TimeLimiterLayer::builder()
                .timeout_duration(if m2 { Duration::from_millis(20) } else { Duration::from_secs(10) })
                .cancel_running_future(id == 4);
            for i in 0..nl {
                let (h1, h2, h3) = (h(i), h(i), h(i));
                b = b.on_success(move |_| h1()).on_error(move |_| h2()).on_timeout(move || h3());
            }
            bx(MapErr::new(b.build().layer(inner), |e: TimeLimiterError<E>| match e {
                TimeLimiterError::Inner(x) => pass(x),
                TimeLimiterError::Timeout => made(4, 1),
            }))
        }
        5 => {
            let keys = c.keys.clone();
            let mut b = CacheLayer::<i128, u64>::builder().max_size(if m2 { 2 } else { 64 }).key_extractor(
                move |r: &i128| {
                    if m2 {
                        r.rem_euclid(3) as u64
                    } else {
                        // every request is a key of its own
                        keys.fetch_add(1, Ordering::SeqCst)
                    }
                },
            );
            for i in 0..nl {
                let (h1, h2, h3) = (h(i), h(i), h(i));
                b = b.on_hit(move || h1()).on_miss(move || h2()).on_eviction(move || h3());
            }
            bx(MapErr::new(b.build().layer(inner), |e: CacheError<E>| match e {
                CacheError::Inner(x) => pass(x),
            }))
        }
        6 => {
            let mut b = FallbackLayer::<i128, i128, E>::builder().value(-777);
            if !m2 {
                b = b.handle(|_e: &E| false);
            }
            for i in 0..nl {
                let h1 = h(i);
                b = b.on_event(move |_ev: &FallbackEvent| h1());
            }
            bx(MapErr::new(b.build().layer(inner), |e: FallbackError<E>| match e {
                FallbackError::Inner(x) => pass(x),
                FallbackError::FallbackFailed(_) => made(6, 1),
            }))
        }
        7 => {
            let mut b = HedgeLayer::builder().name("c20");
            b = match c.mode {
                1 => b.no_delay().max_hedged_attempts(c.k + 1),
                2 => b.delay(Duration::from_millis(10)).max_hedged_attempts(2),
                _ => b.delay(Duration::from_secs(10)).max_hedged_attempts(2),
            };
            for i in 0..nl {
                let h1 = h(i);
                b = b.on_event(FnListener::new(move |_ev: &HedgeEvent| h1()));
            }
            bx(MapErr::new(b.build().layer(inner), |e: HedgeError<E>| match e {
                HedgeError::Inner(x) => pass(x),
                HedgeError::AllAttemptsFailed(_) => made(7, 1),
            }))
        }
        8 => {
            let cfg = ReconnectConfig::builder()
                .policy(ReconnectPolicy::fixed(Duration::from_millis(1)))
                .max_attempts(if c.mode == 1 { c.k as u32 + 1 } else { 3 })
                .retry_on_reconnect(true)
                .reconnect_predicate(|e: &dyn std::error::Error| e.to_string().starts_with("E kind=1 "))
                .build();
            bx(MapErr::new(ReconnectLayer::new(cfg).layer(inner), |e: RErr| match e {
                RErr::ServiceError(x) => pass(x),
                RErr::ConnectionFailed(_) => made(8, 1),
                RErr::ConnectionFailedNoRetry(_) => made(8, 2),
                RErr::MaxAttemptsExceeded { .. } => made(8, 3),
            }))
        }
        9 => {
            let layer = AdaptiveLimiterLayer::new(Aimd::builder().initial_limit(10).build());
            bx(MapErr::new(layer.layer(inner), |e: AdaptiveError<E>| match e {
                AdaptiveError::Service(x) => pass(x),
                AdaptiveError::LimitReached => made(9, 1),
            }))
        }
        10 => {
            let keys = c.keys.clone();
            let layer = CoalesceLayer::new(move |_r: &i128| keys.fetch_add(1, Ordering::SeqCst));
            bx(MapErr::new(layer.layer(inner), |e: CoalesceError<E>| match e {
                CoalesceError::Service(x) => pass(x),
                CoalesceError::LeaderCancelled => made(10, 1),
                CoalesceError::RecvError => made(10, 2),
            }))
        }
        11 => {
            let layer = ExecutorLayer::new(tokio::runtime::Handle::current());
            bx(MapErr::new(layer.layer(inner), |e: ExecutorError<E>| match e {
                ExecutorError::Service(x) => pass(x),
                ExecutorError::TaskCancelled => made(11, 1),
            }))
        }
        _ => {
            let mut b = ChaosLayer::builder().name("c20");
            for i in 0..nl {
                let (h1, h2, h3) = (h(i), h(i), h(i));
                b = b
                    .on_error_injected(move || h1())
                    .on_latency_injected(move |_| h2())
                    .on_passed_through(move || h3());
            }
            // chaos's error type is the inner error type itself
            if m2 {
                let l = b.seed(42).error_fn(|_r: &i128| made(12, 1)).error_rate(0.5).build();
                bx(MapErr::new(l.layer(inner), pass))
            } else {
                bx(MapErr::new(b.build().layer(inner), pass))
            }
        }
    }
}

fn stack(ids: &[i128], bottom: Bx, c: &Cfg) -> Bx {
    let mut svc = bottom;
    for id in ids.iter().rev() {
        svc = wrap(*id, svc, c);
    }
    svc
}

// ---------------------------------------------------------------------------
// the strict, contract-checking wrapped service (mode 1)
struct StrictState {
    oracle: VecDeque<i128>,
    /// [1, inst, r] poll, [2, inst, ok] call
    log: Vec<[i128; 3]>,
    ready: Vec<bool>,
    violations: i128,
    /// attempts 1..=kfail of every request fail with a transient error
    kfail: usize,
    attempts: HashMap<i128, usize>,
}

struct Strict {
    sh: Arc<Mutex<StrictState>>,
    id: usize,
}

impl Clone for Strict {
    fn clone(&self) -> Self {
        let mut st = self.sh.lock().unwrap();
        let id = st.ready.len();
        st.ready.push(false); // a clone has not been polled ready
        Strict { sh: self.sh.clone(), id }
    }
}

impl Service<i128> for Strict {
    type Response = i128;
    type Error = E;
    type Future = std::future::Ready<Result<i128, E>>;
    fn poll_ready(&mut self, cx: &mut Context<'_>) -> Poll<Result<(), E>> {
        let mut st = self.sh.lock().unwrap();
        let r = st.oracle.pop_front().unwrap_or(0);
        let id = self.id;
        match r {
            0 => {
                st.ready[id] = true;
                st.log.push([1, id as i128, 0]);
                Poll::Ready(Ok(()))
            }
            1 => {
                st.log.push([1, id as i128, 1]);
                cx.waker().wake_by_ref();
                Poll::Pending
            }
            _ => {
                st.log.push([1, id as i128, 2]);
                Poll::Ready(Err(E { kind: READY, val: -2, depth: 0 }))
            }
        }
    }
    fn call(&mut self, req: i128) -> Self::Future {
        let mut st = self.sh.lock().unwrap();
        let id = self.id;
        let ok = st.ready[id];
        if !ok {
            st.violations += 1;
        }
        st.ready[id] = false;
        st.log.push([2, id as i128, ok as i128]);
        let a = {
            let e = st.attempts.entry(req).or_insert(0);
            *e += 1;
            *e
        };
        if a <= st.kfail {
            std::future::ready(Err(E { kind: TRANSIENT, val: -1, depth: 0 }))
        } else {
            std::future::ready(Ok(req * 10))
        }
    }
}

// ---------------------------------------------------------------------------
// the scripted wrapped service (modes 0 and 2)
#[derive(Default)]
struct ScriptState {
    okind: i128,
    oval: i128,
    calls: Vec<i128>,
}

#[derive(Clone)]
struct Scripted(Arc<Mutex<ScriptState>>);

impl Service<i128> for Scripted {
    type Response = i128;
    type Error = E;
    type Future = BoxFuture<'static, Result<i128, E>>;
    fn poll_ready(&mut self, _cx: &mut Context<'_>) -> Poll<Result<(), E>> {
        Poll::Ready(Ok(()))
    }
    fn call(&mut self, req: i128) -> Self::Future {
        let (ok, ov, a) = {
            let mut st = self.0.lock().unwrap();
            st.calls.push(req);
            (st.okind, st.oval, st.calls.len())
        };
        Box::pin(async move {
            match ok {
                0 => Ok(ov),
                1 => Err(E { kind: APP, val: ov, depth: 0 }),
                // transient failure of the first attempt only
                2 => {
                    if a == 1 {
                        Err(E { kind: TRANSIENT, val: -1, depth: 0 })
                    } else {
                        Ok(ov)
                    }
                }
                // slow success
                3 => {
                    tokio::time::sleep(Duration::from_millis(50)).await;
                    Ok(ov)
                }
                _ => Err(E { kind: TRANSIENT, val: -1, depth: 0 }),
            }
        })
    }
}

// ---------------------------------------------------------------------------
// the client
#[derive(Debug, Clone, PartialEq)]
enum Outcome {
    Ok(i128),
    Err(E),
    PollErr(E),
    NeverReady,
    Panic,
    Hang,
}

/// poll_ready on the one long-lived top-level instance until Ready (at most `fuel` Pending
/// answers), then call and drive the returned future to completion
async fn request(svc: &mut Bx, req: i128, fuel: usize, hooks: &Hooks) -> Outcome {
    let out = request_inner(svc, req, fuel, hooks).await;
    Hooks::run(&hooks.post);
    out
}

async fn request_inner(svc: &mut Bx, req: i128, fuel: usize, hooks: &Hooks) -> Outcome {
    let flag = Arc::new(Flag(AtomicBool::new(false)));
    let w = Waker::from(flag.clone());
    let mut ready = false;
    for _ in 0..fuel {
        flag.0.store(false, Ordering::SeqCst);
        let mut cx = Context::from_waker(&w);
        match catch_unwind(AssertUnwindSafe(|| svc.poll_ready(&mut cx))) {
            Err(_) => return Outcome::Panic,
            Ok(Poll::Ready(Ok(()))) => {
                ready = true;
                break;
            }
            Ok(Poll::Ready(Err(e))) => return Outcome::PollErr(e),
            Ok(Poll::Pending) => {
                settle().await;
                if !flag.0.load(Ordering::SeqCst) {
                    advance_ms(1).await;
                }
            }
        }
    }
    if !ready {
        return Outcome::NeverReady;
    }
    Hooks::run(&hooks.pre_call);
    let fut = match catch_unwind(AssertUnwindSafe(|| svc.call(req))) {
        Ok(f) => f,
        Err(_) => return Outcome::Panic,
    };
    let mut m = Manual::new(fut);
    let mut steps = 0u32;
    while !m.poll() {
        steps += 1;
        if steps > 25_000 {
            m.drop_fut();
            return Outcome::Hang;
        }
        settle().await;
        if !m.woken() {
            advance_ms(1).await;
        }
    }
    // let detached tasks (hedges, executor / non-cancelling time limiter tasks) finish
    settle().await;
    if m.panicked {
        return Outcome::Panic;
    }
    match m.done.take() {
        Some(Ok(v)) => Outcome::Ok(v),
        Some(Err(e)) => Outcome::Err(e),
        None => Outcome::Hang,
    }
}

// ---------------------------------------------------------------------------
fn ids_of(s: &[i128]) -> (usize, Vec<i128>) {
    let n = zn(s, 1).clamp(0, 8) as usize;
    (n, (0..n).map(|i| zn(s, 2 + i)).collect())
}

fn run_protocol(s: &[i128]) -> Vec<i128> {
    let (n, ids) = ids_of(s);
    let k = zn(s, 2 + n).clamp(0, 6) as usize;
    let nreq = zn(s, 3 + n).clamp(0, 16);
    let oracle: VecDeque<i128> = s.iter().skip(4 + n).copied().collect();
    let rt = paused_rt();
    rt.block_on(async move {
        // hedged attempts all succeed (hedge runs them in parallel); for retry / reconnect the
        // first k attempts of every request fail
        // (a pre-tripped breaker needs its half-open trial call to succeed: with no retrying layer
        // in the stack nothing fails)
        let retrying = ids.iter().any(|i| matches!(*i, 3 | 8 | 15));
        let kfail = if ids.contains(&7) || (ids.iter().any(|i| pre_tripped(*i)) && !retrying) { 0 } else { k };
        let sh = Arc::new(Mutex::new(StrictState {
            oracle,
            log: Vec::new(),
            ready: vec![false],
            violations: 0,
            kfail,
            attempts: HashMap::new(),
        }));
        let cfg = Cfg::new(1, k, None);
        let mut svc = stack(&ids, bx(Strict { sh: sh.clone(), id: 0 }), &cfg);
        if ids.iter().any(|i| pre_tripped(*i)) {
            advance_ms(6).await; // past wait_duration_in_open
        }
        let mut tr = Vec::new();
        for j in 1..=nreq {
            let code = match request(&mut svc, j, 8, &cfg.hooks).await {
                Outcome::Ok(_) => 0,
                Outcome::Err(e) => {
                    if e.kind == READY {
                        2
                    } else {
                        0
                    }
                }
                Outcome::PollErr(_) => 1,
                Outcome::NeverReady => 3,
                Outcome::Panic => 7,
                Outcome::Hang => 9,
            };
            tr.push(code);
            settle().await;
        }
        let st = sh.lock().unwrap();
        let mut seen: Vec<i128> = Vec::new();
        for [kind, inst, v] in st.log.iter().copied() {
            let idx = match seen.iter().position(|x| *x == inst) {
                Some(i) => i,
                None => {
                    seen.push(inst);
                    seen.len() - 1
                }
            };
            tr.extend([kind, idx as i128, v]);
        }
        tr.push(st.violations);
        tr
    })
}

fn run_transparent(s: &[i128]) -> Vec<i128> {
    let (n, ids) = ids_of(s);
    let inner_kind = zn(s, 2 + n);
    let nreq = zn(s, 3 + n).clamp(0, 32) as usize;
    let reqs: Vec<(i128, i128, i128)> =
        (0..nreq).map(|i| (zn(s, 4 + n + 3 * i), zn(s, 5 + n + 3 * i), zn(s, 6 + n + 3 * i))).collect();
    let rt = paused_rt();
    rt.block_on(async move {
        let st = Arc::new(Mutex::new(ScriptState::default()));
        let scripted = Scripted(st.clone());
        let bottom: Bx = match inner_kind {
            1 => bx(MapErr::new(tower::buffer::Buffer::new(scripted, 4), |e: tower::BoxError| {
                match e.downcast::<E>() {
                    Ok(x) => *x,
                    Err(_) => made(99, 1),
                }
            })),
            2 => bx(tower::limit::ConcurrencyLimit::new(scripted, 2)),
            _ => bx(scripted),
        };
        let cfg = Cfg::new(0, 0, None);
        let mut svc = stack(&ids, bottom, &cfg);
        settle().await;
        if ids.iter().any(|i| pre_tripped(*i)) {
            advance_ms(6).await; // past wait_duration_in_open
        }
        let mut tr = Vec::new();
        for (req, okind, oval) in reqs {
            {
                let mut g = st.lock().unwrap();
                g.okind = if okind == 0 { 0 } else { 1 };
                g.oval = oval;
                g.calls.clear();
            }
            let out = request(&mut svc, req, 64, &cfg.hooks).await;
            settle().await;
            let (kind, payload) = match out {
                Outcome::Ok(v) => (0, v),
                Outcome::Err(e) => {
                    if e.kind == APP && e.depth as usize == n {
                        (1, e.val)
                    } else {
                        (2, e.val)
                    }
                }
                Outcome::PollErr(e) => (2, -998_000 - e.val),
                Outcome::NeverReady => (2, -997),
                Outcome::Panic => (2, -999),
                Outcome::Hang => (2, -996),
            };
            let g = st.lock().unwrap();
            tr.extend([g.calls.len() as i128, g.calls.first().copied().unwrap_or(0), kind, payload]);
        }
        tr
    })
}

/// one run of layer `id` with `nl` listeners, those in `mask` panicking
fn listener_run(id: i128, nl: usize, mask: i128, okinds: &[i128]) -> Vec<(Outcome, Vec<u64>)> {
    let okinds = okinds.to_vec();
    let rt = paused_rt();
    rt.block_on(async move {
        let st = Arc::new(Mutex::new(ScriptState::default()));
        let lst = Lst::new(nl, mask);
        let cfg = Cfg::new(2, 0, Some(lst.clone()));
        let mut svc = wrap(id, bx(Scripted(st.clone())), &cfg);
        let mut out = Vec::new();
        for (j, ok) in okinds.iter().enumerate() {
            let j = j as i128 + 1;
            {
                let mut g = st.lock().unwrap();
                g.okind = *ok;
                g.oval = j * 10;
                g.calls.clear();
            }
            let o = request(&mut svc, j, 64, &cfg.hooks).await;
            settle().await;
            out.push((o, lst.snapshot()));
        }
        out
    })
}

fn run_listeners(s: &[i128]) -> Vec<i128> {
    let id = zn(s, 1);
    let nl = zn(s, 2).clamp(0, 4) as usize;
    let mask = zn(s, 3) & ((1 << nl) - 1);
    let nreq = zn(s, 4).clamp(0, 32) as usize;
    let okinds: Vec<i128> = (0..nreq).map(|i| zn(s, 5 + i)).collect();
    if !has_listeners(id) {
        // reconnect (callbacks only with the `tracing` feature), adaptive, coalesce, executor:
        // no listener API, nothing to observe
        return (0..nreq).flat_map(|_| [1, 1]).collect();
    }
    let reference = listener_run(id, nl, 0, &okinds);
    let actual = listener_run(id, nl, mask, &okinds);
    if std::env::var_os("C20_DEBUG").is_some() {
        for (r, a) in reference.iter().zip(actual.iter()) {
            eprintln!("ref {:?} {:?} | act {:?} {:?}", r.0, r.1, a.0, a.1);
        }
    }
    let mut tr = Vec::new();
    for (r, a) in reference.iter().zip(actual.iter()) {
        tr.push((r.0 == a.0) as i128);
        tr.push((r.1 == a.1) as i128);
    }
    tr
}

fn run(s: &[i128]) -> Vec<i128> {
    match zn(s, 0) {
        1 => run_protocol(s),
        0 => run_transparent(s),
        _ => run_listeners(s),
    }
}

fn main() {
    main_loop(run);
}
