//! C11: coalesce.
//! script = [n, (op a b)*]  callers 0..n-1
//!   op 1 Poll a | 2 Drop a | 4 Complete a b (0 ok, 1 err, 2 panic) | 5 Call a with key b
//! Caller a's request is the integer a; the key extractor looks the key up in a table filled
//! by the Call event.  The inner service answers request a with the value a (Ok(a) / Err(a)),
//! so every outer result names the inner call it came from.
//! trace per event = [r, val, wake mask, mask of callers whose inner call is in flight]
use std::sync::{Arc, Mutex};
use tower::{Layer, Service};
use tower_resilience_coalesce::{CoalesceError, CoalesceLayer};
use verif_harness::*;

type Res = Result<i128, CoalesceError<i128>>;

fn run(s: &[i128]) -> Vec<i128> {
    let n = zn(s, 0).max(0) as usize;
    let rt = paused_rt();
    rt.block_on(async move {
        let inner = GatedInner::new();
        let sh = inner.0.clone();
        let keys: Arc<Mutex<Vec<i128>>> = Arc::new(Mutex::new(vec![0; n]));
        let k2 = keys.clone();
        let layer = CoalesceLayer::new(move |req: &i128| k2.lock().unwrap()[*req as usize]);
        // one CoalesceService (one in-flight map); every call goes through a clone of it
        let base = layer.layer(inner);
        let mut callers: Vec<Option<Manual<Res>>> = (0..n).map(|_| None).collect();
        let mut started = vec![false; n];
        let mut tr = Vec::new();
        for c in s[1.min(s.len())..].chunks(3).filter(|c| c.len() == 3) {
            let (op, a, b) = (c[0], c[1], c[2]);
            if a < 0 || a as usize >= n { continue; }
            let i = a as usize;
            let mut r: i128 = -1;
            let mut val: i128 = -1;
            match op {
                5 => {
                    if callers[i].is_none() {
                        keys.lock().unwrap()[i] = b.max(0);
                        let mut svc = base.clone();
                        futures::future::poll_fn(|cx| svc.poll_ready(cx)).await.ok();
                        let mut m = Manual::new(svc.call(a));
                        // a finished call future stays alive until the script drops it (late drop)
                        m.keep_done = true;
                        callers[i] = Some(m);
                    }
                }
                1 => {
                    match callers[i].as_mut() {
                        Some(m) if m.alive() => {
                            let fin = m.poll();
                            r = if !fin { 0 } else if m.panicked { 5 } else {
                                match m.done.take().unwrap() {
                                    Ok(v) => { val = v; 1 }
                                    Err(CoalesceError::Service(e)) => { val = e; 2 }
                                    Err(CoalesceError::LeaderCancelled) => 3,
                                    Err(CoalesceError::RecvError) => 4,
                                }
                            };
                        }
                        _ => r = 9,
                    }
                }
                2 => {
                    if let Some(m) = callers[i].as_mut() {
                        m.drop_fut();
                        m.flag.0.store(false, std::sync::atomic::Ordering::SeqCst);
                    }
                }
                4 => {
                    sh.complete(a, 0, match b { 0 => Outcome::Ok(a), 1 => Outcome::Err(a), _ => Outcome::Panic });
                }
                _ => continue,
            }
            settle().await;
            let mut mask: i128 = 0;
            for (j, c) in callers.iter().enumerate() {
                if let Some(m) = c { if m.alive() && m.woken() { mask += 1i128 << j; } }
            }
            for (req, _) in sh.take_starts() { started[req as usize] = true; }
            let fin = sh.finished.lock().unwrap().clone();
            let drp = sh.dropped.lock().unwrap().clone();
            let mut fl: i128 = 0;
            for j in 0..n {
                let jj = j as i128;
                if started[j] && !fin.contains(&jj) && !drp.contains(&jj) { fl += 1i128 << j; }
            }
            tr.extend([r, val, mask, fl]);
        }
        tr
    })
}

fn main() { main_loop(run); }
