//! C11: coalesce.
//! script = [h, (op a b)*]  callers 0..n-1 with n = h % 100 (h < 0: none); f = h / 100 selects how the
//! layer is built and how the service value is shared between the calls:
//!   f % 4      : 0 every call goes through a fresh clone of one base service, 1 every call is made on the
//!                base value itself, 2 every call is made on a clone of the value used by the previous call
//!                (a chain of clones), 3 the calls alternate between the base value and one long-lived clone
//!   (f / 4) % 2: 1 = the key type hashes every key to the same bucket (only `Eq` tells keys apart)
//!   (f / 8) % 2: 1 = the layer is built with CoalesceLayer::builder(..).name(..).build()
//!   op 1 Poll a | 2 Drop a | 4 Complete a b (0 ok, 1 err, 2 panic) | 5 Call a with key b
//!   op 6 Arm a: the next Clone of a value (Ok or Err) produced by caller a's inner call panics (once)
//!   op 7 CallPanic a b: like 5, but the inner service's call() panics if this request reaches it
//!   op 8 CallPanicRec a b: like 5, but the metrics recorder panics when this call() registers its role counter
//!        (the crate is built with feature `metrics`; the global recorder is the one installed by `main` below)
//!   op 3 Advance a b: b milliseconds pass (paused tokio clock and std Instant together); a is ignored
//! Caller a's request is the integer a; the key extractor looks the key up in a table filled
//! by the Call event.  The inner service answers request a with the value a (Ok(a) / Err(a)),
//! so every outer result names the inner call it came from.
//! trace per event = [r, val, wake mask, mask of callers whose inner call is in flight, mask of armed Clone panics]
//!   r: -1 nothing to report, 0 pending, 1 Ok, 2 Err(Service), 3 LeaderCancelled, 4 RecvError,
//!      5 panicked (the poll, or for op 7 / 8 the call itself after the scripted fault went off), 7 call() panicked
//!      although no scripted fault went off, 9 nothing to poll
use std::future::Future;
use std::hash::{Hash, Hasher};
use std::pin::Pin;
use std::sync::atomic::{AtomicBool, Ordering};
use std::sync::{Arc, Mutex};
use std::task::{Context, Poll};
use tower::{Layer, Service};
use tower_resilience_coalesce::{CoalesceError, CoalesceLayer};
use verif_harness::*;

/// the process-wide metrics recorder: does nothing, except that registering a counter panics while armed
static REC_ARMED: AtomicBool = AtomicBool::new(false);
struct Rec;
impl metrics::Recorder for Rec {
    fn describe_counter(&self, _: metrics::KeyName, _: Option<metrics::Unit>, _: metrics::SharedString) {}
    fn describe_gauge(&self, _: metrics::KeyName, _: Option<metrics::Unit>, _: metrics::SharedString) {}
    fn describe_histogram(&self, _: metrics::KeyName, _: Option<metrics::Unit>, _: metrics::SharedString) {}
    fn register_counter(&self, _: &metrics::Key, _: &metrics::Metadata<'_>) -> metrics::Counter {
        if REC_ARMED.swap(false, Ordering::SeqCst) {
            panic!("scripted panic in the metrics recorder");
        }
        metrics::Counter::noop()
    }
    fn register_gauge(&self, _: &metrics::Key, _: &metrics::Metadata<'_>) -> metrics::Gauge {
        metrics::Gauge::noop()
    }
    fn register_histogram(&self, _: &metrics::Key, _: &metrics::Metadata<'_>) -> metrics::Histogram {
        metrics::Histogram::noop()
    }
}

/// switches the script flips: which requests make `inner.call()` panic, whose values have a panicking Clone
struct Ctl {
    call_panic: Mutex<Vec<bool>>,
    bomb: Mutex<Vec<bool>>,
}

/// response and error type of the inner service: the value names the inner call that produced it
struct Val {
    v: i128,
    ctl: Arc<Ctl>,
}

impl Clone for Val {
    fn clone(&self) -> Self {
        let armed = {
            let mut b = self.ctl.bomb.lock().unwrap();
            match b.get_mut(self.v as usize) {
                Some(x) => std::mem::replace(x, false),
                None => false,
            }
        };
        if armed {
            panic!("scripted Clone panic");
        }
        Val { v: self.v, ctl: self.ctl.clone() }
    }
}

/// the scripted inner service (gates, start/finish/drop log) with the two extra faults
#[derive(Clone)]
struct Inner {
    g: GatedInner,
    ctl: Arc<Ctl>,
}

impl Service<i128> for Inner {
    type Response = Val;
    type Error = Val;
    type Future = Pin<Box<dyn Future<Output = Result<Val, Val>> + Send>>;
    fn poll_ready(&mut self, _cx: &mut Context<'_>) -> Poll<Result<(), Val>> {
        Poll::Ready(Ok(()))
    }
    fn call(&mut self, req: i128) -> Self::Future {
        let p = {
            let mut c = self.ctl.call_panic.lock().unwrap();
            std::mem::replace(&mut c[req as usize], false)
        };
        if p {
            panic!("scripted panic in inner.call()");
        }
        let f = self.g.call(req);
        let ctl = self.ctl.clone();
        Box::pin(async move {
            match f.await {
                Ok(v) => Ok(Val { v, ctl }),
                Err(e) => Err(Val { v: e, ctl }),
            }
        })
    }
}

trait Key: Hash + Eq + Clone + Send + Sync + 'static {
    fn mk(k: i128) -> Self;
}
impl Key for i128 {
    fn mk(k: i128) -> Self { k }
}
/// every key lands in the same bucket of a hash map; equality is by value
#[derive(Clone, PartialEq, Eq)]
struct Collide(i128);
impl Hash for Collide {
    fn hash<H: Hasher>(&self, h: &mut H) { h.write_u8(7); }
}
impl Key for Collide {
    fn mk(k: i128) -> Self { Collide(k) }
}

type Res = Result<Val, CoalesceError<Val>>;

fn run(s: &[i128]) -> Vec<i128> {
    let h = zn(s, 0);
    let f = if h < 0 { 0 } else { h / 100 };
    if (f / 4) % 2 == 1 { run_k::<Collide>(s) } else { run_k::<i128>(s) }
}

fn run_k<K: Key>(s: &[i128]) -> Vec<i128> {
    let h = zn(s, 0);
    let n = if h < 0 { 0 } else { (h % 100) as usize };
    let f = if h < 0 { 0 } else { h / 100 };
    let share = f % 4;
    let via_builder = (f / 8) % 2 == 1;
    let rt = paused_rt();
    rt.block_on(async move {
        let g = GatedInner::new();
        let sh = g.0.clone();
        let ctl = Arc::new(Ctl { call_panic: Mutex::new(vec![false; n]), bomb: Mutex::new(vec![false; n]) });
        let inner = Inner { g, ctl: ctl.clone() };
        let keys: Arc<Mutex<Vec<i128>>> = Arc::new(Mutex::new(vec![0; n]));
        let k2 = keys.clone();
        let extract = move |req: &i128| K::mk(k2.lock().unwrap()[*req as usize]);
        let layer = if via_builder {
            CoalesceLayer::builder(extract).name("c11").build()
        } else {
            CoalesceLayer::new(extract)
        };
        // one CoalesceService (one in-flight map); `share` says through which value(s) the calls go
        let mut base = layer.layer(inner);
        let mut other = base.clone();
        let mut prev = base.clone();
        let mut ncalls = 0usize;
        let mut callers: Vec<Option<Manual<Res>>> = (0..n).map(|_| None).collect();
        let mut called = vec![false; n];
        let mut started = vec![false; n];
        let mut tr = Vec::new();
        for c in s[1.min(s.len())..].chunks(3).filter(|c| c.len() == 3) {
            let (op, a, b) = (c[0], c[1], c[2]);
            if a < 0 || a as usize >= n { continue; }
            let i = a as usize;
            let mut r: i128 = -1;
            let mut val: i128 = -1;
            match op {
                5 | 7 | 8 => {
                    if !called[i] {
                        called[i] = true;
                        keys.lock().unwrap()[i] = b.max(0);
                        ctl.call_panic.lock().unwrap()[i] = op == 7;
                        let mut fresh;
                        let svc = match share {
                            1 => &mut base,
                            2 => { prev = prev.clone(); &mut prev }
                            3 => { if ncalls % 2 == 0 { &mut base } else { &mut other } }
                            _ => { fresh = base.clone(); &mut fresh }
                        };
                        ncalls += 1;
                        futures::future::poll_fn(|cx| svc.poll_ready(cx)).await.ok();
                        REC_ARMED.store(op == 8, Ordering::SeqCst);
                        // a panic in call() is contained the way a task boundary contains it
                        match std::panic::catch_unwind(std::panic::AssertUnwindSafe(|| svc.call(a))) {
                            Ok(fut) => {
                                let mut m = Manual::new(fut);
                                // a finished call future stays alive until the script drops it (late drop)
                                m.keep_done = true;
                                callers[i] = Some(m);
                            }
                            Err(_) => {
                                // 5 = the scripted fault went off (its switch is consumed); 7 = call() panicked on its own
                                let fired = match op {
                                    7 => !ctl.call_panic.lock().unwrap()[i],
                                    8 => !REC_ARMED.load(Ordering::SeqCst),
                                    _ => false,
                                };
                                r = if fired { 5 } else { 7 };
                            }
                        }
                        // a waiter never reaches inner.call(): the switches do not outlive this call
                        ctl.call_panic.lock().unwrap()[i] = false;
                        REC_ARMED.store(false, Ordering::SeqCst);
                    }
                }
                1 => {
                    match callers[i].as_mut() {
                        Some(m) if m.alive() => {
                            let fin = m.poll();
                            r = if !fin { 0 } else if m.panicked { 5 } else {
                                match m.done.take().unwrap() {
                                    Ok(v) => { val = v.v; 1 }
                                    Err(CoalesceError::Service(e)) => { val = e.v; 2 }
                                    Err(CoalesceError::LeaderCancelled) => 3,
                                    Err(CoalesceError::RecvError) => 4,
                                }
                            };
                        }
                        _ => r = 9,
                    }
                }
                2 => {
                    if let Some(m) = callers[i].as_mut() {
                        m.drop_fut();
                        m.flag.0.store(false, std::sync::atomic::Ordering::SeqCst);
                    }
                }
                4 => {
                    sh.complete(a, 0, match b { 0 => Outcome::Ok(a), 1 => Outcome::Err(a), _ => Outcome::Panic });
                }
                6 => {
                    ctl.bomb.lock().unwrap()[i] = true;
                }
                3 => {
                    // one jump (a day would be 86 400 000 single steps); timers that became due fire while settling
                    let ms = b.clamp(0, 10_000_000_000) as u64;
                    VIRT_NS.fetch_add(ms.saturating_mul(1_000_000), Ordering::SeqCst);
                    tokio::time::advance(std::time::Duration::from_millis(ms)).await;
                }
                _ => continue,
            }
            settle().await;
            let mut mask: i128 = 0;
            for (j, c) in callers.iter().enumerate() {
                if let Some(m) = c { if m.alive() && m.woken() { mask += 1i128 << j; } }
            }
            for (req, _) in sh.take_starts() { started[req as usize] = true; }
            let fin = sh.finished.lock().unwrap().clone();
            let drp = sh.dropped.lock().unwrap().clone();
            let mut fl: i128 = 0;
            for j in 0..n {
                let jj = j as i128;
                if started[j] && !fin.contains(&jj) && !drp.contains(&jj) { fl += 1i128 << j; }
            }
            let mut bm: i128 = 0;
            for (j, x) in ctl.bomb.lock().unwrap().iter().enumerate() {
                if *x { bm += 1i128 << j; }
            }
            tr.extend([r, val, mask, fl, bm]);
        }
        tr
    })
}

fn main() {
    metrics::set_global_recorder(Rec).ok();
    main_loop(run);
}
