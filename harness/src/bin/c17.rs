//! C17: fallback. script = [strategy, pred_mode, value, req, inner_kind, inner_val, backup_kind, backup_val]
use std::sync::{Arc, Mutex};
use tower::{Layer, Service};
use tower_resilience_fallback::{FallbackError, FallbackLayer};
use verif_harness::*;

fn fe(e: i128) -> i128 { 1000 + 3 * e }
fn fre(r: i128, e: i128) -> i128 { 2000 + 37 * r + e }
fn fx(e: i128) -> i128 { 5000 + 7 * e }

fn run(s: &[i128]) -> Vec<i128> {
    let (st, pm, v, req) = (zn(s, 0), zn(s, 1), zn(s, 2), zn(s, 3));
    let (ik, iv, bk, bv) = (zn(s, 4), zn(s, 5), zn(s, 6), zn(s, 7));
    let inner_log = Arc::new(Mutex::new(Vec::<i128>::new()));
    let backup_log = Arc::new(Mutex::new(Vec::<i128>::new()));
    let il = inner_log.clone();
    let inner = tower::service_fn(move |r: i128| {
        il.lock().unwrap().push(r);
        async move { if ik == 0 { Ok::<i128, i128>(iv + 11 * r) } else { Err(iv) } }
    });
    let pm_mode = pm % 4;
    let handle_first = pm >= 4;      // builder order: handle() before the strategy setter
    let b = FallbackLayer::<i128, i128, i128>::builder();
    let b = if handle_first {
        match pm_mode {
            0 => b,
            1 => b.handle(|e: &i128| e % 2 == 0),
            2 => b.handle(|_e: &i128| true),
            _ => b.handle(|_e: &i128| false),
        }
    } else { b };
    let b = match st {
        0 => b.value(v),
        1 => b.value_fn(move || v + 1),
        2 => b.from_error(|e: &i128| fe(*e)),
        3 => b.from_request_error(|r: &i128, e: &i128| fre(*r, *e)),
        4 => {
            let bl = backup_log.clone();
            b.service(move |r: i128| {
                bl.lock().unwrap().push(r);
                async move { if bk == 0 { Ok::<i128, i128>(bv + 13 * r) } else { Err(bv) } }
            })
        }
        _ => b.exception(|e: i128| fx(e)),
    };
    let b = if !handle_first {
        match pm_mode {
            0 => b,
            1 => b.handle(|e: &i128| e % 2 == 0),
            2 => b.handle(|_e: &i128| true),
            _ => b.handle(|_e: &i128| false),
        }
    } else { b };
    let layer = b.build();
    let mut svc = layer.layer(inner);
    let rt = paused_rt();
    let out = rt.block_on(async move {
        futures::future::poll_fn(|cx| svc.poll_ready(cx)).await.unwrap();
        svc.call(req).await
    });
    let il = inner_log.lock().unwrap();
    let bl = backup_log.lock().unwrap();
    let mut tr = vec![
        il.len() as i128, il.first().copied().unwrap_or(-1),
        bl.len() as i128, bl.first().copied().unwrap_or(-1),
    ];
    match out {
        Ok(x) => tr.extend([0, x]),
        Err(FallbackError::Inner(e)) => tr.extend([1, e]),
        Err(FallbackError::FallbackFailed(e)) => tr.extend([2, e]),
    }
    tr
}

fn main() { main_loop(run); }
