//! C17: fallback.
//! script = [strategy, pred_mode, value, req, inner_kind, inner_val, backup_kind, backup_val] ++ (op, a, b)*
//!   strategy 0..5 = value, value_fn, from_error, from_request_error, service, exception
//!     (the value_fn generator returns a DIFFERENT value at every invocation: value + 1 + 100 * the call being polled)
//!   pred_mode: bits 0-1 predicate (0 none, 1 even errors, 2 all, 3 none accepted); bit 2: handle() BEFORE the
//!     strategy setter; bits 3..: builder route: +8 name() first, +16 on_event() between the two setters,
//!     +32 name() and on_event() last, +64 a decoy strategy setter before the real one, +128 the convenience
//!     constructor of layer.rs (only when there is no predicate; the other route bits are then ignored),
//!     +256 a decoy handle(the NEGATED predicate) before the real handle() (only when there is a predicate): every
//!     setter is last-wins, so the decoys must leave no trace
//!   ops: 1 CALL (a: 0 the service, 1 a long-lived clone, 2 a fresh clone; b = request) -> new future, not polled
//!        2 POLL a; 3 INNER_DONE (call a, outcome b); 4 BACKUP_DONE (call a, outcome b); 5 DROP a;
//!        6 READY_FAIL (a handle, b error): the inner service's next poll_ready fails with b, poll_ready on handle a
//!        outcome b: b mod 4 = 0 Ok(b div 4), 1 Err(b div 4), 2/3 panic
//!   without ops: CALL req; POLL; INNER_DONE (header outcome); POLL; BACKUP_DONE (header outcome); POLL
//! Futures are polled by hand; the inner and the backup service answer when the script says so. Every closure
//! handed to the layer (predicate, value_fn, from_error, from_request_error, exception, backup, inner) logs its
//! invocation with its arguments, tagged with the call whose future is being polled at that moment.
//! trace = [n_calls; (kind, payload)*; n_ready; (kind, payload)*; n_ops; flag*; n_events; (call, kind, a, b)*]
//!   result kind 0 Ok, 1 Err(Inner), 2 Err(FallbackFailed), 3 panicked, 4 dropped, 5 not finished
//!   event kind 0 inner(req), 1 predicate(e), 2 value_fn, 3 from_error(e), 4 from_request_error(req, e),
//!              5 backup(req), 6 exception(e); call = -1 outside any poll / call()
use std::collections::HashMap;
use std::future::Future;
use std::pin::Pin;
use std::sync::{Arc, Mutex};
use std::task::{Context, Poll};
use tokio::sync::oneshot;
use tower::{Layer, Service};
use tower_resilience_fallback::{FallbackError, FallbackLayer};
use verif_harness::*;

fn fe(e: i128) -> i128 { 1000 + 3 * e }
fn fre(r: i128, e: i128) -> i128 { 2000 + 37 * r + e }
fn fx(e: i128) -> i128 { 5000 + 7 * e }

#[derive(Default)]
struct Shared {
    cur: Mutex<i128>,
    events: Mutex<Vec<[i128; 4]>>,
    inner_tx: Mutex<HashMap<i128, oneshot::Sender<Outcome>>>,
    backup_tx: Mutex<HashMap<i128, oneshot::Sender<Outcome>>>,
    ready_err: Mutex<Option<i128>>,
}

impl Shared {
    fn ev(&self, kind: i128, a: i128, b: i128) {
        let k = *self.cur.lock().unwrap();
        self.events.lock().unwrap().push([k, kind, a, b]);
    }
}

type Fut = Pin<Box<dyn Future<Output = Result<i128, i128>> + Send>>;

fn gated(rx: oneshot::Receiver<Outcome>) -> Fut {
    Box::pin(async move {
        match rx.await {
            Ok(Outcome::Ok(v)) => Ok(v),
            Ok(Outcome::Err(e)) => Err(e),
            Ok(Outcome::Panic) => panic!("scripted panic"),
            Err(_) => std::future::pending().await,
        }
    })
}

#[derive(Clone)]
struct Inner(Arc<Shared>);

impl Service<i128> for Inner {
    type Response = i128;
    type Error = i128;
    type Future = Fut;
    fn poll_ready(&mut self, _cx: &mut Context<'_>) -> Poll<Result<(), i128>> {
        match self.0.ready_err.lock().unwrap().take() {
            Some(e) => Poll::Ready(Err(e)),
            None => Poll::Ready(Ok(())),
        }
    }
    fn call(&mut self, req: i128) -> Fut {
        self.0.ev(0, req, 0);
        let k = *self.0.cur.lock().unwrap();
        let (tx, rx) = oneshot::channel();
        self.0.inner_tx.lock().unwrap().insert(k, tx);
        gated(rx)
    }
}

fn outcome(b: i128) -> Outcome {
    match b.rem_euclid(4) {
        0 => Outcome::Ok(b.div_euclid(4)),
        1 => Outcome::Err(b.div_euclid(4)),
        _ => Outcome::Panic,
    }
}

fn build(s: &[i128], sh: &Arc<Shared>) -> FallbackLayer<i128, i128, i128> {
    let (st, pm, v) = (zn(s, 0), zn(s, 1), zn(s, 2));
    let pm_mode = pm.rem_euclid(4);
    let handle_first = (pm >> 2) & 1 == 1; // builder order: handle() before the strategy setter
    let route = pm >> 3;
    if route & 16 != 0 && pm_mode == 0 {
        // the convenience constructors of layer.rs
        let sh = sh.clone();
        return match st {
            0 => FallbackLayer::value(v),
            1 => FallbackLayer::value_fn(move || { sh.ev(2, 0, 0); v + 1 + 100 * *sh.cur.lock().unwrap() }),
            2 => FallbackLayer::from_error(move |e: &i128| { sh.ev(3, *e, 0); fe(*e) }),
            3 => FallbackLayer::from_request_error(move |r: &i128, e: &i128| { sh.ev(4, *r, *e); fre(*r, *e) }),
            4 => FallbackLayer::service(move |r: i128| {
                sh.ev(5, r, 0);
                let k = *sh.cur.lock().unwrap();
                let (tx, rx) = oneshot::channel();
                sh.backup_tx.lock().unwrap().insert(k, tx);
                gated(rx)
            }),
            _ => FallbackLayer::exception(move |e: i128| { sh.ev(6, e, 0); fx(e) }),
        };
    }
    let b = FallbackLayer::<i128, i128, i128>::builder();
    let b = if route & 1 != 0 { b.name("verif-first") } else { b };
    let with_handle = |b: tower_resilience_fallback::FallbackConfigBuilder<i128, i128, i128>| {
        let (s1, s2, s3) = (sh.clone(), sh.clone(), sh.clone());
        // handle() replaces the predicate given before: the decoy is the negation of the real predicate
        let b = if route & 32 != 0 {
            match pm_mode {
                0 => b,
                1 => b.handle(|e: &i128| e % 2 != 0),
                2 => b.handle(|_e: &i128| false),
                _ => b.handle(|_e: &i128| true),
            }
        } else { b };
        match pm_mode {
            0 => b,
            1 => b.handle(move |e: &i128| { s1.ev(1, *e, 0); e % 2 == 0 }),
            2 => b.handle(move |e: &i128| { s2.ev(1, *e, 0); true }),
            _ => b.handle(move |e: &i128| { s3.ev(1, *e, 0); false }),
        }
    };
    let with_strategy = |b: tower_resilience_fallback::FallbackConfigBuilder<i128, i128, i128>| {
        let sh = sh.clone();
        // a strategy setter replaces the strategy chosen before
        let b = if route & 8 != 0 { if st == 0 { b.value_fn(|| -777) } else { b.value(-777) } } else { b };
        match st {
            0 => b.value(v),
            1 => b.value_fn(move || { sh.ev(2, 0, 0); v + 1 + 100 * *sh.cur.lock().unwrap() }),
            2 => b.from_error(move |e: &i128| { sh.ev(3, *e, 0); fe(*e) }),
            3 => b.from_request_error(move |r: &i128, e: &i128| { sh.ev(4, *r, *e); fre(*r, *e) }),
            4 => b.service(move |r: i128| {
                sh.ev(5, r, 0);
                let k = *sh.cur.lock().unwrap();
                let (tx, rx) = oneshot::channel();
                sh.backup_tx.lock().unwrap().insert(k, tx);
                gated(rx)
            }),
            _ => b.exception(move |e: i128| { sh.ev(6, e, 0); fx(e) }),
        }
    };
    // the listener observes only (C20 covers listeners); it must not change anything here
    let listener = |_e: &tower_resilience_fallback::FallbackEvent| {};
    let b = if handle_first { with_handle(b) } else { with_strategy(b) };
    let b = if route & 2 != 0 { b.on_event(listener) } else { b };
    let b = if handle_first { with_strategy(b) } else { with_handle(b) };
    let b = if route & 4 != 0 { b.name("verif-last").on_event(listener) } else { b };
    b.build()
}

fn run(s: &[i128]) -> Vec<i128> {
    let sh = Arc::new(Shared::default());
    *sh.cur.lock().unwrap() = -1;
    let layer = build(s, &sh);
    let mut svc = layer.layer(Inner(sh.clone()));
    let mut clone = svc.clone();
    let mut ops: Vec<(i128, i128, i128)> = s.get(8..).unwrap_or(&[]).chunks_exact(3).map(|c| (c[0], c[1], c[2])).collect();
    if ops.is_empty() {
        let req = zn(s, 3);
        let io = if zn(s, 4) == 0 { 4 * (zn(s, 5) + 11 * req) } else { 4 * zn(s, 5) + 1 };
        let bo = if zn(s, 6) == 0 { 4 * (zn(s, 7) + 13 * req) } else { 4 * zn(s, 7) + 1 };
        ops = vec![(1, 0, req), (2, 0, 0), (3, 0, io), (2, 0, 0), (4, 0, bo), (2, 0, 0)];
    }
    let rt = paused_rt();
    rt.block_on(async move {
        let mut futs: Vec<Manual<Result<i128, FallbackError<i128>>>> = Vec::new();
        let mut dropped: Vec<bool> = Vec::new();
        let mut ready: Vec<i128> = Vec::new();
        let mut flags: Vec<i128> = Vec::new();
        let w = std::task::Waker::from(Arc::new(Flag(std::sync::atomic::AtomicBool::new(false))));
        for (o, a, b) in ops {
            let valid = a >= 0 && (a as usize) < futs.len();
            let flag = match o {
                1 => {
                    let k = futs.len() as i128;
                    *sh.cur.lock().unwrap() = k;
                    let mut cx = Context::from_waker(&w);
                    let f = match a {
                        0 => { let _ = svc.poll_ready(&mut cx); svc.call(b) }
                        1 => { let _ = clone.poll_ready(&mut cx); clone.call(b) }
                        _ => { let mut c = svc.clone(); let _ = c.poll_ready(&mut cx); c.call(b) }
                    };
                    *sh.cur.lock().unwrap() = -1;
                    futs.push(Manual::new(f));
                    dropped.push(false);
                    true
                }
                2 if valid && futs[a as usize].alive() => {
                    // one POLL = poll, and poll again as long as the future woke itself (a future that yields
                    // once, or completes through a spawned task, is still "polled after the answer")
                    for _ in 0..16 {
                        *sh.cur.lock().unwrap() = a;
                        let done = futs[a as usize].poll();
                        *sh.cur.lock().unwrap() = -1;
                        if done {
                            break;
                        }
                        settle().await;
                        if !futs[a as usize].woken() {
                            break;
                        }
                    }
                    true
                }
                3 if valid => match sh.inner_tx.lock().unwrap().remove(&a) {
                    Some(tx) => { let _ = tx.send(outcome(b)); true }
                    None => false,
                },
                4 if valid => match sh.backup_tx.lock().unwrap().remove(&a) {
                    Some(tx) => { let _ = tx.send(outcome(b)); true }
                    None => false,
                },
                5 if valid && futs[a as usize].alive() => {
                    futs[a as usize].drop_fut();
                    dropped[a as usize] = true;
                    sh.inner_tx.lock().unwrap().remove(&a);
                    sh.backup_tx.lock().unwrap().remove(&a);
                    true
                }
                6 => {
                    *sh.ready_err.lock().unwrap() = Some(b);
                    let mut cx = Context::from_waker(&w);
                    let r = match a {
                        0 => svc.poll_ready(&mut cx),
                        1 => clone.poll_ready(&mut cx),
                        _ => svc.clone().poll_ready(&mut cx),
                    };
                    *sh.ready_err.lock().unwrap() = None;
                    match r {
                        Poll::Ready(Err(FallbackError::Inner(e))) => ready.extend([1, e]),
                        Poll::Ready(Err(FallbackError::FallbackFailed(e))) => ready.extend([2, e]),
                        Poll::Ready(Ok(())) => ready.extend([0, 0]),
                        Poll::Pending => ready.extend([5, 0]),
                    }
                    true
                }
                _ => false,
            };
            flags.push(flag as i128);
            settle().await;
        }
        let mut tr = vec![futs.len() as i128];
        for (m, d) in futs.iter().zip(dropped.iter()) {
            match (&m.done, m.panicked, *d) {
                (Some(Ok(x)), _, _) => tr.extend([0, *x]),
                (Some(Err(FallbackError::Inner(e))), _, _) => tr.extend([1, *e]),
                (Some(Err(FallbackError::FallbackFailed(e))), _, _) => tr.extend([2, *e]),
                (None, true, _) => tr.extend([3, 0]),
                (None, false, true) => tr.extend([4, 0]),
                (None, false, false) => tr.extend([5, 0]),
            }
        }
        tr.push((ready.len() / 2) as i128);
        tr.extend(ready);
        tr.push(flags.len() as i128);
        tr.extend(flags);
        let ev = sh.events.lock().unwrap();
        tr.push(ev.len() as i128);
        for e in ev.iter() {
            tr.extend(e.iter().copied());
        }
        tr
    })
}

fn main() { main_loop(run); }
