//! C14: backoff delays. Script / trace format: see coq/Model/Backoff.v (run_script) and gen/c14.py.
//! script = [kind; initial_ns; multiplier_bits; has_cap; cap_ns; factor_bits; n; attempt x n; (oracle x n: ignored here)]
//! Durations are printed as total nanoseconds (u128), f64 values travel as their u64 bit patterns.
use std::panic::{catch_unwind, AssertUnwindSafe};
use std::sync::atomic::Ordering;
use std::sync::{Arc, Mutex};
use std::time::Duration;
use tower::{Layer, Service};
use tower_resilience_reconnect::{ReconnectConfig, ReconnectLayer, ReconnectPolicy};
use tower_resilience_retry::{
    ExponentialBackoff, ExponentialRandomBackoff, FixedInterval, FnInterval, IntervalFunction,
    RetryLayer, RetryPolicy,
};
use verif_harness::*;

const NANOS: i128 = 1_000_000_000;

fn dur(ns: i128) -> Duration {
    let ns = ns.max(0);
    let secs = (ns / NANOS).min(u64::MAX as i128) as u64;
    Duration::new(secs, (ns % NANOS) as u32)
}
fn ns(d: Duration) -> i128 {
    d.as_nanos() as i128
}
fn f(bits: i128) -> f64 {
    f64::from_bits(bits as u64)
}
fn attempt(a: i128) -> usize {
    a.clamp(0, usize::MAX as i128) as usize
}

#[derive(Debug, Clone)]
struct E;
impl std::fmt::Display for E {
    fn fmt(&self, f: &mut std::fmt::Formatter<'_>) -> std::fmt::Result {
        write!(f, "down")
    }
}
impl std::error::Error for E {}

fn exp_backoff(ini: i128, m: f64, has_cap: bool, cap: i128) -> ExponentialBackoff {
    let b = ExponentialBackoff::new(dur(ini)).multiplier(m);
    if has_cap { b.max_interval(dur(cap)) } else { b }
}

/// one attempt of a non-jittered kind: [panicked; ns]
fn plain(tr: &mut Vec<i128>, g: impl FnOnce() -> i128) {
    match catch_unwind(AssertUnwindSafe(g)) {
        Ok(v) => tr.extend([0, v]),
        Err(_) => tr.extend([1, 0]),
    }
}

/// one attempt of a jittered kind: [panicked; jittered ns; un-jittered base ns]
fn jittered(tr: &mut Vec<i128>, g: impl FnOnce() -> i128, base: impl FnOnce() -> i128) {
    let b = catch_unwind(AssertUnwindSafe(base)).unwrap_or(-1);
    match catch_unwind(AssertUnwindSafe(g)) {
        Ok(v) => tr.extend([0, v, b]),
        Err(_) => tr.extend([1, 0, b]),
    }
}

/// kinds 8/9: one request through the real layer against an inner service that always fails.
/// `mx`: kind 8: 0 = unlimited_attempts, v > 0 = max_attempts(v - 1); kind 9: 0 = max_attempts(n + 1),
/// v > 0 = max_attempts(v). `route`: which public constructor supplies the backoff (see Model/Backoff.v).
#[allow(clippy::too_many_arguments)]
fn end_to_end(kind: i128, ini: i128, m: f64, has_cap: bool, cap: i128, n: usize, step_ms: u64, mx: i128, route: i128) -> Vec<i128> {
    let rt = paused_rt();
    rt.block_on(async move {
        let t0 = now_ns();
        let calls: Arc<Mutex<Vec<i128>>> = Arc::new(Mutex::new(Vec::new()));
        let log = calls.clone();
        let inner = tower::service_fn(move |_r: u32| {
            log.lock().unwrap().push((now_ns() - t0) as i128);
            async move { Err::<u32, E>(E) }
        });
        let mut fut: Manual<bool> = if kind == 8 {
            let mut b = ReconnectConfig::builder();
            if route != 1 {
                b = b.policy(ReconnectPolicy::exponential(dur(ini), dur(cap)));
            }
            b = if mx == 0 { b.unlimited_attempts() } else { b.max_attempts((mx - 1).clamp(0, u32::MAX as i128) as u32) };
            let cfg = b.retry_on_reconnect(true).build();
            let mut svc = ReconnectLayer::new(cfg).layer(inner);
            futures::future::poll_fn(|cx| svc.poll_ready(cx)).await.ok();
            let c = svc.call(7);
            Manual::new(async move { c.await.is_ok() })
        } else {
            let b = RetryLayer::<u32, E>::builder()
                .max_attempts(if mx == 0 { n + 1 } else { attempt(mx) });
            let layer = match route {
                1 => b.exponential_backoff(dur(ini)),
                2 => b,
                _ => b.backoff(exp_backoff(ini, m, has_cap, cap)),
            }
            .build();
            let mut svc = layer.layer(inner);
            futures::future::poll_fn(|cx| svc.poll_ready(cx)).await.ok();
            let c = svc.call(7);
            Manual::new(async move { c.await.is_ok() })
        };
        fut.poll();
        settle().await;
        let mut guard = 0u64;
        while fut.alive() && calls.lock().unwrap().len() < n + 1 && guard < 5_000_000 {
            guard += 1;
            VIRT_NS.fetch_add(step_ms * 1_000_000, Ordering::SeqCst);
            tokio::time::advance(Duration::from_millis(step_ms)).await;
            settle().await;
            fut.poll();
            settle().await;
        }
        let c = calls.lock().unwrap();
        let mut tr = vec![if fut.panicked { 1 } else { 0 }, c.len() as i128];
        tr.extend(c.iter().skip(1).map(|t| t / 1_000_000));
        tr
    })
}

fn run(s: &[i128]) -> Vec<i128> {
    let (kind, ini, m, has_cap, cap, fac) = (zn(s, 0), zn(s, 1), f(zn(s, 2)), zn(s, 3) != 0, zn(s, 4), f(zn(s, 5)));
    let n = zn(s, 6).clamp(0, 1_000_000) as usize;
    let attempts: Vec<usize> = (0..n).map(|i| attempt(zn(s, 7 + i))).collect();
    let mut tr = Vec::new();
    match kind {
        0 => {
            let b = FixedInterval::new(dur(ini));
            for a in attempts { plain(&mut tr, || ns(b.next_interval(a))); }
        }
        1 => {
            let p: RetryPolicy<E> = RetryPolicy::new(Arc::new(exp_backoff(ini, m, has_cap, cap)));
            for a in attempts { plain(&mut tr, || ns(p.next_backoff(a))); }
        }
        2 => {
            // ::new clamps the factor with f64::clamp (NaN passes through)
            let made = catch_unwind(AssertUnwindSafe(|| {
                let b = ExponentialRandomBackoff::new(dur(ini), fac).multiplier(m);
                if has_cap { b.max_interval(dur(cap)) } else { b }
            }));
            let base = exp_backoff(ini, m, has_cap, cap);
            for a in attempts {
                match &made {
                    Ok(b) => jittered(&mut tr, || ns(b.next_interval(a)), || ns(base.next_interval(a))),
                    Err(_) => tr.extend([1, 0, -1]),
                }
            }
        }
        3 => {
            let p = ReconnectPolicy::exponential(dur(ini), dur(cap));
            for a in attempts { plain(&mut tr, || p.delay_for_attempt(a).map(ns).unwrap_or(-1)); }
        }
        4 => {
            let p = ReconnectPolicy::exponential_random(dur(ini), dur(cap), fac);
            let base = ReconnectPolicy::exponential(dur(ini), dur(cap));
            for a in attempts {
                jittered(&mut tr, || p.delay_for_attempt(a).map(ns).unwrap_or(-1),
                         || base.delay_for_attempt(a).map(ns).unwrap_or(-1));
            }
        }
        5 => {
            let p = ReconnectPolicy::fixed(dur(ini));
            for a in attempts { plain(&mut tr, || p.delay_for_attempt(a).map(ns).unwrap_or(-1)); }
        }
        6 => {
            let p = ReconnectPolicy::none();
            for a in attempts { plain(&mut tr, || p.delay_for_attempt(a).map(ns).unwrap_or(-1)); }
        }
        7 => {
            let g = move |a: usize| dur(ini + (a % 1000) as i128);
            let p: RetryPolicy<E> = RetryPolicy::new(Arc::new(FnInterval::new(g)));
            let c = ReconnectPolicy::Custom(Arc::new(FnInterval::new(g)));
            for a in attempts {
                plain(&mut tr, || ns(p.next_backoff(a)));
                plain(&mut tr, || c.delay_for_attempt(a).map(ns).unwrap_or(-1));
            }
        }
        8 | 9 => {
            let n = zn(s, 7).clamp(0, 1_000_000) as usize;
            let step_ms = zn(s, 8).clamp(1, 86_400_000) as u64;
            tr = end_to_end(kind, ini, m, has_cap, cap, n, step_ms, zn(s, 9), zn(s, 10));
        }
        _ => {}
    }
    tr
}

fn main() { main_loop(run); }
