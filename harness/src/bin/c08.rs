//! C08: retry budgets under a baton scheduler over the instrumented atomics.
//!
//! script = [kind, p0..p5, npre, (code arg)*, nthreads, {ncalls, (code arg)*}*, nsched, entry*]
//!   kind 0 token bucket : p0 = max_tokens, p1 = initial_tokens
//!   kind 1 AIMD budget  : p0 = min_budget, p1 = max_budget, p2 = deposit_amount,
//!                         p3 = withdraw_amount, p4/p5 = decrease factor (as f64 p4 / p5)
//!   kind 2 / 3          : the same two budgets built by RetryBudgetBuilder and used through
//!                         Arc<dyn RetryBudget> (kind 2: p2 = 1 leaves initial_tokens unset;
//!                         no current_max(): call code 3 reads the balance, snapshot ceiling 0)
//!   call codes: 0 try_withdraw (-> 0/1), 1 deposit (-> 2), 2 balance() (-> value),
//!               3 current_max() (AIMD only; token bucket: balance())
//!   the prelude runs sequentially on the main thread before the workers start;
//!   every schedule entry lets the named worker perform exactly ONE atomic operation
//!   (entries naming a finished or unknown worker are skipped); afterwards worker 0 runs
//!   to completion, then worker 1, ...
//! trace = return values of the prelude calls, then per entry [op (0 skipped,1 load,2 store,3 cas,4 rmw), return value of the call
//!         completed by this operation or -1, balance(), ceiling]
//!         then per worker [atomic steps, return value of every call], then [balance(), ceiling]
use std::cell::Cell;
use std::sync::{Arc, Condvar, Mutex};
use tower_resilience_retry::{AimdBudget, RetryBudget, RetryBudgetBuilder, TokenBucketBudget};
use verif_harness::*;

// ---------------------------------------------------------------------------
// baton scheduler
thread_local! { static TID: Cell<usize> = const { Cell::new(usize::MAX) }; }

struct Sched {
    granted: Option<usize>,
    waiting: Vec<bool>,
    finished: Vec<bool>,
    steps: Vec<i128>,
    last_op: i128,
    /// return values of the completed calls, per worker
    results: Vec<Vec<i128>>,
}
static SCHED: Mutex<Sched> = Mutex::new(Sched {
    granted: None,
    waiting: Vec::new(),
    finished: Vec::new(),
    steps: Vec::new(),
    last_op: 0,
    results: Vec::new(),
});
static CV: Condvar = Condvar::new();
/// set when a worker completed a call without a single scheduled atomic step
static UNSCHEDULED: std::sync::atomic::AtomicBool = std::sync::atomic::AtomicBool::new(false);

fn lock() -> std::sync::MutexGuard<'static, Sched> {
    SCHED.lock().unwrap_or_else(|e| e.into_inner())
}

/// Called by the instrumented atomics before every atomic operation.
fn hook(op: &'static str) {
    let me = TID.with(|t| t.get());
    if me == usize::MAX {
        return; // scheduler / prelude thread: not scheduled
    }
    let mut g = lock();
    g.waiting[me] = true;
    CV.notify_all();
    while g.granted != Some(me) {
        g = CV.wait(g).unwrap_or_else(|e| e.into_inner());
    }
    g.granted = None;
    g.waiting[me] = false;
    g.steps[me] += 1;
    g.last_op = match op {
        "load" => 1,
        "store" => 2,
        "cas" => 3,
        "rmw" => 4,
        _ => 9,
    };
}

/// Let worker `t` perform one atomic operation; returns (its kind (0 = skipped), the return
/// value of the call that completed with this operation or -1).
fn grant(t: usize) -> (i128, i128) {
    let mut g = lock();
    if t >= g.finished.len() {
        return (0, -1);
    }
    while !(g.waiting[t] || g.finished[t]) {
        g = CV.wait(g).unwrap_or_else(|e| e.into_inner());
    }
    if g.finished[t] {
        return (0, -1);
    }
    let before = g.results[t].len();
    g.granted = Some(t);
    CV.notify_all();
    while !(g.granted.is_none() && (g.waiting[t] || g.finished[t])) {
        g = CV.wait(g).unwrap_or_else(|e| e.into_inner());
    }
    let done = if g.results[t].len() > before { g.results[t][before] } else { -1 };
    (g.last_op, done)
}

fn is_finished(t: usize) -> bool {
    let mut g = lock();
    while !(g.waiting[t] || g.finished[t]) {
        g = CV.wait(g).unwrap_or_else(|e| e.into_inner());
    }
    g.finished[t]
}

struct Finish(usize);
impl Drop for Finish {
    fn drop(&mut self) {
        let mut g = lock();
        g.finished[self.0] = true;
        CV.notify_all();
    }
}

/// Runs `progs[i]` on worker i over the shared object; `call` performs one API call.
/// Returns (per-entry [op, completed, snapshot..], per-worker results, per-worker steps).
fn run_threads<O: Sync + ?Sized>(
    obj: &O,
    progs: &[Vec<(i128, i128)>],
    sched: &[i128],
    call: &(dyn Fn(&O, (i128, i128)) -> i128 + Sync),
    snap: &dyn Fn(&O) -> Vec<i128>,
) -> (Vec<i128>, Vec<Vec<i128>>, Vec<i128>) {
    let n = progs.len();
    {
        let mut g = lock();
        g.granted = None;
        g.waiting = vec![false; n];
        g.finished = vec![false; n];
        g.steps = vec![0; n];
        g.last_op = 0;
        g.results = vec![Vec::new(); n];
    }
    let mut per_entry = Vec::new();
    std::thread::scope(|sc| {
        for i in 0..n {
            let prog = &progs[i];
            sc.spawn(move || {
                TID.with(|t| t.set(i));
                let _fin = Finish(i);
                for c in prog {
                    let s0 = lock().steps[i];
                    let r = std::panic::catch_unwind(std::panic::AssertUnwindSafe(|| call(obj, *c)));
                    let mut g = lock();
                    if r.is_ok() && g.steps[i] == s0 {
                        // every API call performs at least one atomic operation: this one never reached
                        // the scheduler, so the code under test does not use the instrumented atomics
                        UNSCHEDULED.store(true, std::sync::atomic::Ordering::SeqCst);
                    }
                    g.results[i].push(r.unwrap_or(-777));
                }
            });
        }
        for e in sched {
            // virtual time passes between the atomic steps (1 s each): the budgets have no
            // time-based refill, the model has no clock, so time must not show in the trace
            VIRT_NS.fetch_add(1_000_000_000, std::sync::atomic::Ordering::SeqCst);
            let (op, done) = if *e < 0 { (0, -1) } else { grant(*e as usize) };
            per_entry.extend([op, done]);
            per_entry.extend(snap(obj));
        }
        for t in 0..n {
            while !is_finished(t) {
                grant(t);
            }
        }
    });
    let g = lock();
    (per_entry, g.results.clone(), g.steps.clone())
}

// ---------------------------------------------------------------------------
fn take_pairs(s: &[i128], pos: &mut usize, n: i128) -> Vec<(i128, i128)> {
    let mut v = Vec::new();
    for _ in 0..n.max(0) {
        if *pos + 1 < s.len() {
            v.push((s[*pos], s[*pos + 1]));
            *pos += 2;
        } else {
            break;
        }
    }
    v
}

fn run(s: &[i128]) -> Vec<i128> {
    let kind = zn(s, 0);
    let p: Vec<i128> = (1..7).map(|i| zn(s, i)).collect();
    let mut pos = 7usize;
    let npre = zn(s, pos);
    pos += 1;
    let pre = take_pairs(s, &mut pos, npre);
    let nthreads = zn(s, pos).max(0) as usize;
    pos += 1;
    let mut progs = Vec::new();
    for _ in 0..nthreads {
        let nc = zn(s, pos);
        pos += 1;
        progs.push(take_pairs(s, &mut pos, nc));
    }
    let nsched = zn(s, pos).max(0) as usize;
    pos += 1;
    let sched: Vec<i128> = (0..nsched).filter_map(|i| s.get(pos + i).copied()).collect();

    // kinds 2 / 3: the same budgets built by RetryBudgetBuilder, used through Arc<dyn RetryBudget>
    // (no current_max() there: call code 3 reads the balance, the snapshot's ceiling is 0)
    match kind {
        0 => {
            let b = TokenBucketBudget::new(10.0, p[0] as usize, p[1] as usize);
            run_budget(&b, &pre, &progs, &sched, &|b: &TokenBucketBudget| b.balance() as i128, &|_| 0)
        }
        2 => {
            let mut bld = RetryBudgetBuilder::new().token_bucket().tokens_per_second(10.0).max_tokens(p[0] as usize);
            if p[2] != 1 {
                bld = bld.initial_tokens(p[1] as usize);
            }
            let b: Arc<dyn RetryBudget> = bld.build();
            run_budget(&*b, &pre, &progs, &sched, &|b: &(dyn RetryBudget + 'static)| b.balance() as i128, &|_| 0)
        }
        3 => {
            let factor = if p[5] == 0 { 0.0 } else { p[4] as f64 / p[5] as f64 };
            // p0 < 0: min_budget is left unset (the builder's default floor)
            let mut bld = RetryBudgetBuilder::new().aimd();
            if p[0] >= 0 {
                bld = bld.min_budget(p[0] as usize);
            }
            let b: Arc<dyn RetryBudget> = bld
                .max_budget(p[1] as usize)
                .deposit_amount(p[2] as usize)
                .withdraw_amount(p[3] as usize)
                .decrease_factor(factor)
                .build();
            run_budget(&*b, &pre, &progs, &sched, &|b: &(dyn RetryBudget + 'static)| b.balance() as i128, &|_| 0)
        }
        _ => {
            let factor = if p[5] == 0 { 0.0 } else { p[4] as f64 / p[5] as f64 };
            let b = AimdBudget::new(p[0] as usize, p[1] as usize, p[2] as usize, p[3] as usize, factor);
            run_budget(&b, &pre, &progs, &sched, &|b: &AimdBudget| b.current_max() as i128, &|b: &AimdBudget| {
                b.current_max() as i128
            })
        }
    }
}

/// prelude on the main thread, the scheduled part, the drain; `cur_max` answers call code 3,
/// `ceiling` is the second word of every snapshot
fn run_budget<B: RetryBudget + ?Sized>(
    b: &B,
    pre: &[(i128, i128)],
    progs: &[Vec<(i128, i128)>],
    sched: &[i128],
    cur_max: &(dyn Fn(&B) -> i128 + Sync),
    ceiling: &(dyn Fn(&B) -> i128 + Sync),
) -> Vec<i128> {
    let call = |b: &B, c: (i128, i128)| -> i128 {
        match c.0 {
            0 => b.try_withdraw() as i128,
            1 => {
                b.deposit();
                2
            }
            3 => cur_max(b),
            _ => b.balance() as i128,
        }
    };
    // one hour of virtual time between construction and the first call
    VIRT_NS.fetch_add(3_600_000_000_000, std::sync::atomic::Ordering::SeqCst);
    let mut tr: Vec<i128> = pre.iter().map(|c| call(b, *c)).collect();
    VIRT_NS.fetch_add(3_600_000_000_000, std::sync::atomic::Ordering::SeqCst);
    let (entries, results, steps) =
        run_threads(b, progs, sched, &call, &|b: &B| vec![b.balance() as i128, ceiling(b)]);
    tr.extend(entries);
    for (i, rs) in results.iter().enumerate() {
        tr.push(steps[i]);
        tr.extend(rs);
    }
    tr.extend([b.balance() as i128, ceiling(b)]);
    tr
}

/// A tree whose budget code does not go through the instrumented atomics (e.g. `use core::sync::atomic`)
/// cannot be scheduled: its workers run their calls at once, unobserved. The driver says so ([-5]) instead of
/// printing a trace whose step/response instants mean nothing.
fn run_checked(s: &[i128]) -> Vec<i128> {
    UNSCHEDULED.store(false, std::sync::atomic::Ordering::SeqCst);
    let tr = run(s);
    if UNSCHEDULED.load(std::sync::atomic::Ordering::SeqCst) {
        vec![-5]
    } else {
        tr
    }
}

fn main() {
    tower_resilience_core::verif::set_hook(hook);
    // wall-clock time is virtual too: a refill keyed on SystemTime must show like one keyed on Instant
    VIRT_REALTIME.store(true, std::sync::atomic::Ordering::SeqCst);
    main_loop(run_checked);
}
