//! C18: health check wrapper + selection.
//! script = [n_res; failure_threshold; success_threshold; interval_ms; timeout_ms; initial_delay_ms;
//!           strategy + 16 * route,
//!             strategy (mod 16): 0 FirstAvailable, 1 RoundRobin, 2 PreferHealthy, 3 Custom: last healthy,
//!                     4 Custom: always Some(1), 5 Custom: always None, 6 Random (crate feature `random`),
//!                     7.. Custom: always None;
//!             route (div 16, mod 4): how the configuration reaches the wrapper:
//!                     0 the wrapper builder's setters, 1 HealthCheckConfig::builder()...build() + with_config,
//!                     2 with_config(decoy values) then every setter, 3 every setter with decoy values then
//!                     with_config(the real values);
//!           R (scripted checks per resource); n_ev;
//!             + 64: the registered on_check_failed panics (after recording its call), + 128: the registered
//!               on_health_change panics (after recording), + 256: those panics carry a payload whose destructor
//!               panics (routes 1-3 only: route 0 cannot register the callbacks);
//!           (status 0 Healthy/1 Degraded/2 Unhealthy/3 Unknown, delay_ms)* R per resource, resource-major;
//!           (op, arg)* n_ev]
//!   op 0: advance arg ms of virtual time, then observe every resource
//!   op 1: call get_healthy() arg times     op 2: call get_usable() arg times
//! The k-th check of resource i answers with the scripted status after sleeping delay_ms (a delay
//! above the check timeout makes the wrapper time the check out); beyond R checks: Healthy at once.
//! trace: per op 0: for each resource [status (get_health_details; +100 if get_status(name) disagrees,
//!        +200 if get_all_statuses disagrees, +400 if the on_health_change callbacks (crate feature `tracing`;
//!        registered on routes 1-3, the wrapper builder of route 0 has no setter for them) do not replay to that
//!        status: every callback has old != new, old = the previous callback's new (Unknown at first), the last
//!        new = the published status; +800 if on_check_failed was not called exactly once per timed-out check),
//!        consecutive_failures, consecutive_successes, checks started, checks finished];
//!        per op 1/2: arg ints, the selected resource id or -1.
use std::sync::atomic::{AtomicUsize, Ordering};
use std::sync::{Arc, Mutex};
use std::time::Duration;
use tower_resilience_core::HealthTriggerable;
use tower_resilience_healthcheck::{
    HealthCheckConfig, HealthCheckConfigBuilder, HealthCheckWrapper, HealthChecker, HealthStatus,
    SelectionStrategy,
};
use verif_harness::*;

struct Shared {
    table: Vec<Vec<(i128, i128)>>,
    started: Mutex<Vec<i128>>,
    finished: Mutex<Vec<i128>>,
    // crate features `tracing` / `triggers`: what the callbacks reported
    last_new: Mutex<Vec<i128>>,      // per resource: `new` of the last on_health_change (3 = Unknown before any)
    chain_broken: Mutex<Vec<bool>>,  // per resource: a callback with old == new or old != previous new
    check_failed: Mutex<Vec<i128>>,  // per resource: on_check_failed calls
    trigger_calls: AtomicUsize,
}

struct CountingTrigger(Arc<Shared>);
impl HealthTriggerable for CountingTrigger {
    fn trigger_unhealthy(&self) {
        self.0.trigger_calls.fetch_add(1, Ordering::SeqCst);
    }
    fn trigger_healthy(&self) {
        self.0.trigger_calls.fetch_add(1, Ordering::SeqCst);
    }
    fn trigger_degraded(&self) {
        self.0.trigger_calls.fetch_add(1, Ordering::SeqCst);
    }
}

/// a panic payload whose destructor panics
struct Bomb;
impl Drop for Bomb {
    fn drop(&mut self) {
        if !std::thread::panicking() {
            panic!("payload destructor");
        }
    }
}
fn blow(bomb: bool) -> ! {
    if bomb {
        std::panic::panic_any(Bomb)
    } else {
        panic!("callback")
    }
}

fn idx_of(name: &str) -> usize {
    name[1..].parse().unwrap_or(usize::MAX)
}

struct Scripted(Arc<Shared>);

struct Fin(Arc<Shared>, usize);
impl Drop for Fin {
    fn drop(&mut self) {
        self.0.finished.lock().unwrap()[self.1] += 1;
    }
}

fn st_of(c: i128) -> HealthStatus {
    match c {
        0 => HealthStatus::Healthy,
        1 => HealthStatus::Degraded,
        2 => HealthStatus::Unhealthy,
        _ => HealthStatus::Unknown,
    }
}
fn code(s: HealthStatus) -> i128 {
    match s {
        HealthStatus::Healthy => 0,
        HealthStatus::Degraded => 1,
        HealthStatus::Unhealthy => 2,
        HealthStatus::Unknown => 3,
    }
}

impl HealthChecker<i128> for Scripted {
    async fn check(&self, resource: &i128) -> HealthStatus {
        let i = *resource as usize;
        let sh = self.0.clone();
        let k = {
            let mut s = sh.started.lock().unwrap();
            let k = s[i];
            s[i] += 1;
            k as usize
        };
        let _fin = Fin(sh.clone(), i);
        let (st, delay) = sh.table[i].get(k).copied().unwrap_or((0, 0));
        if delay > 0 {
            tokio::time::sleep(Duration::from_millis(delay as u64)).await;
        }
        st_of(st)
    }
}

fn run(s: &[i128]) -> Vec<i128> {
    let n = zn(s, 0).max(0) as usize;
    let (ft, stt) = (zn(s, 1) as u32, zn(s, 2) as u32);
    let (interval, timeout, init) = (zn(s, 3) as u64, zn(s, 4) as u64, zn(s, 5) as u64);
    let strat = zn(s, 6).rem_euclid(16);
    let route = zn(s, 6).div_euclid(16).rem_euclid(4);
    let flags = zn(s, 6).div_euclid(64);
    let (failed_panics, change_panics, bomb) = (flags & 1 != 0, flags & 2 != 0, flags & 4 != 0);
    let r = zn(s, 7).max(0) as usize;
    let n_ev = zn(s, 8).max(0) as usize;
    let mut table = Vec::new();
    for i in 0..n {
        table.push((0..r).map(|k| (zn(s, 9 + 2 * (i * r + k)), zn(s, 9 + 2 * (i * r + k) + 1))).collect::<Vec<_>>());
    }
    let evs: Vec<(i128, i128)> =
        (0..n_ev).map(|j| (zn(s, 9 + 2 * n * r + 2 * j), zn(s, 9 + 2 * n * r + 2 * j + 1))).collect();
    let sh = Arc::new(Shared {
        table,
        started: Mutex::new(vec![0; n]),
        finished: Mutex::new(vec![0; n]),
        last_new: Mutex::new(vec![3; n]),
        chain_broken: Mutex::new(vec![false; n]),
        check_failed: Mutex::new(vec![0; n]),
        trigger_calls: AtomicUsize::new(0),
    });
    let rt = paused_rt();
    rt.block_on(async move {
        let strategy = match strat {
            0 => SelectionStrategy::FirstAvailable,
            1 => SelectionStrategy::RoundRobin,
            2 => SelectionStrategy::PreferHealthy,
            3 => SelectionStrategy::Custom(Arc::new(|st: &[HealthStatus]| {
                st.iter().enumerate().filter(|(_, s)| s.is_healthy()).next_back().map(|(i, _)| i)
            })),
            4 => SelectionStrategy::Custom(Arc::new(|_st: &[HealthStatus]| Some(1))),
            6 => SelectionStrategy::Random,
            _ => SelectionStrategy::Custom(Arc::new(|_st: &[HealthStatus]| None)),
        };
        let mut b = HealthCheckWrapper::<i128, Scripted>::builder();
        for i in 0..n {
            b = b.with_context(i as i128, format!("r{}", i));
        }
        let b = b.with_checker(Scripted(sh.clone()));
        let ms = Duration::from_millis;
        // a config builder carrying the recording callbacks (feature `tracing`) and a trigger (feature `triggers`)
        let cfgb = || -> HealthCheckConfigBuilder {
            let (s1, s2) = (sh.clone(), sh.clone());
            HealthCheckConfig::builder()
                .on_health_change(move |name: &str, old: HealthStatus, new: HealthStatus| {
                    let i = idx_of(name);
                    let mut last = s1.last_new.lock().unwrap();
                    if i >= last.len() || old == new || last[i] != code(old) {
                        let mut b = s1.chain_broken.lock().unwrap();
                        if i < b.len() {
                            b[i] = true;
                        }
                    }
                    if i < last.len() {
                        last[i] = code(new);
                    }
                    drop(last);
                    if change_panics {
                        blow(bomb);
                    }
                })
                .on_check_failed(move |name: &str, _e: &dyn std::error::Error| {
                    let i = idx_of(name);
                    let mut f = s2.check_failed.lock().unwrap();
                    if i < f.len() {
                        f[i] += 1;
                    }
                    drop(f);
                    if failed_panics {
                        blow(bomb);
                    }
                })
                .with_trigger(Arc::new(CountingTrigger(sh.clone())))
        };
        // values that differ from the scripted ones and from the defaults in every field
        let decoy = || {
            cfgb()
                .interval(ms(interval + 3))
                .timeout(ms(timeout + 2))
                .initial_delay(ms(init + 1))
                .failure_threshold(ft.wrapping_add(3))
                .success_threshold(stt.wrapping_add(2))
                .selection_strategy(SelectionStrategy::Custom(Arc::new(|_st: &[HealthStatus]| Some(0))))
                .build()
        };
        let w = match route {
            0 => b
                .with_trigger(Arc::new(CountingTrigger(sh.clone())))
                .with_interval(ms(interval))
                .with_timeout(ms(timeout))
                .with_initial_delay(ms(init))
                .with_failure_threshold(ft)
                .with_success_threshold(stt)
                .with_selection_strategy(strategy)
                .build(),
            1 => b
                .with_config(
                    cfgb()
                        .interval(ms(interval))
                        .timeout(ms(timeout))
                        .initial_delay(ms(init))
                        .failure_threshold(ft)
                        .success_threshold(stt)
                        .selection_strategy(strategy)
                        .build(),
                )
                .build(),
            2 => b
                .with_config(decoy())
                .with_selection_strategy(strategy)
                .with_success_threshold(stt)
                .with_failure_threshold(ft)
                .with_initial_delay(ms(init))
                .with_timeout(ms(timeout))
                .with_interval(ms(interval))
                .build(),
            _ => {
                let d = decoy();
                b.with_interval(d.interval())
                    .with_timeout(d.timeout())
                    .with_initial_delay(d.initial_delay())
                    .with_failure_threshold(d.failure_threshold())
                    .with_success_threshold(d.success_threshold())
                    .with_selection_strategy(SelectionStrategy::Custom(Arc::new(|_st: &[HealthStatus]| Some(0))))
                    .with_config(
                        cfgb()
                            .interval(ms(interval))
                            .timeout(ms(timeout))
                            .initial_delay(ms(init))
                            .failure_threshold(ft)
                            .success_threshold(stt)
                            .selection_strategy(strategy)
                            .build(),
                    )
                    .build()
            }
        };
        w.start().await;
        settle().await;
        let mut tr = Vec::new();
        for (op, arg) in evs {
            match op {
                0 => {
                    for _ in 0..arg.max(0) {
                        advance_ms(1).await;
                        settle().await;
                        settle().await;
                    }
                    settle().await;
                    let det = w.get_health_details().await;
                    let all = w.get_all_statuses().await;
                    for (i, d) in det.iter().enumerate() {
                        let by_name = w.get_status(&format!("r{}", i)).await;
                        let mut c = code(d.status);
                        if by_name != Some(d.status) || d.name != format!("r{}", i) {
                            c += 100;
                        }
                        if all.get(i) != Some(&(format!("r{}", i), d.status)) || all.len() != det.len() {
                            c += 200;
                        }
                        if route != 0 {
                            if sh.chain_broken.lock().unwrap()[i] || sh.last_new.lock().unwrap()[i] != code(d.status) {
                                c += 400;
                            }
                            let fin = sh.finished.lock().unwrap()[i] as usize;
                            let timed_out = (0..fin)
                                .filter(|&k| {
                                    let (_, dl) = sh.table[i].get(k).copied().unwrap_or((0, 0));
                                    dl > 0 && dl > timeout as i128
                                })
                                .count() as i128;
                            if sh.check_failed.lock().unwrap()[i] != timed_out {
                                c += 800;
                            }
                        }
                        tr.extend([
                            c,
                            d.consecutive_failures as i128,
                            d.consecutive_successes as i128,
                            sh.started.lock().unwrap()[i],
                            sh.finished.lock().unwrap()[i],
                        ]);
                    }
                }
                1 | 2 => {
                    for _ in 0..arg.max(0) {
                        let got = if op == 1 { w.get_healthy().await } else { w.get_usable().await };
                        tr.push(got.unwrap_or(-1));
                    }
                    settle().await;
                }
                _ => {}
            }
        }
        w.stop().await;
        settle().await;
        tr
    })
}

fn main() {
    main_loop(run);
}
