//! C13: adaptive concurrency limiter.
//!
//! kinds 1..3 (algorithms under the baton scheduler over the instrumented atomics):
//!   script = [kind, p0..p6, npre, (code arg)*, nthreads, {ncalls, (code arg)*}*, nsched, entry*]
//!   1 AimdController: initial min max increase_by dec_num dec_den _ ;
//!       calls 0 record_success, 1 record_failure, 2 record_successes(arg), 3 limit()
//!   2 Aimd: ... p6 = latency threshold (ns);
//!       calls 0 record_success(arg ns), 1 record_failure, 3 limit()
//!   3 Vegas: initial min max alpha beta;
//!       calls 0 record_success(arg ns), 1 record_failure, 3 limit()
//!   trace = return values of the prelude calls, then per entry [op (0 skipped,1 load,2 store,3 cas,4 rmw), return value of the call
//!           completed by this operation or -1, limit()], per worker [atomic steps, return values
//!           (updates 2, limit() the value)], [limit()]
//! kind 5 (clones of one AdaptiveService<_, Aimd> on worker threads, under the baton scheduler; needs the
//!   service's own atomics (in_flight, current_limit) to be instrumented -- /repo hook in service.rs;
//!   without it the trace is [-5]):
//!   script = [5, initial, min, max, increase_by, dec_num, dec_den, 0, threads as in kinds 1..3]
//!   calls 0 poll_ready (-> 11 Ready / 13 Pending), 1 call, future kept in the worker's slot arg (-> 20),
//!         2 finish the future in slot arg/10: arg%10 = 0 ok / 1 err (outcome sent, polled to completion
//!           -> 31 / 32), 2 the inner future panics (-> 35), 3 dropped unpolled (-> 50),
//!         3 call with a panicking inner.call() (-> 26)
//!   trace = prelude results, per entry [op, completed call's result or -1, in_flight(), limit()],
//!           per worker [atomic steps, results], [in_flight(), limit()]
//! kinds 6 / 7 / 8: the events of kind 4 on AdaptiveService<_, Vegas> (6: Vegas::new; script
//!   [6, initial, min, max, alpha, beta, 0, 0, ...]), on the Algorithm enum around a builder-made Aimd (7)
//!   or Vegas (8), the service made by AdaptiveLimiterLayer::layer
//! kind 4 (AdaptiveService<_, Aimd> over a gated inner service, hand-polled futures):
//!   script = [4, initial, min, max, increase_by, dec_num, dec_den, threshold_ms, (op a b)*]
//!   op 1 poll_ready | 2 call a | 3 poll a | 4 complete a b (0 ok 1 err 2 panic) | 5 drop a
//!      | 6 advance a ms | 7 inner readiness a (0 ready 1 pending 2 error)
//!      | 8 call a while the inner service's call() panics
//!      | 9 svc.algorithm().record_failure() | 10 svc.algorithm().record_success(0)
//!      | 11 poll_ready by parked caller a (its own clone of the service, its own waker, kept)
//!      | 12 has caller a's waker been woken since its last check? (91 / 90) | 13 caller a goes away (92)
//!   trace = per event [code, in_flight(), limit()], then (all live futures dropped, inner ready)
//!           [probe poll_ready code, in_flight(), limit()]; codes as in Model/Adaptive.v sv_step
use std::cell::Cell;
use std::future::Future;
use std::pin::Pin;
use std::sync::atomic::{AtomicBool, AtomicI64, AtomicUsize, Ordering};
use std::sync::{Arc, Condvar, Mutex};
use std::task::{Context, Poll, Waker};
use std::time::Duration;
use tower::Service;
use tower::Layer;
use tower_resilience_adaptive::{
    AdaptiveError, AdaptiveLimiterLayer, AdaptiveService, Aimd, Algorithm, ConcurrencyAlgorithm, Vegas,
};
use tower_resilience_core::aimd::{AimdConfig, AimdController};
use verif_harness::*;

// ---------------------------------------------------------------------------
// baton scheduler
thread_local! { static TID: Cell<usize> = const { Cell::new(usize::MAX) }; }

struct Sched {
    granted: Option<usize>,
    waiting: Vec<bool>,
    finished: Vec<bool>,
    steps: Vec<i128>,
    last_op: i128,
    /// return values of the completed calls, per worker
    results: Vec<Vec<i128>>,
}
static SCHED: Mutex<Sched> = Mutex::new(Sched {
    granted: None,
    waiting: Vec::new(),
    finished: Vec::new(),
    steps: Vec::new(),
    last_op: 0,
    results: Vec::new(),
});
static CV: Condvar = Condvar::new();
/// set when a worker completed a call without a single scheduled atomic step
static UNSCHEDULED: std::sync::atomic::AtomicBool = std::sync::atomic::AtomicBool::new(false);

fn lock() -> std::sync::MutexGuard<'static, Sched> {
    SCHED.lock().unwrap_or_else(|e| e.into_inner())
}

/// every instrumented atomic operation, whichever thread performs it
static HOOK_COUNT: AtomicUsize = AtomicUsize::new(0);

/// Called by the instrumented atomics before every atomic operation.
fn hook(op: &'static str) {
    HOOK_COUNT.fetch_add(1, Ordering::SeqCst);
    let me = TID.with(|t| t.get());
    if me == usize::MAX {
        return; // scheduler / prelude thread: not scheduled
    }
    let mut g = lock();
    g.waiting[me] = true;
    CV.notify_all();
    while g.granted != Some(me) {
        g = CV.wait(g).unwrap_or_else(|e| e.into_inner());
    }
    g.granted = None;
    g.waiting[me] = false;
    g.steps[me] += 1;
    g.last_op = match op {
        "load" => 1,
        "store" => 2,
        "cas" => 3,
        "rmw" => 4,
        _ => 9,
    };
}

/// Let worker `t` perform one atomic operation; returns (its kind (0 = skipped), the return
/// value of the call that completed with this operation or -1).
fn grant(t: usize) -> (i128, i128) {
    let mut g = lock();
    if t >= g.finished.len() {
        return (0, -1);
    }
    while !(g.waiting[t] || g.finished[t]) {
        g = CV.wait(g).unwrap_or_else(|e| e.into_inner());
    }
    if g.finished[t] {
        return (0, -1);
    }
    let before = g.results[t].len();
    g.granted = Some(t);
    CV.notify_all();
    while !(g.granted.is_none() && (g.waiting[t] || g.finished[t])) {
        g = CV.wait(g).unwrap_or_else(|e| e.into_inner());
    }
    let done = if g.results[t].len() > before { g.results[t][before] } else { -1 };
    (g.last_op, done)
}

fn is_finished(t: usize) -> bool {
    let mut g = lock();
    while !(g.waiting[t] || g.finished[t]) {
        g = CV.wait(g).unwrap_or_else(|e| e.into_inner());
    }
    g.finished[t]
}

struct Finish(usize);
impl Drop for Finish {
    fn drop(&mut self) {
        let mut g = lock();
        g.finished[self.0] = true;
        CV.notify_all();
    }
}

/// Runs `progs[i]` on worker i over the shared object; `call` performs one API call.
/// Returns (per-entry [op, completed, snapshot..], per-worker results, per-worker steps).
fn run_threads<O: Sync>(
    obj: &O,
    progs: &[Vec<(i128, i128)>],
    sched: &[i128],
    call: &(dyn Fn(&O, (i128, i128)) -> i128 + Sync),
    snap: &dyn Fn(&O) -> Vec<i128>,
) -> (Vec<i128>, Vec<Vec<i128>>, Vec<i128>) {
    let n = progs.len();
    {
        let mut g = lock();
        g.granted = None;
        g.waiting = vec![false; n];
        g.finished = vec![false; n];
        g.steps = vec![0; n];
        g.last_op = 0;
        g.results = vec![Vec::new(); n];
    }
    let mut per_entry = Vec::new();
    std::thread::scope(|sc| {
        for i in 0..n {
            let prog = &progs[i];
            sc.spawn(move || {
                TID.with(|t| t.set(i));
                let _fin = Finish(i);
                for c in prog {
                    let s0 = lock().steps[i];
                    let r = std::panic::catch_unwind(std::panic::AssertUnwindSafe(|| call(obj, *c)));
                    let mut g = lock();
                    if r.is_ok() && g.steps[i] == s0 {
                        // every API call performs at least one atomic operation: this one never reached
                        // the scheduler, so the code under test does not use the instrumented atomics
                        UNSCHEDULED.store(true, std::sync::atomic::Ordering::SeqCst);
                    }
                    g.results[i].push(r.unwrap_or(-777));
                }
            });
        }
        for e in sched {
            let (op, done) = if *e < 0 { (0, -1) } else { grant(*e as usize) };
            per_entry.extend([op, done]);
            per_entry.extend(snap(obj));
        }
        for t in 0..n {
            while !is_finished(t) {
                grant(t);
            }
        }
    });
    let g = lock();
    (per_entry, g.results.clone(), g.steps.clone())
}

// ---------------------------------------------------------------------------
fn take_pairs(s: &[i128], pos: &mut usize, n: i128) -> Vec<(i128, i128)> {
    let mut v = Vec::new();
    for _ in 0..n.max(0) {
        if *pos + 1 < s.len() {
            v.push((s[*pos], s[*pos + 1]));
            *pos += 2;
        } else {
            break;
        }
    }
    v
}

// ---------------------------------------------------------------------------
// algorithms under the scheduler
fn parse_threads(s: &[i128], mut pos: usize) -> (Vec<(i128, i128)>, Vec<Vec<(i128, i128)>>, Vec<i128>) {
    let npre = zn(s, pos);
    pos += 1;
    let pre = take_pairs(s, &mut pos, npre);
    let nthreads = zn(s, pos).max(0) as usize;
    pos += 1;
    let mut progs = Vec::new();
    for _ in 0..nthreads {
        let nc = zn(s, pos);
        pos += 1;
        progs.push(take_pairs(s, &mut pos, nc));
    }
    let nsched = zn(s, pos).max(0) as usize;
    pos += 1;
    let sched: Vec<i128> = (0..nsched).filter_map(|i| s.get(pos + i).copied()).collect();
    (pre, progs, sched)
}

fn config(s: &[i128]) -> AimdConfig {
    let factor = if zn(s, 6) == 0 { 0.0 } else { zn(s, 5) as f64 / zn(s, 6) as f64 };
    AimdConfig::new()
        .with_initial_limit(zn(s, 1) as usize)
        .with_min_limit(zn(s, 2) as usize)
        .with_max_limit(zn(s, 3) as usize)
        .with_increase_by(zn(s, 4) as usize)
        .with_decrease_factor(factor)
}

fn run_object<O: Sync>(
    obj: &O,
    s: &[i128],
    call: &(dyn Fn(&O, (i128, i128)) -> i128 + Sync),
    limit: &dyn Fn(&O) -> i128,
) -> Vec<i128> {
    let (pre, progs, sched) = parse_threads(s, 8);
    let mut tr: Vec<i128> = pre.iter().map(|c| call(obj, *c)).collect();
    let (entries, results, steps) = run_threads(obj, &progs, &sched, call, &|o: &O| vec![limit(o)]);
    tr.extend(entries);
    for (i, rs) in results.iter().enumerate() {
        tr.push(steps[i]);
        tr.extend(rs);
    }
    tr.push(limit(obj));
    tr
}

fn alg_call<A: ConcurrencyAlgorithm>(a: &A, c: (i128, i128)) -> i128 {
    match c.0 {
        0 => {
            a.record_success(Duration::from_nanos(c.1.max(0) as u64));
            2
        }
        1 => {
            a.record_failure();
            2
        }
        _ => a.limit() as i128,
    }
}

// ---------------------------------------------------------------------------
// the service over a gated inner service with scriptable readiness / panicking call()
#[derive(Clone)]
struct Inner2 {
    g: GatedInner,
    mode: Arc<AtomicI64>,
    call_panics: Arc<AtomicBool>,
}

impl Service<i128> for Inner2 {
    type Response = i128;
    type Error = i128;
    type Future = Pin<Box<dyn Future<Output = Result<i128, i128>> + Send>>;
    fn poll_ready(&mut self, _cx: &mut Context<'_>) -> Poll<Result<(), i128>> {
        match self.mode.load(Ordering::SeqCst) {
            0 => Poll::Ready(Ok(())),
            1 => Poll::Pending,
            _ => Poll::Ready(Err(-5)),
        }
    }
    fn call(&mut self, req: i128) -> Self::Future {
        if req < 0 || self.call_panics.swap(false, Ordering::SeqCst) {
            panic!("scripted panic in inner call()");
        }
        self.g.call(req)
    }
}

type Res = Result<i128, AdaptiveError<i128>>;
const NCALLS: usize = 24;
const NPARK: usize = 8;

struct Gate {
    sh: Arc<InnerShared>,
    mode: Arc<AtomicI64>,
    call_panics: Arc<AtomicBool>,
}

fn gated_inner() -> (Inner2, Gate) {
    let g = GatedInner::new();
    let sh = g.0.clone();
    let mode = Arc::new(AtomicI64::new(0));
    let call_panics = Arc::new(AtomicBool::new(false));
    let inner = Inner2 { g, mode: mode.clone(), call_panics: call_panics.clone() };
    (inner, Gate { sh, mode, call_panics })
}

/// the sequential event script (kinds 4, 6, 7, 8) on a service built by `mk` inside the runtime
fn run_service<A: ConcurrencyAlgorithm + 'static>(
    s: &[i128],
    mk: impl FnOnce(Inner2) -> AdaptiveService<Inner2, A>,
) -> Vec<i128> {
    let rt = paused_rt();
    rt.block_on(async move {
        let (inner, Gate { sh, mode, call_panics }) = gated_inner();
        let mut svc = mk(inner);
        // parked callers: a clone of the service and a waker of their own, made at their first check
        let mut parked: Vec<Option<(AdaptiveService<Inner2, A>, Arc<Flag>)>> = (0..NPARK).map(|_| None).collect();
        let mut callers: Vec<Option<Manual<Res>>> = (0..NCALLS).map(|_| None).collect();
        let mut created = vec![false; NCALLS];
        let mut tr = Vec::new();
        let ready = |svc: &mut AdaptiveService<Inner2, A>| -> i128 {
            let flag = Arc::new(Flag(AtomicBool::new(false)));
            let w = Waker::from(flag.clone());
            let mut cx = Context::from_waker(&w);
            match svc.poll_ready(&mut cx) {
                Poll::Ready(Ok(())) => 11,
                Poll::Ready(Err(_)) => 12,
                Poll::Pending => {
                    if flag.0.load(Ordering::SeqCst) {
                        13
                    } else {
                        10
                    }
                }
            }
        };
        let evs: Vec<(i128, i128, i128)> =
            s[8.min(s.len())..].chunks(3).filter(|c| c.len() == 3).map(|c| (c[0], c[1], c[2])).collect();
        for (k, (op, a, b)) in evs.into_iter().enumerate() {
            let i = a.max(0) as usize;
            if op == 6 {
                advance_ms(a.max(0) as u64).await;
                settle().await;
                tr.extend([60, svc.in_flight() as i128, svc.limit() as i128]);
                continue;
            }
            // a panic that escapes the limiter's own code (poll_ready, call, dropping a future): the trace
            // ends with [-999, index of the event] so that the monitor knows WHERE it happened
            let res = std::panic::catch_unwind(std::panic::AssertUnwindSafe(|| -> i128 { match op {
                1 => ready(&mut svc),
                2 | 3 | 4 | 5 if i >= NCALLS => -2,
                2 => {
                    if created[i] {
                        21
                    } else {
                        created[i] = true;
                        callers[i] = Some(Manual::new(svc.call(i as i128)));
                        20
                    }
                }
                3 => match callers[i].as_mut() {
                    Some(m) if m.alive() => {
                        let fin = m.poll();
                        if !fin {
                            30
                        } else if m.panicked {
                            35
                        } else {
                            match m.done.take().unwrap() {
                                Ok(_) => 31,
                                Err(_) => 32,
                            }
                        }
                    }
                    _ => 39,
                },
                4 => {
                    sh.complete(i as i128, 0, match b { 0 => Outcome::Ok(a), 1 => Outcome::Err(a), _ => Outcome::Panic });
                    40
                }
                5 => match callers[i].as_mut() {
                    Some(m) if m.alive() => {
                        m.drop_fut();
                        50
                    }
                    _ => 59,
                },
                7 => {
                    mode.store(a as i64, Ordering::SeqCst);
                    70
                }
                11 => {
                    let j = i % NPARK;
                    if parked[j].is_none() {
                        parked[j] = Some((svc.clone(), Arc::new(Flag(AtomicBool::new(false)))));
                    }
                    let (c, flag) = parked[j].as_mut().unwrap();
                    flag.0.store(false, Ordering::SeqCst);
                    let w = Waker::from(flag.clone());
                    let mut cx = Context::from_waker(&w);
                    match c.poll_ready(&mut cx) {
                        Poll::Ready(Ok(())) => 11,
                        Poll::Ready(Err(_)) => 12,
                        Poll::Pending => {
                            if flag.0.load(Ordering::SeqCst) {
                                13
                            } else {
                                10
                            }
                        }
                    }
                }
                12 => match parked[i % NPARK].as_ref() {
                    Some((_, flag)) if flag.0.load(Ordering::SeqCst) => 91,
                    _ => 90,
                },
                13 => {
                    parked[i % NPARK] = None;
                    92
                }
                // feedback reaching the shared algorithm without a call of this service
                9 => {
                    svc.algorithm().record_failure();
                    80
                }
                10 => {
                    svc.algorithm().record_success(Duration::ZERO);
                    81
                }
                _ => {
                    if i >= NCALLS {
                        -2
                    } else if created[i] {
                        21
                    } else {
                        created[i] = true;
                        call_panics.store(true, Ordering::SeqCst);
                        let r = std::panic::catch_unwind(std::panic::AssertUnwindSafe(|| svc.call(i as i128)));
                        call_panics.store(false, Ordering::SeqCst);
                        match r {
                            Ok(f) => {
                                callers[i] = Some(Manual::new(f));
                                20
                            }
                            Err(_) => 26,
                        }
                    }
                }
            }}));
            let r = match res {
                Ok(r) => r,
                Err(_) => {
                    tr.extend([-999, k as i128]);
                    return tr;
                }
            };
            settle().await;
            tr.extend([r, svc.in_flight() as i128, svc.limit() as i128]);
        }
        for c in callers.iter_mut().flatten() {
            c.drop_fut();
        }
        mode.store(0, Ordering::SeqCst);
        settle().await;
        let r = ready(&mut svc);
        tr.extend([r, svc.in_flight() as i128, svc.limit() as i128]);
        tr
    })
}

fn run(s: &[i128]) -> Vec<i128> {
    match zn(s, 0) {
        1 => {
            let c = AimdController::new(config(s));
            run_object(
                &c,
                s,
                &|c: &AimdController, k| match k.0 {
                    0 => {
                        c.record_success();
                        2
                    }
                    1 => {
                        c.record_failure();
                        2
                    }
                    2 => {
                        c.record_successes(k.1.max(0) as usize);
                        2
                    }
                    4 => {
                        c.reset();
                        2
                    }
                    _ => c.limit() as i128,
                },
                &|c: &AimdController| c.limit() as i128,
            )
        }
        2 => {
            let a = Aimd::new(config(s), Duration::from_nanos(zn(s, 7).max(0) as u64));
            run_object(&a, s, &|a: &Aimd, k| alg_call(a, k), &|a: &Aimd| a.limit() as i128)
        }
        3 => {
            let v = Vegas::new(zn(s, 1) as usize, zn(s, 2) as usize, zn(s, 3) as usize, zn(s, 4) as usize, zn(s, 5) as usize);
            run_object(&v, s, &|v: &Vegas, k| alg_call(v, k), &|v: &Vegas| v.limit() as i128)
        }
        5 => run_clones(s),
        6 => {
            let v = Vegas::new(zn(s, 1) as usize, zn(s, 2) as usize, zn(s, 3) as usize, zn(s, 4) as usize, zn(s, 5) as usize);
            run_service(s, |inner| AdaptiveService::new(inner, Arc::new(v)))
        }
        7 => {
            let factor = if zn(s, 6) == 0 { 0.0 } else { zn(s, 5) as f64 / zn(s, 6) as f64 };
            let a = Aimd::builder()
                .initial_limit(zn(s, 1) as usize)
                .min_limit(zn(s, 2) as usize)
                .max_limit(zn(s, 3) as usize)
                .increase_by(zn(s, 4) as usize)
                .decrease_factor(factor)
                .latency_threshold(Duration::from_millis(zn(s, 7).max(0) as u64))
                .build();
            let layer = AdaptiveLimiterLayer::new(Algorithm::Aimd(a));
            run_service(s, move |inner| layer.layer(inner))
        }
        8 => {
            let v = Vegas::builder()
                .initial_limit(zn(s, 1) as usize)
                .min_limit(zn(s, 2) as usize)
                .max_limit(zn(s, 3) as usize)
                .alpha(zn(s, 4) as usize)
                .beta(zn(s, 5) as usize)
                .build();
            let layer = AdaptiveLimiterLayer::new(Algorithm::Vegas(v));
            run_service(s, move |inner| layer.layer(inner))
        }
        _ => {
            let alg = Aimd::new(config(s), Duration::from_millis(zn(s, 7).max(0) as u64));
            run_service(s, |inner| AdaptiveService::new(inner, Arc::new(alg)))
        }
    }
}

// ---------------------------------------------------------------------------
// kind 5: clones of one service on worker threads
const SLOTS: usize = 4;

struct Worker {
    svc: AdaptiveService<Inner2, Aimd>,
    sh: Arc<InnerShared>,
    tid: usize,
    next_req: i128,
    futs: Vec<Option<(i128, Manual<Res>)>>,
}

impl Drop for Worker {
    fn drop(&mut self) {
        // futures still held when the worker's program ends stay in flight (never generated):
        // leak them, so that no unscripted atomic step happens
        for f in self.futs.drain(..).flatten() {
            std::mem::forget(f);
        }
    }
}

fn noop_ready(svc: &mut AdaptiveService<Inner2, Aimd>) -> i128 {
    let flag = Arc::new(Flag(AtomicBool::new(false)));
    let w = Waker::from(flag.clone());
    let mut cx = Context::from_waker(&w);
    match svc.poll_ready(&mut cx) {
        Poll::Ready(Ok(())) => 11,
        Poll::Ready(Err(_)) => 12,
        Poll::Pending => {
            if flag.0.load(Ordering::SeqCst) {
                13
            } else {
                10
            }
        }
    }
}

fn worker_call(w: &mut Worker, c: (i128, i128)) -> i128 {
    match c.0 {
        0 => noop_ready(&mut w.svc),
        1 => {
            let slot = (c.1.max(0) as usize) % SLOTS;
            w.next_req += 1;
            let req = (w.tid as i128 + 1) * 1000 + w.next_req;
            let f = w.svc.call(req);
            if let Some(old) = w.futs[slot].replace((req, Manual::new(f))) {
                std::mem::forget(old); // never generated: a slot is free when it is used
            }
            20
        }
        2 => {
            let slot = ((c.1.max(0) / 10) as usize) % SLOTS;
            let o = c.1.max(0) % 10;
            match w.futs[slot].take() {
                None => 39,
                Some((req, mut m)) => match o {
                    3 => {
                        m.drop_fut();
                        50
                    }
                    _ => {
                        w.sh.complete(req, 0, match o { 0 => Outcome::Ok(req), 1 => Outcome::Err(req), _ => Outcome::Panic });
                        let fin = m.poll();
                        if !fin {
                            w.futs[slot] = Some((req, m));
                            30
                        } else if m.panicked {
                            35
                        } else {
                            match m.done.take().unwrap() {
                                Ok(_) => 31,
                                Err(_) => 32,
                            }
                        }
                    }
                },
            }
        }
        _ => {
            let r = std::panic::catch_unwind(std::panic::AssertUnwindSafe(|| w.svc.call(-1)));
            match r {
                Ok(f) => {
                    std::mem::forget(f);
                    20
                }
                Err(_) => 26,
            }
        }
    }
}

/// like run_threads, with a per-worker state built on the worker's own thread
fn run_threads_local<W>(
    n: usize,
    progs: &[Vec<(i128, i128)>],
    sched: &[i128],
    mk: &(dyn Fn(usize) -> W + Sync),
    call: &(dyn Fn(&mut W, (i128, i128)) -> i128 + Sync),
    snap: &dyn Fn() -> Vec<i128>,
) -> (Vec<i128>, Vec<Vec<i128>>, Vec<i128>) {
    {
        let mut g = lock();
        g.granted = None;
        g.waiting = vec![false; n];
        g.finished = vec![false; n];
        g.steps = vec![0; n];
        g.last_op = 0;
        g.results = vec![Vec::new(); n];
    }
    let mut per_entry = Vec::new();
    std::thread::scope(|sc| {
        for i in 0..n {
            let prog = &progs[i];
            sc.spawn(move || {
                let mut w = mk(i); // before TID is set: building the state is not scheduled
                TID.with(|t| t.set(i));
                let _fin = Finish(i);
                for c in prog {
                    let s0 = lock().steps[i];
                    let r = std::panic::catch_unwind(std::panic::AssertUnwindSafe(|| call(&mut w, *c)));
                    let mut g = lock();
                    if r.is_ok() && g.steps[i] == s0 {
                        UNSCHEDULED.store(true, Ordering::SeqCst);
                    }
                    g.results[i].push(r.unwrap_or(-777));
                }
                TID.with(|t| t.set(usize::MAX));
                drop(w);
            });
        }
        for e in sched {
            let (op, done) = if *e < 0 { (0, -1) } else { grant(*e as usize) };
            per_entry.extend([op, done]);
            per_entry.extend(snap());
        }
        for t in 0..n {
            while !is_finished(t) {
                grant(t);
            }
        }
    });
    let g = lock();
    (per_entry, g.results.clone(), g.steps.clone())
}

fn run_clones(s: &[i128]) -> Vec<i128> {
    let (pre, progs, sched) = parse_threads(s, 8);
    let alg = Aimd::new(config(s), Duration::from_millis(zn(s, 7).max(0) as u64));
    let (inner, gate) = gated_inner();
    let _ = (&gate.mode, &gate.call_panics);
    let svc = AdaptiveService::new(inner, Arc::new(alg));
    // are the service's own atomics instrumented? (in_flight() is one load)
    let before = HOOK_COUNT.load(Ordering::SeqCst);
    let _ = svc.in_flight();
    if HOOK_COUNT.load(Ordering::SeqCst) == before {
        return vec![-5];
    }
    let mk = |tid: usize| Worker {
        svc: svc.clone(),
        sh: gate.sh.clone(),
        tid,
        next_req: 0,
        futs: (0..SLOTS).map(|_| None).collect(),
    };
    let mut main_w = mk(progs.len());
    let mut tr: Vec<i128> = pre.iter().map(|c| worker_call(&mut main_w, *c)).collect();
    let snap = || vec![svc.in_flight() as i128, svc.limit() as i128];
    let (entries, results, steps) = run_threads_local(progs.len(), &progs, &sched, &mk, &worker_call, &snap);
    tr.extend(entries);
    for (i, rs) in results.iter().enumerate() {
        tr.push(steps[i]);
        tr.extend(rs);
    }
    tr.extend(snap());
    drop(main_w);
    tr
}

/// see c08.rs: threads that complete calls without reaching the scheduler cannot be judged
fn run_checked(s: &[i128]) -> Vec<i128> {
    UNSCHEDULED.store(false, Ordering::SeqCst);
    let tr = run(s);
    if UNSCHEDULED.load(Ordering::SeqCst) {
        vec![-5]
    } else {
        tr
    }
}

fn main() {
    tower_resilience_core::verif::set_hook(hook);
    main_loop(run_checked);
}
