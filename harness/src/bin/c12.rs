//! C12: hedge. script = [max, mode, ncalls, nd, d_1 .. d_nd, (op a b)*]
//!   max: 0..16 is passed to the builder as it is (the builder turns 0 into 1); a larger value is
//!   passed as it is too (capped at usize::MAX) when the delay is Fixed and positive -- one hedge
//!   per poll at most, so that a script never launches more attempts than it has events -- and
//!   counts as 16 otherwise
//!   mode mod 4: 0 (or 3) = HedgeDelay::Fixed(d_1)  1 = Immediate  2 = Dynamic(|k| d_k, 0 beyond nd)
//!   (mode / 4) mod 2 = 1: gated readiness — every attempt CLONE of the inner service is not ready
//!   until the script says so (the instance the caller polled ready, used by the primary, is ready)
//!   (mode / 8) mod 4: how the calls reach the middleware: 0 = every call on its own Hedge value
//!   (layer.layer(..)), 1 = all calls through ONE Hedge value, 2 = call i through a clone of the
//!   value used by call i-1 (chain of clones), 3 = even calls through one value, odd calls through
//!   a fresh clone of it
//!   (mode / 32) mod 2 = 1: the delays d_k are microseconds (else milliseconds); d_k >= 10^18 means
//!   Duration::MAX in either unit
//!   op 1 Poll i | 2 Drop i | 3 Advance a ms | 4 Complete a b (a = 16*i + n: the n-th inner call
//!   made for call i; b: 0 ok, 1 err, 2 panic; the value carried by ok/err is a)
//!   | 5 Ready a (a = 16*i + k: the clone used by hedge attempt k of call i becomes ready)
//!   | 6 ReadyErr a (a = 16*i + k: poll_ready of that clone returns Err(64 + a) from now on; the
//!     attempt then fails without making an inner call)
//!   | 7 SyncPanic a (a = 16*i + n: the n-th inner call made for call i panics -- synchronously,
//!     inside inner.call(), if it has not been made yet; like Complete a 2 if it is in flight)
//!   | 8 Create i (call i is made -- poll_ready + Hedge::call() -- but its future is not polled;
//!     without it a call is made by its first Poll / Drop)
//! Call i is made with request value i, so the n-th inner call of call i is the n-th inner call
//! with request i. An inner-service instance cloned while the harness polls the future of call i
//! is an attempt clone of call i (lineage i); instances cloned anywhere else (by the harness, in
//! Hedge::call, in Hedge::clone) are handle instances: always ready, like the one the primary uses.
//! Hedge attempt k of call i is the k-th attempt clone of call i that is asked for
//! readiness (attempt tasks run in spawn order and ask for readiness first).
//! trace per event = [r, v, ns, nl, wake mask, in-flight, now_ms]
//!   r: -1 no poll, 0 pending, 1 Ok(v), 2 Err(Inner(v)), 3 Err(AllAttemptsFailed(v)), 5 panicked,
//!      9 nothing to poll;  ns = sum over calls i of (inner calls started for request i during
//!      this event, including the settle after it) * 32^i;  nl = same for hedge attempts
//!      launched (clones that asked for readiness for the first time)
use std::cell::Cell;
use std::collections::HashMap;
use std::future::Future;
use std::pin::Pin;
use std::sync::{Arc, Mutex};
use std::task::{Context, Poll, Waker};
use std::time::Duration;
use tower::{Layer, Service};
use tower_resilience_hedge::{HedgeError, HedgeLayer};
use verif_harness::*;

type Res = Result<i128, HedgeError<i128>>;

thread_local! {
    /// index of the hedged call whose future the harness is polling right now (-1: none)
    static CUR: Cell<i128> = const { Cell::new(-1) };
}

#[derive(Default)]
struct RShared {
    gated: bool,
    ready: Mutex<HashMap<(i128, u32), bool>>,
    fail: Mutex<HashMap<(i128, u32), bool>>,
    wakers: Mutex<HashMap<(i128, u32), Waker>>,
    asked: Mutex<HashMap<i128, u32>>,
    /// lineage (= call index) of every clone that asked for readiness for the first time
    asks: Mutex<Vec<i128>>,
    /// (request, n): the n-th inner call with that request panics inside call()
    syncp: Mutex<HashMap<(i128, u32), bool>>,
    ncalls: Mutex<HashMap<i128, u32>>,
}

/// GatedInner plus scripted readiness of attempt clones. `lineage` = index of the hedged call
/// whose future made the clone (-1: a handle instance, always ready).
struct RInner {
    g: GatedInner,
    sh: Arc<RShared>,
    lineage: i128,
    slot: Option<u32>,
}

impl Clone for RInner {
    fn clone(&self) -> Self {
        RInner { g: self.g.clone(), sh: self.sh.clone(), lineage: CUR.with(|c| c.get()), slot: None }
    }
}

impl Service<i128> for RInner {
    type Response = i128;
    type Error = i128;
    type Future = Pin<Box<dyn Future<Output = Result<i128, i128>> + Send>>;
    fn poll_ready(&mut self, cx: &mut Context<'_>) -> Poll<Result<(), i128>> {
        if self.lineage < 0 {
            return Poll::Ready(Ok(()));
        }
        let slot = match self.slot {
            Some(s) => s,
            None => {
                let mut a = self.sh.asked.lock().unwrap();
                let e = a.entry(self.lineage).or_insert(0);
                *e += 1;
                self.slot = Some(*e);
                self.sh.asks.lock().unwrap().push(self.lineage);
                *e
            }
        };
        let key = (self.lineage, slot);
        if self.sh.fail.lock().unwrap().get(&key).copied().unwrap_or(false) {
            Poll::Ready(Err(64 + 16 * self.lineage + slot as i128))
        } else if !self.sh.gated || self.sh.ready.lock().unwrap().get(&key).copied().unwrap_or(false) {
            Poll::Ready(Ok(()))
        } else {
            self.sh.wakers.lock().unwrap().insert(key, cx.waker().clone());
            Poll::Pending
        }
    }
    fn call(&mut self, req: i128) -> Self::Future {
        let n = {
            let mut c = self.sh.ncalls.lock().unwrap();
            let e = c.entry(req).or_insert(0);
            let n = *e;
            *e += 1;
            n
        };
        let fut = self.g.call(req);     // the call is made (and counted) ...
        if self.sh.syncp.lock().unwrap().get(&(req, n)).copied().unwrap_or(false) {
            drop(fut);
            panic!("scripted synchronous panic in inner.call()");   // ... but never returns a future
        }
        fut
    }
}

const DMAX: i128 = 1_000_000_000_000_000_000;

fn run(s: &[i128]) -> Vec<i128> {
    let mode_raw = zn(s, 1).clamp(0, 63);
    let mode = mode_raw % 4;
    let gated = (mode_raw / 4) % 2 == 1;
    let share = (mode_raw / 8) % 4;
    let micros = (mode_raw / 32) % 2 == 1;
    let ncalls = zn(s, 2).clamp(0, 4) as usize;
    let nd = zn(s, 3).clamp(0, 16) as usize;
    let dur = move |d: i128| -> Duration {
        if d >= DMAX { Duration::MAX } else if micros { Duration::from_micros(d as u64) } else { Duration::from_millis(d as u64) }
    };
    let ds: Vec<Duration> = (0..nd).map(|j| dur(zn(s, 4 + j).clamp(0, DMAX))).collect();
    let fixed_pos = mode != 1 && mode != 2 && ds.first().map_or(false, |d| *d > Duration::ZERO);
    let max: usize = if zn(s, 0) > 16 && fixed_pos {
        zn(s, 0).min(usize::MAX as i128) as usize
    } else {
        zn(s, 0).clamp(0, 16) as usize
    };
    let rt = paused_rt();
    let t_base = now_ns();
    rt.block_on(async move {
        let inner = GatedInner::new();
        let sh = inner.0.clone();
        let rsh = Arc::new(RShared { gated, ..Default::default() });
        let mut b = HedgeLayer::builder().max_hedged_attempts(max);
        b = match mode {
            1 => b.no_delay(),
            2 => {
                let ds2 = ds.clone();
                b.delay_fn(move |k| if k >= 1 { ds2.get(k - 1).copied().unwrap_or(Duration::ZERO) } else { Duration::ZERO })
            }
            _ => b.delay(ds.first().copied().unwrap_or(Duration::ZERO)),
        };
        let layer = b.build();
        let mut callers: Vec<Option<Manual<Res>>> = (0..ncalls).map(|_| None).collect();
        let mut created = vec![false; ncalls];
        // the Hedge value shared by the calls (share modes 1..3)
        let mut shared = None;
        let mut ncreated = 0usize;
        let mut tr = Vec::new();
        let off = (4 + nd).min(s.len());
        let evs: Vec<(i128, i128, i128)> =
            s[off..].chunks(3).filter(|c| c.len() == 3).map(|c| (c[0], c[1], c[2])).collect();
        for (op, a, b) in evs {
            let mut r: i128 = -1;
            let mut v: i128 = 0;
            sh.take_starts();
            rsh.asks.lock().unwrap().clear();
            match op {
                1 | 2 | 8 => {
                    if a < 0 || a as usize >= ncalls { continue; }
                    let i = a as usize;
                    if !created[i] {
                        created[i] = true;
                        let fresh = || layer.layer(RInner { g: inner.clone(), sh: rsh.clone(), lineage: -1, slot: None });
                        let mut local = None;
                        let svc = match share {
                            0 => local.insert(fresh()),
                            1 => shared.get_or_insert_with(fresh),
                            2 => {
                                let c = match shared.take() { Some(p) => { let c = p.clone(); drop(p); c } None => fresh() };
                                local.insert(c)
                            }
                            _ => {
                                let base = shared.get_or_insert_with(fresh);
                                if ncreated % 2 == 0 { base } else { let c = base.clone(); local.insert(c) }
                            }
                        };
                        futures::future::poll_fn(|cx| svc.poll_ready(cx)).await.ok();
                        // a panic escaping Hedge::call() itself is reported like a call future that panics at its first poll
                        let made = std::panic::catch_unwind(std::panic::AssertUnwindSafe(|| svc.call(i as i128)));
                        if share == 2 { shared = local.take(); }
                        callers[i] = Some(match made {
                            Ok(fut) => Manual::new(fut),
                            Err(_) => Manual::new(async { panic!("Hedge::call panicked") }),
                        });
                        ncreated += 1;
                    }
                    let m = callers[i].as_mut().unwrap();
                    if op == 8 {
                        // made, not polled
                    } else if op == 1 {
                        if !m.alive() {
                            r = 9;
                        } else {
                            CUR.with(|c| c.set(i as i128));
                            let fin = m.poll();
                            CUR.with(|c| c.set(-1));
                            if !fin { r = 0; } else if m.panicked { r = 5; } else {
                                match m.done.take().unwrap() {
                                    Ok(x) => { r = 1; v = x; }
                                    Err(HedgeError::Inner(e)) => { r = 2; v = e; }
                                    Err(HedgeError::AllAttemptsFailed(e)) => { r = 3; v = e; }
                                }
                            }
                        }
                    } else {
                        m.drop_fut();
                        m.flag.0.store(false, std::sync::atomic::Ordering::SeqCst);
                    }
                }
                3 => advance_ms(a.clamp(0, 100_000) as u64).await,
                4 => {
                    if a < 0 { continue; }
                    let (i, k) = (a / 16, (a % 16) as u32);
                    if (i as usize) >= ncalls { continue; }
                    sh.complete(i, k, match b { 0 => Outcome::Ok(a), 1 => Outcome::Err(a), _ => Outcome::Panic });
                }
                7 => {
                    if a < 0 { continue; }
                    let (i, k) = (a / 16, (a % 16) as u32);
                    if (i as usize) >= ncalls { continue; }
                    if sh.complete(i, k, Outcome::Panic) {
                        rsh.syncp.lock().unwrap().insert((i, k), true);
                    }
                }
                5 | 6 => {
                    if a < 0 { continue; }
                    let (i, k) = (a / 16, (a % 16) as u32);
                    if (i as usize) >= ncalls { continue; }
                    if op == 5 {
                        rsh.ready.lock().unwrap().insert((i, k), true);
                    } else {
                        rsh.fail.lock().unwrap().insert((i, k), true);
                    }
                    if let Some(w) = rsh.wakers.lock().unwrap().remove(&(i, k)) { w.wake(); }
                }
                _ => continue,
            }
            settle().await;
            let mut ns: i128 = 0;
            for (req, _) in sh.take_starts() {
                if req >= 0 && (req as usize) < ncalls { ns += 1i128 << (5 * req as u32); }
            }
            let mut nl: i128 = 0;
            for lin in rsh.asks.lock().unwrap().drain(..) {
                if lin >= 0 && (lin as usize) < ncalls { nl += 1i128 << (5 * lin as u32); }
            }
            let mut mask: i128 = 0;
            for (j, c) in callers.iter().enumerate() {
                if let Some(m) = c { if m.alive() && m.woken() { mask += 1i128 << j; } }
            }
            tr.extend([r, v, ns, nl, mask, sh.inflight() as i128, ((now_ns() - t_base) / 1_000_000) as i128]);
        }
        tr
    })
}

fn main() { main_loop(run); }
