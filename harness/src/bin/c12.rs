//! C12: hedge. script = [max, mode, ncalls, nd, d_1 .. d_nd, (op a b)*]
//!   mode mod 4: 0 (or 3) = HedgeDelay::Fixed(d_1 ms)  1 = Immediate  2 = Dynamic(|k| d_k ms, 0 beyond nd)
//!   (mode / 4) mod 2 = 1: gated readiness — every CLONE of the inner service is not ready until
//!   the script says so (the instance the caller polled ready, used by the primary, is ready)
//!   op 1 Poll i | 2 Drop i | 3 Advance a ms | 4 Complete a b (a = 16*i + n: the n-th inner call
//!   made for call i; b: 0 ok, 1 err, 2 panic; the value carried by ok/err is a)
//!   | 5 Ready a (a = 16*i + k: the clone used by hedge attempt k of call i becomes ready)
//! Call i is made with request value i on its own hedge service (same layer, same shared inner
//! service state), so the n-th inner call of call i is the n-th inner call with request i.
//! Hedge attempt k of call i is the k-th clone of call i's inner service that is asked for
//! readiness (attempt tasks run in spawn order and ask for readiness first).
//! trace per event = [r, v, ns, nl, wake mask, in-flight, now_ms]
//!   r: -1 no poll, 0 pending, 1 Ok(v), 2 Err(Inner(v)), 3 Err(AllAttemptsFailed(v)), 5 panicked,
//!      9 nothing to poll;  ns = sum over calls i of (inner calls started for request i during
//!      this event, including the settle after it) * 32^i;  nl = same for hedge attempts
//!      launched (clones that asked for readiness for the first time)
use std::collections::HashMap;
use std::future::Future;
use std::pin::Pin;
use std::sync::{Arc, Mutex};
use std::task::{Context, Poll, Waker};
use std::time::Duration;
use tower::{Layer, Service};
use tower_resilience_hedge::{HedgeError, HedgeLayer};
use verif_harness::*;

type Res = Result<i128, HedgeError<i128>>;

#[derive(Default)]
struct RShared {
    gated: bool,
    ready: Mutex<HashMap<(i128, u32), bool>>,
    wakers: Mutex<HashMap<(i128, u32), Waker>>,
    asked: Mutex<HashMap<i128, u32>>,
    /// lineage (= call index) of every clone that asked for readiness for the first time
    asks: Mutex<Vec<i128>>,
}

/// GatedInner plus scripted readiness of clones. `lineage` = index of the hedged call the
/// instance was built for; the instance built by the harness is the `original`.
struct RInner {
    g: GatedInner,
    sh: Arc<RShared>,
    lineage: i128,
    original: bool,
    slot: Option<u32>,
}

impl Clone for RInner {
    fn clone(&self) -> Self {
        RInner { g: self.g.clone(), sh: self.sh.clone(), lineage: self.lineage, original: false, slot: None }
    }
}

impl Service<i128> for RInner {
    type Response = i128;
    type Error = i128;
    type Future = Pin<Box<dyn Future<Output = Result<i128, i128>> + Send>>;
    fn poll_ready(&mut self, cx: &mut Context<'_>) -> Poll<Result<(), i128>> {
        if self.original {
            return Poll::Ready(Ok(()));
        }
        let slot = match self.slot {
            Some(s) => s,
            None => {
                let mut a = self.sh.asked.lock().unwrap();
                let e = a.entry(self.lineage).or_insert(0);
                *e += 1;
                self.slot = Some(*e);
                self.sh.asks.lock().unwrap().push(self.lineage);
                *e
            }
        };
        let key = (self.lineage, slot);
        if !self.sh.gated || self.sh.ready.lock().unwrap().get(&key).copied().unwrap_or(false) {
            Poll::Ready(Ok(()))
        } else {
            self.sh.wakers.lock().unwrap().insert(key, cx.waker().clone());
            Poll::Pending
        }
    }
    fn call(&mut self, req: i128) -> Self::Future {
        self.g.call(req)
    }
}

fn run(s: &[i128]) -> Vec<i128> {
    let max = zn(s, 0).clamp(0, 16) as usize;
    let mode_raw = zn(s, 1).clamp(0, 7);
    let mode = mode_raw % 4;
    let gated = (mode_raw / 4) % 2 == 1;
    let ncalls = zn(s, 2).clamp(0, 4) as usize;
    let nd = zn(s, 3).clamp(0, 16) as usize;
    let ds: Vec<u64> = (0..nd).map(|j| zn(s, 4 + j).clamp(0, 100_000) as u64).collect();
    let rt = paused_rt();
    let t_base = now_ns();
    rt.block_on(async move {
        let inner = GatedInner::new();
        let sh = inner.0.clone();
        let rsh = Arc::new(RShared { gated, ..Default::default() });
        let mut b = HedgeLayer::builder().max_hedged_attempts(max);
        b = match mode {
            1 => b.no_delay(),
            2 => {
                let ds2 = ds.clone();
                b.delay_fn(move |k| {
                    Duration::from_millis(if k >= 1 { ds2.get(k - 1).copied().unwrap_or(0) } else { 0 })
                })
            }
            _ => b.delay(Duration::from_millis(ds.first().copied().unwrap_or(0))),
        };
        let layer = b.build();
        let mut callers: Vec<Option<Manual<Res>>> = (0..ncalls).map(|_| None).collect();
        let mut created = vec![false; ncalls];
        let mut tr = Vec::new();
        let off = (4 + nd).min(s.len());
        let evs: Vec<(i128, i128, i128)> =
            s[off..].chunks(3).filter(|c| c.len() == 3).map(|c| (c[0], c[1], c[2])).collect();
        for (op, a, b) in evs {
            let mut r: i128 = -1;
            let mut v: i128 = 0;
            sh.take_starts();
            rsh.asks.lock().unwrap().clear();
            match op {
                1 | 2 => {
                    if a < 0 || a as usize >= ncalls { continue; }
                    let i = a as usize;
                    if !created[i] {
                        created[i] = true;
                        let orig = RInner { g: inner.clone(), sh: rsh.clone(), lineage: i as i128, original: true, slot: None };
                        let mut svc = layer.layer(orig);
                        futures::future::poll_fn(|cx| svc.poll_ready(cx)).await.ok();
                        callers[i] = Some(Manual::new(svc.call(i as i128)));
                    }
                    let m = callers[i].as_mut().unwrap();
                    if op == 1 {
                        if !m.alive() {
                            r = 9;
                        } else {
                            let fin = m.poll();
                            if !fin { r = 0; } else if m.panicked { r = 5; } else {
                                match m.done.take().unwrap() {
                                    Ok(x) => { r = 1; v = x; }
                                    Err(HedgeError::Inner(e)) => { r = 2; v = e; }
                                    Err(HedgeError::AllAttemptsFailed(e)) => { r = 3; v = e; }
                                }
                            }
                        }
                    } else {
                        m.drop_fut();
                        m.flag.0.store(false, std::sync::atomic::Ordering::SeqCst);
                    }
                }
                3 => advance_ms(a.clamp(0, 100_000) as u64).await,
                4 => {
                    if a < 0 { continue; }
                    let (i, k) = (a / 16, (a % 16) as u32);
                    if (i as usize) >= ncalls { continue; }
                    sh.complete(i, k, match b { 0 => Outcome::Ok(a), 1 => Outcome::Err(a), _ => Outcome::Panic });
                }
                5 => {
                    if a < 0 { continue; }
                    let (i, k) = (a / 16, (a % 16) as u32);
                    if (i as usize) >= ncalls { continue; }
                    rsh.ready.lock().unwrap().insert((i, k), true);
                    if let Some(w) = rsh.wakers.lock().unwrap().remove(&(i, k)) { w.wake(); }
                }
                _ => continue,
            }
            settle().await;
            let mut ns: i128 = 0;
            for (req, _) in sh.take_starts() {
                if req >= 0 && (req as usize) < ncalls { ns += 1i128 << (5 * req as u32); }
            }
            let mut nl: i128 = 0;
            for lin in rsh.asks.lock().unwrap().drain(..) {
                if lin >= 0 && (lin as usize) < ncalls { nl += 1i128 << (5 * lin as u32); }
            }
            let mut mask: i128 = 0;
            for (j, c) in callers.iter().enumerate() {
                if let Some(m) = c { if m.alive() && m.woken() { mask += 1i128 << j; } }
            }
            tr.extend([r, v, ns, nl, mask, sh.inflight() as i128, ((now_ns() - t_base) / 1_000_000) as i128]);
        }
        tr
    })
}

fn main() { main_loop(run); }
