//! C12: hedge. script = [max, mode, ncalls, nd, d_1 .. d_nd, (op a b)*]
//!   mode 0 = HedgeDelay::Fixed(d_1 ms)  1 = Immediate  2 = Dynamic(|k| d_k ms, 0 beyond nd)
//!   op 1 Poll i | 2 Drop i | 3 Advance a ms | 4 Complete a b   (a = 16*i + k: attempt k of call i;
//!   b: 0 ok, 1 err, 2 panic; the value carried by ok/err is a)
//! Call i is made with request value i on its own clone of the hedge service, so attempt k of
//! call i is the k-th inner call with request i.
//! trace per event = [r, v, ns, wake mask, in-flight, now_ms]
//!   r: -1 no poll, 0 pending, 1 Ok(v), 2 Err(Inner(v)), 3 Err(AllAttemptsFailed(v)), 5 panicked,
//!      9 nothing to poll;  ns = sum over calls i of (inner calls started for request i during
//!      this event, including the settle after it) * 32^i
use std::time::Duration;
use tower::{Layer, Service};
use tower_resilience_hedge::{HedgeError, HedgeLayer};
use verif_harness::*;

type Res = Result<i128, HedgeError<i128>>;

fn run(s: &[i128]) -> Vec<i128> {
    let max = zn(s, 0).clamp(0, 16) as usize;
    let mode = zn(s, 1);
    let ncalls = zn(s, 2).clamp(0, 4) as usize;
    let nd = zn(s, 3).clamp(0, 16) as usize;
    let ds: Vec<u64> = (0..nd).map(|j| zn(s, 4 + j).clamp(0, 100_000) as u64).collect();
    let rt = paused_rt();
    let t_base = now_ns();
    rt.block_on(async move {
        let inner = GatedInner::new();
        let sh = inner.0.clone();
        let mut b = HedgeLayer::builder().max_hedged_attempts(max);
        b = match mode {
            1 => b.no_delay(),
            2 => {
                let ds2 = ds.clone();
                b.delay_fn(move |k| {
                    Duration::from_millis(if k >= 1 { ds2.get(k - 1).copied().unwrap_or(0) } else { 0 })
                })
            }
            _ => b.delay(Duration::from_millis(ds.first().copied().unwrap_or(0))),
        };
        let base = b.build().layer(inner);
        let mut callers: Vec<Option<Manual<Res>>> = (0..ncalls).map(|_| None).collect();
        let mut created = vec![false; ncalls];
        let mut tr = Vec::new();
        let off = (4 + nd).min(s.len());
        let evs: Vec<(i128, i128, i128)> =
            s[off..].chunks(3).filter(|c| c.len() == 3).map(|c| (c[0], c[1], c[2])).collect();
        for (op, a, b) in evs {
            let mut r: i128 = -1;
            let mut v: i128 = 0;
            sh.take_starts();
            match op {
                1 | 2 => {
                    if a < 0 || a as usize >= ncalls { continue; }
                    let i = a as usize;
                    if !created[i] {
                        created[i] = true;
                        let mut svc = base.clone();
                        futures::future::poll_fn(|cx| svc.poll_ready(cx)).await.ok();
                        callers[i] = Some(Manual::new(svc.call(i as i128)));
                    }
                    let m = callers[i].as_mut().unwrap();
                    if op == 1 {
                        if !m.alive() {
                            r = 9;
                        } else {
                            let fin = m.poll();
                            if !fin { r = 0; } else if m.panicked { r = 5; } else {
                                match m.done.take().unwrap() {
                                    Ok(x) => { r = 1; v = x; }
                                    Err(HedgeError::Inner(e)) => { r = 2; v = e; }
                                    Err(HedgeError::AllAttemptsFailed(e)) => { r = 3; v = e; }
                                }
                            }
                        }
                    } else {
                        m.drop_fut();
                        m.flag.0.store(false, std::sync::atomic::Ordering::SeqCst);
                    }
                }
                3 => advance_ms(a.clamp(0, 100_000) as u64).await,
                4 => {
                    if a < 0 { continue; }
                    let (i, k) = (a / 16, (a % 16) as u32);
                    if (i as usize) >= ncalls { continue; }
                    sh.complete(i, k, match b { 0 => Outcome::Ok(a), 1 => Outcome::Err(a), _ => Outcome::Panic });
                }
                _ => continue,
            }
            settle().await;
            let mut ns: i128 = 0;
            for (req, _) in sh.take_starts() {
                if req >= 0 && (req as usize) < ncalls { ns += 1i128 << (5 * req as u32); }
            }
            let mut mask: i128 = 0;
            for (j, c) in callers.iter().enumerate() {
                if let Some(m) = c { if m.alive() && m.woken() { mask += 1i128 << j; } }
            }
            tr.extend([r, v, ns, mask, sh.inflight() as i128, ((now_ns() - t_base) / 1_000_000) as i128]);
        }
        tr
    })
}

fn main() { main_loop(run); }
