(* Trusted glue: parse one script per line (decimal integers, possibly negative,
   of any size), run the extracted model's run_script, print the trace as one
   line of decimal integers. usage: driver < scripts > traces (one driver per model, see ocaml/build.sh) *)
open BinNums

let rec pos_of_int (n : int) : positive =
  if n = 1 then Coq_xH
  else if n land 1 = 0 then Coq_xO (pos_of_int (n lsr 1))
  else Coq_xI (pos_of_int (n lsr 1))
let z_of_small (n : int) : coq_Z =
  if n = 0 then Z0 else if n > 0 then Zpos (pos_of_int n) else Zneg (pos_of_int (-n))

let ten = z_of_small 10

let z_of_string (s : string) : coq_Z =
  let neg = String.length s > 0 && s.[0] = '-' in
  let acc = ref Z0 in
  String.iteri (fun i c ->
    if i = 0 && neg then () else begin
      if c < '0' || c > '9' then failwith ("bad integer: " ^ s);
      acc := Extract.z_add (Extract.z_mul !acc ten) (z_of_small (Char.code c - 48))
    end) s;
  if neg then Extract.z_opp !acc else !acc

let rec small_of_pos (p : positive) : int =
  match p with Coq_xH -> 1 | Coq_xO q -> 2 * small_of_pos q | Coq_xI q -> 2 * small_of_pos q + 1
let small_of_z (z : coq_Z) : int =
  match z with Z0 -> 0 | Zpos p -> small_of_pos p | Zneg p -> - (small_of_pos p)

let string_of_z (z : coq_Z) : string =
  let neg, a = match z with Zneg p -> true, Zpos p | _ -> false, z in
  if a = Z0 then "0" else begin
    let buf = Buffer.create 24 in
    let cur = ref a in
    while !cur <> Z0 do
      let (q, r) = Extract.z_quotrem !cur ten in
      Buffer.add_char buf (Char.chr (48 + small_of_z r));
      cur := q
    done;
    let s = Buffer.contents buf in
    let n = String.length s in
    let rev = String.init n (fun i -> s.[n - 1 - i]) in
    if neg then "-" ^ rev else rev
  end

let split_ws (s : string) : string list =
  Stdlib.List.filter (fun x -> x <> "") (String.split_on_char ' ' (String.trim s))

let () =
  let run = Extract.run in
  (try
    while true do
      let line = input_line stdin in
      let toks = split_ws line in
      let script = Stdlib.List.map z_of_string toks in
      let tr = run script in
      print_string (String.concat " " (Stdlib.List.map string_of_z tr));
      print_newline ()
    done
  with End_of_file -> ())
