let lookup (p : string) : BinNums.coq_Z list -> BinNums.coq_Z list =
  match p with
  | "C17" -> Extract.run_C17
  | "C01" | "C07" -> Extract.run_C01
  | _ -> failwith ("unknown property " ^ p)
