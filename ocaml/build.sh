#!/bin/sh
# Extract the models and build the OCaml driver into ocaml/_build/driver
set -e
cd "$(dirname "$0")"
rm -rf _build && mkdir -p _build
cd _build
coqc -Q ../../coq TR ../../coq/Extract/Extract.v >extract.log 2>&1 || { cat extract.log; exit 1; }
rm -f ../../coq/Extract/Extract.vo ../../coq/Extract/Extract.glob ../../coq/Extract/.Extract.aux ../../coq/Extract/Extract.vok ../../coq/Extract/Extract.vos
cp ../driver.ml ../dispatch.ml .
# dependency order via ocamlfind ocamldep
ocamlfind ocamlopt -O2 -w -a $(ocamlfind ocamldep -sort *.ml *.mli) -o driver 2>build.log || \
  ocamlfind ocamlopt -w -a $(ocamlfind ocamldep -sort *.ml *.mli) -o driver
echo built ocaml/_build/driver
