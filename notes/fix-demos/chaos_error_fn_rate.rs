use tower::{Layer, Service, ServiceExt};
use tower_resilience_chaos::ChaosLayer;

#[tokio::test]
async fn replacing_the_error_function_keeps_error_rate_one() {
    let layer = ChaosLayer::builder()
        .error_rate(1.0)
        .error_fn(|_r: &String| std::io::Error::other("a"))
        .error_fn(|_r: &String| std::io::Error::other("b"))
        .seed(7)
        .build();
    let mut svc = layer.layer(tower::service_fn(|r: String| async move { Ok::<_, std::io::Error>(r) }));
    for _ in 0..8 {
        let r = svc.ready().await.unwrap().call("x".to_string()).await;
        assert!(r.is_err(), "error rate 1.0 was configured, but a call succeeded");
    }
}
