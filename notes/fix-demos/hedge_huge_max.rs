use std::time::Duration;
use tower::{Layer, Service, ServiceExt};
use tower_resilience_hedge::HedgeLayer;

#[tokio::test]
async fn a_huge_max_hedged_attempts_does_not_panic() {
    let layer = HedgeLayer::builder().delay(Duration::from_millis(50)).max_hedged_attempts(usize::MAX).build();
    let mut svc = layer.layer(tower::service_fn(|r: u32| async move { Ok::<_, String>(r) }));
    let r = svc.ready().await.unwrap().call(7).await;
    assert_eq!(r.unwrap(), 7);
}
