use tower_resilience_retry::{RetryBudget, TokenBucketBudget};
#[test]
fn initial_balance_is_capped_at_the_maximum() {
    let b = TokenBucketBudget::new(0.0, 5, 10);
    assert!(b.balance() <= 5, "balance {} exceeds max 5", b.balance());
}
#[test]
fn huge_sizes_do_not_overflow() {
    let b = TokenBucketBudget::new(0.0, usize::MAX, usize::MAX);
    assert!(b.try_withdraw());
    b.deposit();
}
