#![cfg(feature = "metrics")]
use metrics::{Counter, Gauge, Histogram, Key, KeyName, Metadata, Recorder, SharedString, Unit};
use std::sync::atomic::{AtomicBool, Ordering};
use std::task::{Context, Poll};
use std::future::Future;
use tower::{Layer, Service};
use tower_resilience_coalesce::CoalesceLayer;

static ARMED: AtomicBool = AtomicBool::new(false);
struct Rec;
impl Recorder for Rec {
    fn describe_counter(&self, _: KeyName, _: Option<Unit>, _: SharedString) {}
    fn describe_gauge(&self, _: KeyName, _: Option<Unit>, _: SharedString) {}
    fn describe_histogram(&self, _: KeyName, _: Option<Unit>, _: SharedString) {}
    fn register_counter(&self, _: &Key, _: &Metadata<'_>) -> Counter {
        if ARMED.swap(false, Ordering::SeqCst) { panic!("recorder panics once"); }
        Counter::noop()
    }
    fn register_gauge(&self, _: &Key, _: &Metadata<'_>) -> Gauge { Gauge::noop() }
    fn register_histogram(&self, _: &Key, _: &Metadata<'_>) -> Histogram { Histogram::noop() }
}

#[test]
fn recorder_panic_in_leader_call() {
    metrics::set_global_recorder(Rec).ok();
    let calls = std::sync::Arc::new(std::sync::atomic::AtomicUsize::new(0));
    let c2 = calls.clone();
    let inner = tower::service_fn(move |r: u32| { c2.fetch_add(1, Ordering::SeqCst); async move { Ok::<u32, String>(r) } });
    let mut svc = CoalesceLayer::new(|r: &u32| *r).layer(inner);
    ARMED.store(true, Ordering::SeqCst);
    let first = std::panic::catch_unwind(std::panic::AssertUnwindSafe(|| svc.call(7)));
    println!("first call panicked: {}", first.is_err());
    let mut second = Box::pin(svc.call(7));
    let w = futures_noop();
    let mut cx = Context::from_waker(&w);
    let mut n = 0;
    loop {
        match second.as_mut().poll(&mut cx) {
            Poll::Ready(r) => { println!("second request resolved after {} polls: {:?}", n, r.map_err(|e| e.to_string())); break; }
            Poll::Pending => { n += 1; if n >= 1000 { println!("second request STILL PENDING after 1000 polls; inner calls made = {}", calls.load(Ordering::SeqCst)); break; } }
        }
    }
}
fn futures_noop() -> std::task::Waker {
    struct W; impl std::task::Wake for W { fn wake(self: std::sync::Arc<Self>) {} }
    std::sync::Arc::new(W).into()
}
