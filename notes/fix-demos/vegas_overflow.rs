use std::time::Duration;
use tower_resilience_adaptive::{ConcurrencyAlgorithm, Vegas};

#[test]
fn vegas_limit_stays_in_bounds_at_usize_max() {
    let v = Vegas::builder()
        .min_limit(1)
        .initial_limit(usize::MAX)
        .max_limit(usize::MAX)
        .build();
    for _ in 0..20 {
        v.record_success(Duration::from_millis(10));
    }
    assert_eq!(v.limit(), usize::MAX);
}
