use std::sync::atomic::{AtomicUsize, Ordering};
use std::sync::Arc;
use tower_resilience_core::{EventListeners, FnListener, ResilienceEvent};

#[derive(Debug, Clone)]
struct Ev;
impl ResilienceEvent for Ev {
    fn event_type(&self) -> &'static str { "ev" }
    fn timestamp(&self) -> std::time::Instant { std::time::Instant::now() }
    fn pattern_name(&self) -> &str { "demo" }
}

struct Bomb(u32);
impl Drop for Bomb {
    fn drop(&mut self) {
        if self.0 > 0 && !std::thread::panicking() {
            std::panic::panic_any(Bomb(self.0 - 1));
        }
    }
}

#[test]
fn nested_panicking_payloads_do_not_escape_emit() {
    std::panic::set_hook(Box::new(|_| {}));
    let seen = Arc::new(AtomicUsize::new(0));
    let s2 = seen.clone();
    let mut ls: EventListeners<Ev> = EventListeners::new();
    ls.add(FnListener::new(|_: &Ev| std::panic::panic_any(Bomb(3))));
    ls.add(FnListener::new(move |_: &Ev| { s2.fetch_add(1, Ordering::SeqCst); }));
    let r = std::panic::catch_unwind(std::panic::AssertUnwindSafe(|| ls.emit(&Ev)));
    assert!(r.is_ok(), "a listener's panic escaped emit()");
    assert_eq!(seen.load(Ordering::SeqCst), 1, "the second listener did not get the event");
}
