use std::sync::atomic::{AtomicBool, Ordering};
use std::sync::Arc;
use tower::{Layer, Service, ServiceExt};
use tower_resilience_coalesce::CoalesceLayer;

#[derive(Debug)]
struct Resp(u32, Arc<AtomicBool>);
impl Clone for Resp {
    fn clone(&self) -> Self {
        if self.1.swap(false, Ordering::SeqCst) {
            panic!("clone panics once");
        }
        Resp(self.0, self.1.clone())
    }
}

#[tokio::test]
async fn key_is_released_when_cloning_the_result_panics() {
    let arm = Arc::new(AtomicBool::new(true));
    let a2 = arm.clone();
    let inner = tower::service_fn(move |r: u32| {
        let a = a2.clone();
        async move { Ok::<_, String>(Resp(r, a)) }
    });
    let mut svc = CoalesceLayer::new(|r: &u32| *r).layer(inner);
    let mut svc2 = svc.clone();
    let leader = tokio::spawn(async move { svc.ready().await.unwrap().call(7).await.map(|r| r.0) });
    let r = leader.await;
    assert!(r.is_err(), "leader task panicked while cloning the result for its waiters");
    let fut = svc2.ready().await.unwrap().call(7);
    let out = tokio::time::timeout(std::time::Duration::from_millis(200), fut).await;
    assert!(out.is_ok(), "request after the panicked leader waits forever");
}
