use std::future::Future;
use std::pin::Pin;
use std::sync::atomic::{AtomicUsize, Ordering};
use std::sync::Arc;
use std::task::{Context, Poll};
use tower::{Layer, Service};
use tower_resilience_coalesce::CoalesceLayer;

#[derive(Clone)]
struct Inner {
    calls: Arc<AtomicUsize>,
}
impl Service<u32> for Inner {
    type Response = u32;
    type Error = String;
    type Future = Pin<Box<dyn Future<Output = Result<u32, String>> + Send>>;
    fn poll_ready(&mut self, _: &mut Context<'_>) -> Poll<Result<(), String>> {
        Poll::Ready(Ok(()))
    }
    fn call(&mut self, req: u32) -> Self::Future {
        let n = self.calls.fetch_add(1, Ordering::SeqCst);
        if n == 0 {
            panic!("inner.call panics synchronously");
        }
        Box::pin(async move { Ok(req) })
    }
}

#[derive(Clone, Debug)]
struct Resp(u32, Arc<AtomicUsize>);
impl Resp {}

#[tokio::test]
async fn key_is_released_when_inner_call_panics() {
    let calls = Arc::new(AtomicUsize::new(0));
    let mut svc = CoalesceLayer::new(|r: &u32| *r).layer(Inner { calls: calls.clone() });
    let mut svc2 = svc.clone();
    let r = std::panic::catch_unwind(std::panic::AssertUnwindSafe(|| {
        let _ = svc.call(7);
    }));
    assert!(r.is_err(), "first call panics inside inner.call");
    // the leader never came to exist: the key must be usable again at once
    let fut = svc2.call(7);
    let out = tokio::time::timeout(std::time::Duration::from_millis(200), fut).await;
    assert!(out.is_ok(), "second request for the same key waits forever");
    assert_eq!(out.unwrap().unwrap(), 7);
    assert_eq!(calls.load(Ordering::SeqCst), 2);
}
