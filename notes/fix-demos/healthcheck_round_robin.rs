use std::time::Duration;
use tower_resilience_healthcheck::{HealthCheckWrapper, HealthStatus, SelectionStrategy};

#[tokio::test]
async fn round_robin_of_one_accessor_is_not_starved_by_the_other() {
    let w = HealthCheckWrapper::builder()
        .with_context("a".to_string(), "a")
        .with_context("b".to_string(), "b")
        .with_checker(|_r: &String| async { HealthStatus::Healthy })
        .with_interval(Duration::from_millis(5))
        .with_initial_delay(Duration::ZERO)
        .with_success_threshold(1)
        .with_selection_strategy(SelectionStrategy::RoundRobin)
        .build();
    w.start().await;
    tokio::time::sleep(Duration::from_millis(200)).await;
    let mut healthy_picks = Vec::new();
    for _ in 0..6 {
        healthy_picks.push(w.get_healthy().await.unwrap());
        let _ = w.get_usable().await.unwrap();
    }
    let a = healthy_picks.iter().filter(|s| *s == "a").count();
    let b = healthy_picks.iter().filter(|s| *s == "b").count();
    assert_eq!((a, b), (3, 3), "get_healthy picks: {:?}", healthy_picks);
}
