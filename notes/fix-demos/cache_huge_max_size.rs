use tower::{Layer, Service, ServiceExt};
use tower_resilience_cache::{CacheLayer, EvictionPolicy};

#[tokio::test]
async fn a_huge_max_size_is_only_a_bound() {
    for policy in [EvictionPolicy::Lru, EvictionPolicy::Lfu, EvictionPolicy::Fifo] {
        for max in [1usize << 40, usize::MAX] {
            let layer = CacheLayer::builder().max_size(max).eviction_policy(policy).key_extractor(|r: &u32| *r).build();
            let mut svc = layer.layer(tower::service_fn(|r: u32| async move { Ok::<_, std::io::Error>(r + 1) }));
            for _ in 0..2 {
                assert_eq!(svc.ready().await.unwrap().call(5).await.unwrap(), 6);
            }
        }
    }
}
