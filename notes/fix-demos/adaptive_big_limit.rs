use std::time::Duration;
use tower::{Layer, Service, ServiceExt};
use tower_resilience_adaptive::{AdaptiveLimiterLayer, Aimd};

#[tokio::test]
async fn limits_of_two_to_the_sixty_do_not_panic() {
    let big = 1usize << 60;
    let layer = AdaptiveLimiterLayer::new(
        Aimd::builder().initial_limit(big).min_limit(1).max_limit(usize::MAX).increase_by(big).latency_threshold(Duration::from_secs(1)).build(),
    );
    let mut svc = layer.layer(tower::service_fn(|r: u32| async move { Ok::<_, std::io::Error>(r) }));
    for i in 0..10u32 {
        let r = svc.ready().await.unwrap().call(i).await;
        assert_eq!(r.unwrap(), i);
    }
    assert_eq!(svc.in_flight(), 0);
}
