use std::time::Duration;
use tower::{Layer, Service, ServiceExt};
use tower_resilience_ratelimiter::{RateLimiterLayer, WindowType};

async fn admitted(window: WindowType, period: Duration, n: usize) -> usize {
    let layer = RateLimiterLayer::builder()
        .limit_for_period(1)
        .refresh_period(period)
        .timeout_duration(Duration::ZERO)
        .window_type(window)
        .build();
    let mut svc = layer.layer(tower::service_fn(|r: u32| async move { Ok::<_, std::io::Error>(r) }));
    let mut ok = 0;
    for i in 0..n {
        if svc.ready().await.unwrap().call(i as u32).await.is_ok() {
            ok += 1;
        }
    }
    ok
}

#[tokio::test]
async fn sliding_log_with_an_unrepresentable_window_admits_only_the_limit() {
    assert_eq!(admitted(WindowType::SlidingLog, Duration::MAX, 5).await, 1);
}

#[tokio::test]
async fn sliding_counter_with_a_huge_period_does_not_panic() {
    assert_eq!(admitted(WindowType::SlidingCounter, Duration::MAX, 5).await, 1);
}

#[tokio::test]
async fn sliding_counter_with_a_zero_period_does_not_panic() {
    assert_eq!(admitted(WindowType::SlidingCounter, Duration::ZERO, 5).await, 5);
}
