import sys, pickle, importlib.util, collections
sys.path.insert(0,'/verif/gen')
spec=importlib.util.spec_from_file_location('g','/verif/gen/c20.py'); g=importlib.util.module_from_spec(spec); spec.loader.exec_module(g)
scripts,impl=pickle.load(open('/tmp/review2-C20/run.pkl','rb'))
C=collections.Counter()
for s,t in zip(scripts,impl):
    if s[0]==1:
        n,ids,k,nreq,orc=g.parse1(s); codes=t[:nreq]
        C['mode1']+=1
        if any(i in g.OPENED for i in ids):
            C['mode1 with 16/17 (code 6 tolerated for every request)']+=1
            if 6 in codes: C['  .. of which code 6 actually occurs']+=1
            # mutate: every answered request -> 6 (wrong payload / made-up failure)
            t2=list(t)
            for j in range(nreq):
                if t2[j]==0: t2[j]=6
            if t2!=list(t) and g.monitor(s,t2) is None: C['  .. mutant "all Ok -> code 6" accepted by monitor']+=1
        if any(h in ids for h in g.HEDGES):
            C['mode1 with hedge']+=1
            if 6 in codes: C['  .. hedge: code 6 occurs']+=1
        if 3 in codes:
            C['mode1 code 3 (never ready)']+=1
        # mutate: first code 0 -> 3 and drop nothing else: monitor?
        if 0 in codes:
            t2=list(t); j=list(codes).index(0); t2[j]=3
            r=g.monitor(s,t2)
            C['mutant "answered -> never ready(3), log unchanged": '+('accepted' if r is None else 'rejected')]+=1
    if s[0]==3:
        n,ids,k,ops,segs=g.parse3(s); codes,outs,log,viol=g.split3(s,t)
        C['mode3']+=1
        if any(i in g.OPENED for i in ids): C['mode3 with 16/17']+=1
print(len(scripts))
for k,v in sorted(C.items()): print('%5d %s'%(v,k))
