import sys, random, hashlib, importlib.util, subprocess, os, collections
sys.path.insert(0,'/verif/gen')
spec=importlib.util.spec_from_file_location('g','/verif/gen/c20.py'); g=importlib.util.module_from_spec(spec); spec.loader.exec_module(g)
pid='C20'; seed=0
rng=random.Random(seed*1000003+int(hashlib.sha1(pid.encode()).hexdigest()[:8],16))
scripts=[list(s) for s in g.corpus()]+[list(s) for s in g.generate(rng,'quick')]
seen=set(); u=[]
for s in scripts:
    k=tuple(s)
    if k not in seen: seen.add(k); u.append(s)
scripts=u
exe=os.environ.get('EXE','/verif/harness/target/release/c20')
n=8
chunks=[scripts[i::n] for i in range(n)]
procs=[]
for c in chunks:
    inp="\n".join(" ".join(str(x) for x in s) for s in c)+"\n"
    p=subprocess.Popen([exe],stdin=subprocess.PIPE,stdout=subprocess.PIPE,stderr=subprocess.DEVNULL,text=True)
    procs.append((p,inp))
import threading
res=[None]*n
def w(i):
    p,inp=procs[i]; o,_=p.communicate(inp); res[i]=[[int(x) for x in l.split()] for l in o.split("\n") if l!='']
ths=[threading.Thread(target=w,args=(i,)) for i in range(n)]
[t.start() for t in ths];[t.join() for t in ths]
impl=[None]*len(scripts)
for i in range(n):
    for k,idx in enumerate(range(i,len(scripts),n)):
        impl[idx]=res[i][k] if k<len(res[i]) else [-998]
import pickle
pickle.dump((scripts,impl),open('/tmp/review2-C20/run.pkl','wb'))
fails=[(s,t,g.monitor(s,t)) for s,t in zip(scripts,impl) if g.monitor(s,t)]
print('scripts',len(scripts),'monitor failures',len(fails))
for f in fails[:5]: print(f)
