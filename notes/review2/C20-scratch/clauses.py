import sys, pickle, importlib.util, collections
sys.path.insert(0,'/verif/gen')
spec=importlib.util.spec_from_file_location('g','/verif/gen/c20.py'); g=importlib.util.module_from_spec(spec); spec.loader.exec_module(g)
scripts,impl=pickle.load(open('/tmp/review2-C20/run.pkl','rb'))
C=collections.Counter(); N=len(scripts)
modes=collections.Counter(s[0] for s in scripts)
for s,t in zip(scripts,impl):
    m=s[0]
    if m in (1,3):
        if m==1:
            n,ids,k,nreq,orc=g.parse1(s); codes=t[:nreq]
            log=[tuple(t[nreq+4*i:nreq+4*i+4]) for i in range((len(t)-nreq-1)//4)]
            outs=codes; pollcodes=[]
        else:
            n,ids,k,ops,segs=g.parse3(s); codes,outs,log,viol=g.split3(s,t)
            pollcodes=[c for o,c in zip(ops,codes) if o[0] in (0,4)]
        calls=[e for e in log if e[0]==2]
        special=k>0 and any(i in g.SPECIAL for i in ids)
        if calls: C['R1 contract: >=1 call in log']+=1
        if any(e[1]!=0 for e in calls): C['R1: a call on an instance other than the first (clone/swap)']+=1
        if special and len(calls)>len([c for c in outs if c in (0,2)]): C['R1: further attempts (retry/hedge/reconnect) made']+=1
        if special and any(i in g.HEDGES for i in ids) and calls: C['R1: hedged attempts']+=1
        errs=sum(1 for e in log if e[0]==1 and e[2]==2)
        if errs: C['R2: some Err readiness answer']+=1
        if 1 in (list(codes) if m==1 else pollcodes): C['R2: Err surfaced at top-level poll_ready (code 1)']+=1
        if 2 in outs: C['R2: Err surfaced inside call (code 2, before further attempt)']+=1
        if errs and any(h in ids for h in g.HEDGES): C['R2: Err with hedge in stack (only <= checked)']+=1
        if any(c==0 for c in outs) and not special: C['T1: exactly-once check (code 0, non-retrying)']+=1
        if any(c==0 for c in outs) and special: C['T1: only >=1 checked (retrying)']+=1
        if any(c==0 for c in outs): C['T2(mode1/3): Ok(10*req) returned']+=1
        if 6 in outs: C['tolerated code 6 present']+=1
    elif m in (0,4):
        n=s[1]; base=3+n if m==0 else 4+n; nreq=s[base]
        kinds=[s[base+2+3*i] for i in range(nreq)]
        C['T1/T2 mode0/4: one call, request+outcome unchanged']+=1
        if any(x!=0 for x in kinds): C['T2: inner ERROR outcome, wrapped in n pass-through variants']+=1
        if m==0 and s[2+n]!=0: C['T1/R1: real Buffer/ConcurrencyLimit bottom']+=1
        if m==0 and s[2+n]==3: C['R1: ConcurrencyLimit(1) bottom']+=1
        if m==4:
            nl,mask=min(4,max(0,s[2+n])),s[3+n]&((1<<min(4,max(0,s[2+n])))-1)
            if mask: C['L1 mode4: some listener panics']+=1
            # a surviving listener registered AFTER a panicking one, on a layer other than reconnect, with events
            lo=[b for b in range(nl) if mask>>b&1]
            if lo and any(b>lo[0] for b in range(nl)) and any(i!=8 and i in (0,1,2,3,4,5,6,7,12,13,14,15,20,21,22) for i in s[2:2+n]): C['L2 mode4: a listener after a panicking one']+=1
            if lo and any(not (mask>>b&1) and b>lo[0] for b in range(nl)): C['L2 mode4: a NON-panicking listener after a panicking one']+=1
    else:
        lid,nl,mask=s[1],s[2],s[3]
        if lid in g.NO_LISTENER_LAYERS: C['mode2: no-listener layer (constant answer)']+=1; continue
        if mask: C['L1 mode2: some listener panics']+=1
        lo=[b for b in range(nl) if mask>>b&1]
        if lo and any(b>lo[0] for b in range(nl)): C['L2 mode2: a listener after a panicking one']+=1
print('N',N,dict(modes))
for k,v in sorted(C.items()): print('%5d %5.1f%%  %s'%(v,100*v/N,k))
