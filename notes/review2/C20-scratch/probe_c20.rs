// review2 C20 probes (scratch copy only)
use futures::FutureExt;
use std::panic::AssertUnwindSafe;
use std::sync::atomic::{AtomicUsize, Ordering};
use std::sync::Arc;
use std::time::{Duration, Instant};
use tower::{Layer, Service, ServiceExt};

/// panic payload whose destructor panics
struct Bomb;
impl Drop for Bomb {
    fn drop(&mut self) {
        if !std::thread::panicking() {
            panic!("payload dropped");
        }
    }
}

#[tokio::test]
async fn a_listener_payload_bomb_bulkhead() {
    let second = Arc::new(AtomicUsize::new(0));
    let s2 = second.clone();
    let layer = tower_resilience_bulkhead::BulkheadLayer::builder()
        .max_concurrent_calls(4)
        .on_call_permitted(|_| std::panic::panic_any(Bomb))
        .on_call_permitted(move |_| {
            s2.fetch_add(1, Ordering::SeqCst);
        })
        .build();
    let inner = tower::service_fn(|r: u32| async move { Ok::<u32, std::io::Error>(r * 10) });
    let mut svc = layer.layer(inner);
    let fut = svc.ready().await.unwrap().call(7);
    let out = AssertUnwindSafe(fut).catch_unwind().await;
    println!(
        "PROBE-A bulkhead: outcome = {:?}; second listener saw {} CallPermitted events",
        out.as_ref().map(|r| r.as_ref().map_err(|e| e.to_string())).map_err(|_| "PANIC escaped the call"),
        second.load(Ordering::SeqCst)
    );
}

#[tokio::test]
async fn a2_listener_plain_panic_bulkhead() {
    let second = Arc::new(AtomicUsize::new(0));
    let s2 = second.clone();
    let layer = tower_resilience_bulkhead::BulkheadLayer::builder()
        .max_concurrent_calls(4)
        .on_call_permitted(|_| panic!("plain"))
        .on_call_permitted(move |_| {
            s2.fetch_add(1, Ordering::SeqCst);
        })
        .build();
    let inner = tower::service_fn(|r: u32| async move { Ok::<u32, std::io::Error>(r * 10) });
    let mut svc = layer.layer(inner);
    let fut = svc.ready().await.unwrap().call(7);
    let out = AssertUnwindSafe(fut).catch_unwind().await;
    println!(
        "PROBE-A2 bulkhead plain panic: outcome = {:?}; second listener saw {}",
        out.as_ref().map(|r| r.as_ref().map_err(|e| e.to_string())).map_err(|_| "PANIC escaped the call"),
        second.load(Ordering::SeqCst)
    );
}

#[tokio::test]
async fn a3_listener_payload_bomb_cache_in_call() {
    // cache emits inside Service::call itself (not inside the future)
    let layer = tower_resilience_cache::CacheLayer::<u32, u32>::builder()
        .max_size(8)
        .key_extractor(|r: &u32| *r)
        .on_miss(|| std::panic::panic_any(Bomb))
        .build();
    let inner = tower::service_fn(|r: u32| async move { Ok::<u32, std::io::Error>(r * 10) });
    let mut svc = layer.layer(inner);
    let _ = svc.ready().await.unwrap();
    let r = std::panic::catch_unwind(AssertUnwindSafe(|| svc.call(7)));
    println!("PROBE-A3 cache: call() {}", if r.is_err() { "PANICKED" } else { "returned a future" });
}

#[derive(Debug, Clone, PartialEq)]
struct MyErr(&'static str);
impl std::fmt::Display for MyErr {
    fn fmt(&self, f: &mut std::fmt::Formatter<'_>) -> std::fmt::Result {
        write!(f, "{}", self.0)
    }
}
impl std::error::Error for MyErr {}

#[tokio::test]
async fn b1_hedge_disabled_error_variant() {
    let calls = Arc::new(AtomicUsize::new(0));
    let c = calls.clone();
    let inner = tower::service_fn(move |_r: u32| {
        let c = c.clone();
        async move {
            c.fetch_add(1, Ordering::SeqCst);
            Err::<u32, MyErr>(MyErr("app error"))
        }
    });
    let layer = tower_resilience_hedge::HedgeLayer::builder().max_hedged_attempts(1).build();
    let mut svc = layer.layer(inner);
    let out = svc.ready().await.unwrap().call(1).await;
    println!("PROBE-B1 hedge max_hedged_attempts(1), inner Err: outcome = {:?}, inner calls = {}", out, calls.load(Ordering::SeqCst));
}

#[tokio::test]
async fn b2_hedge_not_triggered_error_outcome() {
    let calls = Arc::new(AtomicUsize::new(0));
    let c = calls.clone();
    let inner = tower::service_fn(move |_r: u32| {
        let c = c.clone();
        async move {
            c.fetch_add(1, Ordering::SeqCst);
            Err::<u32, MyErr>(MyErr("app error"))
        }
    });
    // the primary answers at once; the hedge delay (300 ms) has not elapsed: protective condition not triggered
    let layer = tower_resilience_hedge::HedgeLayer::builder()
        .delay(Duration::from_millis(300))
        .max_hedged_attempts(2)
        .build();
    let mut svc = layer.layer(inner);
    let t0 = Instant::now();
    let out = svc.ready().await.unwrap().call(1).await;
    println!(
        "PROBE-B2 hedge delay 300ms, inner Err at once: outcome = {:?}, inner calls = {}, elapsed = {:?}",
        out,
        calls.load(Ordering::SeqCst),
        t0.elapsed()
    );
}

#[tokio::test]
async fn c_reconnect_callback_payload_bomb() {
    let inner = tower::service_fn(|r: u32| async move { Ok::<u32, MyErr>(r * 10) });
    let cfg = tower_resilience_reconnect::ReconnectConfig::builder()
        .on_state_change(|_, _| std::panic::panic_any(Bomb))
        .build();
    let mut svc = tower_resilience_reconnect::ReconnectLayer::new(cfg).layer(inner);
    let fut = svc.ready().await.unwrap().call(7);
    let out = AssertUnwindSafe(fut).catch_unwind().await;
    println!(
        "PROBE-C reconnect: outcome = {:?}",
        out.as_ref().map(|r| r.as_ref().map_err(|e| e.to_string())).map_err(|_| "PANIC escaped the call")
    );
}

// ---------------------------------------------------------------------------------------------
// probe D: a readiness error met before a further attempt, under an OUTER retrying layer with the
// crates' DEFAULT predicates (retry everything / reconnect on every error)
use std::sync::Mutex;
use std::task::{Context, Poll};

#[derive(Default)]
struct St {
    polls: Vec<&'static str>, // answers to the coming polls, in order (default Ready)
    calls: Vec<&'static str>, // outcomes of the coming calls, in order (default Ok)
    log: Vec<String>,
    next_id: usize,
}
struct Strict {
    st: Arc<Mutex<St>>,
    id: usize,
    ready: bool,
}
impl Clone for Strict {
    fn clone(&self) -> Self {
        let mut g = self.st.lock().unwrap();
        g.next_id += 1;
        Strict { st: self.st.clone(), id: g.next_id, ready: false }
    }
}
impl Service<u32> for Strict {
    type Response = u32;
    type Error = MyErr;
    type Future = futures::future::BoxFuture<'static, Result<u32, MyErr>>;
    fn poll_ready(&mut self, _cx: &mut Context<'_>) -> Poll<Result<(), MyErr>> {
        let mut g = self.st.lock().unwrap();
        let a = if g.polls.is_empty() { "ready" } else { g.polls.remove(0) };
        g.log.push(format!("poll#{}={}", self.id, a));
        if a == "err" {
            Poll::Ready(Err(MyErr("READINESS ERROR")))
        } else {
            self.ready = true;
            Poll::Ready(Ok(()))
        }
    }
    fn call(&mut self, r: u32) -> Self::Future {
        let mut g = self.st.lock().unwrap();
        let a = if g.calls.is_empty() { "ok" } else { g.calls.remove(0) };
        g.log.push(format!("call#{}({}){}={}", self.id, r, if self.ready { "" } else { "!NOT-READY" }, a));
        self.ready = false;
        Box::pin(async move { if a == "ok" { Ok(r * 10) } else { Err(MyErr("connection reset")) } })
    }
}

#[tokio::test]
async fn d1_retry_over_reconnect_default_predicates() {
    let st = Arc::new(Mutex::new(St { polls: vec!["ready", "err"], calls: vec!["fail"], ..Default::default() }));
    let inner = Strict { st: st.clone(), id: 0, ready: false };
    let reconnect = tower_resilience_reconnect::ReconnectLayer::new(
        tower_resilience_reconnect::ReconnectConfig::builder()
            .policy(tower_resilience_reconnect::ReconnectPolicy::fixed(Duration::from_millis(1)))
            .max_attempts(3)
            .build(),
    );
    type RE = <tower_resilience_reconnect::ReconnectService<Strict> as Service<u32>>::Error;
    // ReconnectError is not Clone: fold it into a Clone error, keeping the variant
    let mapped = tower::util::MapErr::new(reconnect.layer(inner), |e: RE| match e {
        RE::ServiceError(x) => MyErr(if x.0 == "READINESS ERROR" { "pass-through(READINESS ERROR)" } else { "pass-through(other)" }),
        _ => MyErr("reconnect's own variant"),
    });
    let retry = tower_resilience_retry::RetryLayer::<u32, MyErr>::builder()
        .max_attempts(3)
        .fixed_backoff(Duration::from_millis(1))
        .build();
    let mut svc = retry.layer(mapped);
    let out = svc.ready().await.unwrap().call(7).await;
    println!("PROBE-D1 retry(default policy) over reconnect(default predicate): outcome = {:?}\n   log = {:?}", out, st.lock().unwrap().log);
}

#[tokio::test]
async fn d2_retry_over_retry_default_policy() {
    let st = Arc::new(Mutex::new(St { polls: vec!["ready", "err"], calls: vec!["fail"], ..Default::default() }));
    let inner = Strict { st: st.clone(), id: 0, ready: false };
    let mk = || tower_resilience_retry::RetryLayer::<u32, MyErr>::builder().max_attempts(3).fixed_backoff(Duration::from_millis(1)).build();
    let mut svc = mk().layer(mk().layer(inner));
    let out = svc.ready().await.unwrap().call(7).await;
    println!("PROBE-D2 retry over retry (default policies): outcome = {:?}\n   log = {:?}", out, st.lock().unwrap().log);
}

#[tokio::test]
async fn d3_single_retry_default_policy() {
    let st = Arc::new(Mutex::new(St { polls: vec!["ready", "err"], calls: vec!["fail"], ..Default::default() }));
    let inner = Strict { st: st.clone(), id: 0, ready: false };
    let retry = tower_resilience_retry::RetryLayer::<u32, MyErr>::builder().max_attempts(3).fixed_backoff(Duration::from_millis(1)).build();
    let mut svc = retry.layer(inner);
    let out = svc.ready().await.unwrap().call(7).await;
    println!("PROBE-D3 single retry (default policy): outcome = {:?}\n   log = {:?}", out, st.lock().unwrap().log);
}
