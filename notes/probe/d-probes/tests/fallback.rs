//! C17 (+ C20 for fallback) probes. Run: cargo test --offline --test fallback -- --test-threads=1 --nocapture
use probe_d::*;
use std::panic::{catch_unwind, AssertUnwindSafe};
use std::sync::atomic::{AtomicUsize, Ordering};
use std::sync::{Arc, Mutex};
use std::task::Poll;
use std::time::Duration;
use tower::{Layer, Service, ServiceExt};
use tower_resilience_fallback::{FallbackError, FallbackEvent, FallbackLayer};

#[derive(Clone, Debug, PartialEq)]
struct Req {
    id: u32,
    body: String,
}
#[derive(Clone, Debug, PartialEq)]
enum Res {
    Inner(Req),
    Value,
    ValueFn(usize),
    FromErr(MyErr),
    FromReqErr(Req, MyErr),
    Backup(Req),
}
#[derive(Clone, Debug, PartialEq)]
enum MyErr {
    Inner(u32, bool), // (request id, "handled" flag for the predicate)
    Backup(u32),
    Transformed(Box<MyErr>),
}

type Log = Arc<Mutex<Vec<String>>>;
type L = FallbackLayer<Req, Res, MyErr>;

/// strategy 0..=5 x predicate 0 none / 1 by flag / 2 never / 3 always, built through different routes
fn build(strategy: usize, pred: usize, route: usize, log: Log, listeners: usize, backup_ok: bool) -> L {
    let lg = log.clone();
    let vcount = Arc::new(AtomicUsize::new(0));
    if route == 0 && pred == 0 && listeners == 0 {
        // convenience constructors
        let l2 = lg.clone();
        return match strategy {
            0 => L::value(Res::Value),
            1 => L::value_fn(move || { lg.lock().unwrap().push("value_fn".into()); Res::ValueFn(vcount.fetch_add(1, Ordering::SeqCst)) }),
            2 => L::from_error(move |e| { lg.lock().unwrap().push(format!("from_error {e:?}")); Res::FromErr(e.clone()) }),
            3 => L::from_request_error(move |r, e| { lg.lock().unwrap().push(format!("from_req_err {} {e:?}", r.id)); Res::FromReqErr(r.clone(), e.clone()) }),
            4 => L::service(move |r: Req| { l2.lock().unwrap().push(format!("backup {}", r.id)); async move { tokio::task::yield_now().await; if backup_ok { Ok(Res::Backup(r)) } else { Err(MyErr::Backup(r.id)) } } }),
            _ => L::exception(move |e| { lg.lock().unwrap().push(format!("exception {e:?}")); MyErr::Transformed(Box::new(e)) }),
        };
    }
    let mut b = L::builder();
    let add_pred = |b: tower_resilience_fallback::FallbackConfigBuilder<Req, Res, MyErr>, log: Log| match pred {
        0 => b,
        1 => b.handle(move |e| { log.lock().unwrap().push(format!("pred {e:?}")); matches!(e, MyErr::Inner(_, true)) }),
        2 => b.handle(move |e| { log.lock().unwrap().push(format!("pred {e:?}")); false }),
        _ => b.handle(|_| false).handle(move |e| { log.lock().unwrap().push(format!("pred {e:?}")); true }),
    };
    if route == 1 {
        b = add_pred(b, log.clone());
    }
    if route == 2 {
        // a decoy strategy first: last one wins
        b = b.exception(|e| e).value(Res::Backup(Req { id: 0, body: "decoy".into() }));
    }
    for i in 0..listeners {
        // listener 0 panics with a String, 1 with a bomb, 2 counts
        let lg2 = log.clone();
        b = b.on_event(move |e: &FallbackEvent| match i {
            0 => panic_string(),
            1 => panic_bomb(),
            _ => lg2.lock().unwrap().push(format!("event {}", tower_resilience_core::ResilienceEvent::event_type(e))),
        });
    }
    let l2 = lg.clone();
    b = match strategy {
        0 => b.value(Res::Value),
        1 => b.value_fn(move || { lg.lock().unwrap().push("value_fn".into()); Res::ValueFn(vcount.fetch_add(1, Ordering::SeqCst)) }),
        2 => b.from_error(move |e| { lg.lock().unwrap().push(format!("from_error {e:?}")); Res::FromErr(e.clone()) }),
        3 => b.from_request_error(move |r, e| { lg.lock().unwrap().push(format!("from_req_err {} {e:?}", r.id)); Res::FromReqErr(r.clone(), e.clone()) }),
        4 => b.service(move |r: Req| { l2.lock().unwrap().push(format!("backup {}", r.id)); async move { tokio::task::yield_now().await; if backup_ok { Ok(Res::Backup(r)) } else { Err(MyErr::Backup(r.id)) } } }),
        _ => b.exception(move |e| { lg.lock().unwrap().push(format!("exception {e:?}")); MyErr::Transformed(Box::new(e)) }),
    };
    if route != 1 {
        b = add_pred(b, log.clone());
    }
    b.name("n1").name("n2").build()
}

/// reference: what must come out, and which user closures must have been invoked
fn expect(strategy: usize, pred: usize, req: &Req, outcome: u8, backup_ok: bool) -> (String, Vec<String>) {
    // outcome 0 ok, 1 error flagged handled, 2 error not flagged
    if outcome == 0 {
        return (format!("Ok({:?})", Res::Inner(req.clone())), vec![]);
    }
    let e = MyErr::Inner(req.id, outcome == 1);
    let mut log = vec![];
    let accept = match pred {
        0 => true,
        1 => { log.push(format!("pred {e:?}")); outcome == 1 }
        2 => { log.push(format!("pred {e:?}")); false }
        _ => { log.push(format!("pred {e:?}")); true }
    };
    if !accept {
        return (format!("Err(Inner({e:?}))"), log);
    }
    let r = match strategy {
        0 => format!("Ok({:?})", Res::Value),
        1 => { log.push("value_fn".into()); "Ok(ValueFn(_))".to_string() }
        2 => { log.push(format!("from_error {e:?}")); format!("Ok({:?})", Res::FromErr(e.clone())) }
        3 => { log.push(format!("from_req_err {} {e:?}", req.id)); format!("Ok({:?})", Res::FromReqErr(req.clone(), e.clone())) }
        4 => { log.push(format!("backup {}", req.id)); if backup_ok { format!("Ok({:?})", Res::Backup(req.clone())) } else { format!("Err(FallbackFailed({:?}))", MyErr::Backup(req.id)) } }
        _ => { log.push(format!("exception {e:?}")); format!("Err(Inner({:?}))", MyErr::Transformed(Box::new(e.clone()))) }
    };
    (r, log)
}

#[tokio::test]
async fn a_full_grid_with_routes_and_panicking_listeners() {
    quiet_panics();
    let mut n = 0;
    for strategy in 0..6 {
        for pred in 0..4 {
            for route in 0..3 {
                for listeners in [0usize, 3] {
                    for backup_ok in [true, false] {
                        for immediate in [true, false] {
                            let log: Log = Default::default();
                            let layer = build(strategy, pred, route, log.clone(), listeners, backup_ok);
                            let inner_log = Arc::new(Mutex::new(Vec::<Req>::new()));
                            let il = inner_log.clone();
                            let mk = move || {
                                let il = il.clone();
                                Strict::new(move |_id, (r, outcome): (Req, u8)| {
                                    il.lock().unwrap().push(r.clone());
                                    async move {
                                        if !immediate {
                                            tokio::task::yield_now().await;
                                        }
                                        match outcome {
                                            0 => Ok(Res::Inner(r)),
                                            1 => Err(MyErr::Inner(r.id, true)),
                                            _ => Err(MyErr::Inner(r.id, false)),
                                        }
                                    }
                                })
                            };
                            // Fallback needs Service<Req>; wrap (Req,u8) by encoding the outcome in the body
                            let strict = mk();
                            let shared = strict.shared.clone();
                            let adapter = Adapter(strict);
                            // the same layer on two services, and a cloned layer
                            let mut s1 = layer.layer(adapter.clone());
                            let mut s2 = layer.clone().layer(adapter);
                            for (k, outcome) in [0u8, 1, 2, 0, 1].into_iter().enumerate() {
                                let req = Req { id: 100 + k as u32, body: format!("b{outcome}") };
                                log.lock().unwrap().clear();
                                let svc = if k % 2 == 0 { &mut s1 } else { &mut s2 };
                                let mut c;
                                let svc = if k == 3 { c = svc.clone(); &mut c } else { svc };
                                let r = svc.ready().await.unwrap().call(req.clone()).await;
                                let got = match &r {
                                    Ok(Res::ValueFn(_)) => "Ok(ValueFn(_))".to_string(),
                                    Ok(x) => format!("Ok({x:?})"),
                                    Err(FallbackError::Inner(e)) => format!("Err(Inner({e:?}))"),
                                    Err(FallbackError::FallbackFailed(e)) => format!("Err(FallbackFailed({e:?}))"),
                                };
                                let (want, want_log) = expect(strategy, pred, &req, outcome, backup_ok);
                                let user_log: Vec<String> = log.lock().unwrap().iter().filter(|l| !l.starts_with("event")).cloned().collect();
                                let ctx = format!("strategy {strategy} pred {pred} route {route} listeners {listeners} backup_ok {backup_ok} immediate {immediate} outcome {outcome}");
                                assert_eq!(got, want, "{ctx}");
                                assert_eq!(user_log, want_log, "{ctx}");
                                assert_eq!(inner_log.lock().unwrap().last(), Some(&req), "{ctx}");
                                if listeners > 0 {
                                    let ev = log.lock().unwrap().iter().filter(|l| l.starts_with("event")).count();
                                    assert!(ev >= 1, "third listener got no event: {ctx}");
                                }
                                n += 1;
                            }
                            assert_eq!(inner_log.lock().unwrap().len(), 5);
                            assert_eq!(shared.violations.load(Ordering::SeqCst), 0, "{:?}", shared.log.lock().unwrap());
                        }
                    }
                }
            }
        }
    }
    println!("PROBE fallback grid: {n} calls conform");
}

#[derive(Clone)]
struct Adapter(Strict<(Req, u8), Res, MyErr>);
impl Service<Req> for Adapter {
    type Response = Res;
    type Error = MyErr;
    type Future = <Strict<(Req, u8), Res, MyErr> as Service<(Req, u8)>>::Future;
    fn poll_ready(&mut self, cx: &mut std::task::Context<'_>) -> Poll<Result<(), MyErr>> {
        self.0.poll_ready(cx)
    }
    fn call(&mut self, r: Req) -> Self::Future {
        let o = r.body[1..].parse().unwrap();
        self.0.call((r, o))
    }
}

/// readiness: pending / failing; the strategy must not be applied to a readiness error
#[tokio::test]
async fn b_readiness() {
    let log: Log = Default::default();
    for strategy in 0..6 {
        let layer = build(strategy, 0, 1, log.clone(), 0, true);
        let strict = Strict::with_ready(
            |_id, (r, _o): (Req, u8)| async move { Ok(Res::Inner(r)) },
            |id, n| match (id, n) {
                (_, 0) => Poll::Pending,
                (1, 1) => Poll::Ready(Err(MyErr::Inner(7, true))),
                _ => Poll::Ready(Ok(())),
            },
        );
        let shared = strict.shared.clone();
        let mut svc = layer.layer(Adapter(strict));
        let req = Req { id: 1, body: "b0".into() };
        assert_eq!(svc.ready().await.unwrap().call(req.clone()).await.unwrap(), Res::Inner(req.clone()));
        log.lock().unwrap().clear();
        let e = svc.ready().await.err().unwrap();
        assert!(matches!(e, FallbackError::Inner(MyErr::Inner(7, true))), "{e:?}");
        assert!(log.lock().unwrap().is_empty(), "strategy invoked for a readiness error");
        assert_eq!(svc.ready().await.unwrap().call(req.clone()).await.unwrap(), Res::Inner(req.clone()));
        assert_eq!(shared.violations.load(Ordering::SeqCst), 0, "{:?}", shared.log.lock().unwrap());
    }
}

/// user closures that panic: predicate, strategy, backup; inner.call panicking synchronously.
/// Observed (C17 does not say what must happen); the service must stay usable.
#[tokio::test]
async fn c_panicking_closures() {
    quiet_panics();
    let cases: Vec<(&str, L)> = vec![
        ("predicate", L::builder().value(Res::Value).handle(|e| if matches!(e, MyErr::Inner(1, _)) { panic!("pred") } else { true }).build()),
        ("value_fn", L::value_fn(|| panic!("value_fn"))),
        ("from_error", L::from_error(|e| if matches!(e, MyErr::Inner(1, _)) { panic!("fe") } else { Res::Value })),
        ("backup", L::service(|r: Req| async move { if r.id == 1 { panic!("backup") } else { Ok(Res::Backup(r)) } })),
        ("exception", L::exception(|e| if matches!(e, MyErr::Inner(1, _)) { panic!("ex") } else { e })),
    ];
    for (name, layer) in cases {
        let strict = Strict::new(|_id, (r, o): (Req, u8)| async move { if o == 0 { Ok(Res::Inner(r)) } else { Err(MyErr::Inner(r.id, true)) } });
        let shared = strict.shared.clone();
        let mut svc = layer.layer(Adapter(strict));
        let fut = svc.ready().await.unwrap().call(Req { id: 1, body: "b1".into() });
        let r = tokio::spawn(fut).await;
        let panicked = r.is_err();
        // success path unaffected
        let ok = svc.ready().await.unwrap().call(Req { id: 1, body: "b0".into() }).await;
        assert!(matches!(ok, Ok(Res::Inner(_))));
        // sync panic in inner.call
        shared.sync_panic.store(true, Ordering::SeqCst);
        let fut = svc.ready().await.unwrap().call(Req { id: 2, body: "b0".into() });
        let r2 = tokio::spawn(fut).await;
        shared.sync_panic.store(false, Ordering::SeqCst);
        let ok = svc.ready().await.unwrap().call(Req { id: 3, body: "b0".into() }).await;
        assert!(matches!(ok, Ok(Res::Inner(_))));
        println!("PROBE fallback: panicking {name}: call future panicked = {panicked}; sync inner panic -> future panicked = {}; service usable afterwards", r2.is_err());
        assert_eq!(shared.violations.load(Ordering::SeqCst), 0);
    }
    let _ = catch_unwind(AssertUnwindSafe(|| ()));
}

/// build() without a strategy
#[test]
fn d_no_strategy() {
    quiet_panics();
    let r = catch_unwind(|| { let _ = L::builder().handle(|_| true).build(); });
    println!("PROBE fallback: build() without a strategy: {}", if r.is_err() { "panics (documented: 'fallback strategy must be set')" } else { "ok" });
}

/// real threads
#[test]
fn e_threads() {
    let rt = tokio::runtime::Builder::new_multi_thread().worker_threads(8).enable_all().build().unwrap();
    let log: Log = Default::default();
    for strategy in 0..6 {
        let layer = build(strategy, 1, 1, log.clone(), 3, false);
        let strict = Strict::new(|_id, (r, o): (Req, u8)| async move {
            tokio::time::sleep(Duration::from_micros((r.id % 7) as u64 * 50)).await;
            match o { 0 => Ok(Res::Inner(r)), 1 => Err(MyErr::Inner(r.id, true)), _ => Err(MyErr::Inner(r.id, false)) }
        });
        let svc = layer.layer(Adapter(strict));
        rt.block_on(async {
            let mut hs = vec![];
            for id in 0..300u32 {
                let mut s = svc.clone();
                hs.push(tokio::spawn(async move {
                    let o = (id % 3) as u8;
                    let req = Req { id, body: format!("b{o}") };
                    let r = s.ready().await.unwrap().call(req.clone()).await;
                    let got = match &r {
                        Ok(Res::ValueFn(_)) => "Ok(ValueFn(_))".to_string(),
                        Ok(x) => format!("Ok({x:?})"),
                        Err(FallbackError::Inner(e)) => format!("Err(Inner({e:?}))"),
                        Err(FallbackError::FallbackFailed(e)) => format!("Err(FallbackFailed({e:?}))"),
                    };
                    assert_eq!(got, expect(strategy, 1, &req, o, false).0);
                }));
            }
            for h in hs {
                h.await.unwrap();
            }
        });
    }
}
