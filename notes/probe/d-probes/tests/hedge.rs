//! C12 (+ C20 for hedge) probes. Run: cargo test --offline --test hedge -- --test-threads=1 --nocapture
use probe_d::*;
use std::collections::HashMap;
use std::sync::atomic::{AtomicUsize, Ordering};
use std::sync::{Arc, Mutex};
use std::task::Poll;
use std::time::{Duration, Instant};
use tower::{Layer, Service, ServiceExt};
use tower_resilience_hedge::{Hedge, HedgeConfig, HedgeError, HedgeLayer};

/// Scripted inner: per request id, the n-th inner call (n = order of arrival) takes lat[n] ms and
/// ends ok/err as out[n]; attempts beyond the script: 1 ms, err. Records start instants.
#[derive(Default)]
struct Script {
    plans: Mutex<HashMap<u64, Vec<(u64, bool)>>>,
    starts: Mutex<HashMap<u64, Vec<Instant>>>,
    finished: Mutex<HashMap<u64, Vec<(usize, bool, Instant)>>>,
}
type Resp = (u64, usize); // (request id, attempt index that answered)

fn inner(s: Arc<Script>) -> impl Service<u64, Response = Resp, Error = String, Future = impl Send> + Clone + Send {
    tower::service_fn(move |id: u64| {
        let s = s.clone();
        let n = {
            let mut st = s.starts.lock().unwrap();
            let v = st.entry(id).or_default();
            v.push(Instant::now());
            v.len() - 1
        };
        let (lat, ok) = s.plans.lock().unwrap().get(&id).and_then(|p| p.get(n).copied()).unwrap_or((1, false));
        async move {
            if lat > 0 {
                tokio::time::sleep(Duration::from_millis(lat)).await;
            }
            s.finished.lock().unwrap().entry(id).or_default().push((n, ok, Instant::now()));
            if ok {
                Ok((id, n))
            } else {
                Err(format!("e{id}-{n}"))
            }
        }
    })
}

#[derive(Clone, Copy, Debug)]
enum D {
    Fixed(Duration),
    NoDelay,
    FnConst(Duration),
    FnZeroThen(Duration), // first delay zero, later ones d (dfabe11)
    NewRoute(Duration),   // HedgeLayer::new(d): max 2
}

fn layer(d: D, max: usize) -> HedgeLayer {
    let b = HedgeLayer::builder();
    match d {
        D::Fixed(x) => b.no_delay().max_hedged_attempts(7).delay(x).max_hedged_attempts(max).build(),
        D::NoDelay => b.delay(Duration::from_secs(9)).max_hedged_attempts(max).no_delay().build(),
        D::FnConst(x) => b.max_hedged_attempts(max).delay_fn(move |_| x).name("n").build(),
        D::FnZeroThen(x) => b.delay_fn(move |a| if a == 1 { Duration::ZERO } else { x }).max_hedged_attempts(max).build(),
        D::NewRoute(x) => HedgeLayer::new(x),
    }
}

fn delay_of(d: D, attempt: usize) -> Option<Duration> {
    // None = parallel mode (everything at once)
    match d {
        D::Fixed(x) | D::NewRoute(x) => if x.is_zero() { None } else { Some(x) },
        D::NoDelay => None,
        D::FnConst(x) => Some(x),
        D::FnZeroThen(x) => Some(if attempt == 1 { Duration::ZERO } else { x }),
    }
}

/// Grid over max, delay kinds with extreme values, and outcome vectors; real clock.
#[tokio::test(flavor = "multi_thread", worker_threads = 4)]
async fn a_grid_real_clock() {
    let ms = Duration::from_millis;
    let delays = [
        D::Fixed(Duration::ZERO), D::Fixed(Duration::from_nanos(1)), D::Fixed(ms(15)), D::Fixed(Duration::MAX),
        D::NoDelay, D::FnConst(Duration::ZERO), D::FnConst(ms(15)), D::FnConst(Duration::MAX), D::FnZeroThen(ms(15)),
        D::NewRoute(ms(15)), D::NewRoute(Duration::ZERO), D::NewRoute(Duration::MAX),
    ];
    // plans: (latency ms, ok)
    let plans: Vec<Vec<(u64, bool)>> = vec![
        vec![(0, true)],
        vec![(2, true), (2, true), (2, true)],
        vec![(60, true), (0, false), (0, false)],          // slow ok primary, hedges fail at once
        vec![(0, false), (0, false), (0, false), (0, false)], // all fail at once
        vec![(0, false), (40, true)],                       // primary fails at once, hedge ok
        vec![(60, false), (1, true)],
        vec![(40, false), (40, false), (1, true)],
        vec![(30, false), (5, false), (5, false)],
    ];
    let mut id = 0u64;
    let mut handles = vec![];
    for &d in &delays {
        for max_cfg in [0usize, 1, 2, 3, usize::MAX] {
            if max_cfg == usize::MAX && delay_of(d, 2).map_or(true, |x| x < ms(10)) {
                continue; // would start an unbounded number of attempts at once: by request
            }
            for plan in &plans {
                if max_cfg == usize::MAX && !plan.iter().any(|p| p.1) {
                    continue; // all of usize::MAX attempts fail: hedging goes on for ever, as configured
                }
                id += 1;
                let s = Arc::new(Script::default());
                s.plans.lock().unwrap().insert(id, plan.clone());
                let max = if matches!(d, D::NewRoute(_)) { 2 } else { max_cfg.max(1) };
                let mut svc = layer(d, max_cfg).layer(inner(s.clone()));
                let plan = plan.clone();
                handles.push(tokio::spawn(async move {
                    let t0 = Instant::now();
                    let fut = svc.ready().await.unwrap().call(id);
                    let r = tokio::time::timeout(Duration::from_secs(4), fut).await;
                    let took = t0.elapsed();
                    tokio::time::sleep(ms(150)).await; // let detached attempts finish
                    let starts = s.starts.lock().unwrap().get(&id).cloned().unwrap_or_default();
                    let ctx = format!("{d:?} max {max_cfg} plan {plan:?}: result {r:?} after {took:?}, {} starts", starts.len());
                    // clause 1: at most max inner calls
                    assert!(starts.len() <= max, "TOO MANY ATTEMPTS {ctx}");
                    // clause 2: spacing
                    for (i, w) in starts.windows(2).enumerate() {
                        if let Some(dl) = delay_of(d, i + 1) {
                            if dl < Duration::from_secs(1000) {
                                assert!(w[1] - w[0] + Duration::from_micros(1500) >= dl, "HEDGE TOO EARLY {ctx}");
                            } else {
                                panic!("HEDGE BEFORE Duration::MAX {ctx}");
                            }
                        }
                    }
                    // outcome: which attempts exist in the ideal run? attempt n (n<max) starts unless an earlier success ended the call
                    let any_ok_possible = plan.iter().take(max).any(|p| p.1);
                    let never_hedges = delay_of(d, 1).map_or(false, |x| x > Duration::from_secs(1000));
                    match r {
                        Err(_) => {
                            // no result within 4 s: allowed only if a success is impossible before an endless delay,
                            // i.e. primary failed / is failing and the hedge can never start
                            assert!(never_hedges && max > 1 && !plan[0].1, "HANG {ctx}");
                        }
                        Ok(Ok((rid, n))) => {
                            assert_eq!(rid, id);
                            assert!(plan.get(n).map_or(false, |p| p.1), "OK FROM A FAILED ATTEMPT {ctx}");
                        }
                        Ok(Err(HedgeError::AllAttemptsFailed(e))) => {
                            assert!(e.starts_with(&format!("e{id}-")), "foreign error {ctx}");
                            // only when every attempt it can start has been started and failed
                            assert_eq!(starts.len(), max, "ALL-FAILED BEFORE ALL STARTED {ctx}");
                            assert!(!any_ok_possible, "ALL-FAILED ALTHOUGH AN ATTEMPT SUCCEEDS {ctx}");
                        }
                        Ok(Err(HedgeError::Inner(e))) => panic!("Inner({e}) {ctx}"),
                    }
                }));
            }
        }
    }
    let n = handles.len();
    let mut failed = 0;
    for h in handles {
        if let Err(e) = h.await {
            failed += 1;
            let p = e.into_panic();
            println!("PROBE hedge grid VIOLATION: {}", p.downcast_ref::<String>().cloned().unwrap_or_default());
        }
    }
    println!("PROBE hedge grid: {n} cases, {failed} violations");
    assert_eq!(failed, 0);
}

/// listeners that panic (String / Bomb payload) on every event kind; a well-behaved one counts
#[tokio::test(flavor = "multi_thread", worker_threads = 2)]
async fn b_panicking_listeners() {
    quiet_panics();
    use tower_resilience_core::FnListener;
    use tower_resilience_hedge::HedgeEvent;
    for style in 0..2 {
        for (plan, max, par) in [
            (vec![(0u64, true)], 2usize, false),
            (vec![(40, true), (1, true)], 2, false),
            (vec![(0, false), (0, false), (0, false)], 3, false),
            (vec![(0, false), (0, false), (0, false)], 3, true),
            (vec![(30, false), (0, true)], 2, true),
        ] {
            let mut results = vec![];
            let mut counts = vec![];
            for with_panics in [false, true] {
                let cnt = Arc::new(AtomicUsize::new(0));
                let c = cnt.clone();
                let mut b = HedgeLayer::builder().max_hedged_attempts(max);
                b = if par { b.no_delay() } else { b.delay(Duration::from_millis(10)) };
                if with_panics {
                    b = b.on_event(FnListener::new(move |_e: &HedgeEvent| if style == 0 { panic_string() } else { panic_bomb() }));
                }
                b = b.on_event(FnListener::new(move |_e: &HedgeEvent| { c.fetch_add(1, Ordering::SeqCst); }));
                let s = Arc::new(Script::default());
                s.plans.lock().unwrap().insert(1, plan.clone());
                let mut svc = b.build().layer(inner(s.clone()));
                let r = tokio::time::timeout(Duration::from_secs(3), svc.ready().await.unwrap().call(1)).await.expect("hang");
                results.push(format!("{r:?}"));
                counts.push(cnt.load(Ordering::SeqCst));
            }
            assert_eq!(results[0], results[1], "listener changed the outcome");
            assert_eq!(counts[0], counts[1], "second listener missed events");
        }
    }
}

/// a delay function that panics: what happens (not specified by C12; observed)
#[tokio::test]
async fn c_delay_fn_panics() {
    quiet_panics();
    let s = Arc::new(Script::default());
    s.plans.lock().unwrap().insert(1, vec![(20, true)]);
    let l = HedgeLayer::builder().max_hedged_attempts(3).delay_fn(|a| if a == 2 { panic!("delay fn") } else { Duration::from_millis(2) }).build();
    let mut svc = l.layer(inner(s.clone()));
    let fut = svc.ready().await.unwrap().call(1);
    let r = tokio::spawn(fut).await;
    println!("PROBE hedge delay_fn panics at attempt 2 while the primary succeeds at 20 ms: {:?}", r.map_err(|e| e.is_panic()));
}

/// real threads: many concurrent hedged calls, random plans; counts and verdicts
#[test]
fn d_threads_stress() {
    let rt = tokio::runtime::Builder::new_multi_thread().worker_threads(8).enable_all().build().unwrap();
    for (par, max) in [(false, 2usize), (false, 4), (true, 3)] {
        let s = Arc::new(Script::default());
        let b = HedgeLayer::builder().max_hedged_attempts(max);
        let l = if par { b.no_delay().build() } else { b.delay(Duration::from_millis(3)).build() };
        let svc = l.layer(inner(s.clone()));
        rt.block_on(async {
            let mut hs = vec![];
            for id in 0..300u64 {
                let x = id.wrapping_mul(0x9E3779B97F4A7C15);
                let plan: Vec<(u64, bool)> = (0..max).map(|n| (((x >> (n * 5)) % 9), ((x >> (20 + n)) & 3) == 0)).collect();
                s.plans.lock().unwrap().insert(id, plan.clone());
                let mut svc = svc.clone();
                hs.push(tokio::spawn(async move {
                    let r = tokio::time::timeout(Duration::from_secs(5), async { svc.ready().await.unwrap().call(id).await }).await.expect("hang");
                    (id, plan, r)
                }));
            }
            let mut out = vec![];
            for h in hs {
                out.push(h.await.unwrap());
            }
            tokio::time::sleep(Duration::from_millis(100)).await;
            let (mut ok, mut af) = (0, 0);
            for (id, plan, r) in out {
                let starts = s.starts.lock().unwrap().get(&id).map_or(0, |v| v.len());
                assert!(starts <= max, "id {id}: {starts} starts");
                let any_ok = plan.iter().any(|p| p.1);
                match r {
                    Ok((rid, n)) => {
                        assert!(rid == id && plan[n].1);
                        ok += 1
                    }
                    Err(HedgeError::AllAttemptsFailed(e)) => {
                        assert!(e.starts_with(&format!("e{id}-")));
                        assert!(!any_ok, "id {id} plan {plan:?}: all-failed although an attempt succeeds");
                        assert_eq!(starts, max);
                        af += 1
                    }
                    Err(HedgeError::Inner(e)) => panic!("Inner {e}"),
                }
                assert_eq!(any_ok, r_is_ok(&plan, any_ok));
            }
            println!("PROBE hedge stress par={par} max={max}: ok {ok}, all-failed {af}");
        });
    }
}
fn r_is_ok(_p: &[(u64, bool)], a: bool) -> bool {
    a
}

/// C20: strict inner service; clones pending for a while / failing readiness; Buffer and ConcurrencyLimit
#[tokio::test(flavor = "multi_thread", worker_threads = 2)]
async fn e_readiness() {
    for par in [false, true] {
        // clones (id >= 1) are pending twice; attempt on clone id 3 fails readiness
        let strict = Strict::with_ready(
            |id, k: u32| async move {
                tokio::time::sleep(Duration::from_millis(5)).await;
                if id % 2 == 0 { Err(format!("e-{id}")) } else { Ok::<_, String>((k, id)) }
            },
            |id, n| match (id, n) {
                (0, _) => Poll::Ready(Ok(())),
                (_, 0) | (_, 1) => Poll::Pending,
                _ => Poll::Ready(Ok(())),
            },
        );
        let shared = strict.shared.clone();
        let b = HedgeLayer::builder().max_hedged_attempts(3);
        let l = if par { b.no_delay().build() } else { b.delay(Duration::from_millis(2)).build() };
        let mut svc = l.layer(strict);
        for _ in 0..5 {
            let r = tokio::time::timeout(Duration::from_secs(3), svc.ready().await.unwrap().call(1)).await.expect("hang");
            // instance ids are odd/even by clone order: whatever wins, it must be an Ok from an odd instance or all failed
            match r {
                Ok((1, id)) => assert!(id % 2 == 1),
                Err(HedgeError::AllAttemptsFailed(_)) => {}
                other => panic!("{other:?}"),
            }
        }
        tokio::time::sleep(Duration::from_millis(50)).await;
        assert_eq!(shared.violations.load(Ordering::SeqCst), 0, "par {par}: {:?}", shared.log.lock().unwrap());
    }
    // ConcurrencyLimit(1) under a 3-way parallel hedge whose attempts all fail: must resolve, 3 calls
    let calls = Arc::new(AtomicUsize::new(0));
    let c = calls.clone();
    let base = tower::service_fn(move |_k: u32| {
        let c = c.clone();
        async move {
            c.fetch_add(1, Ordering::SeqCst);
            tokio::time::sleep(Duration::from_millis(3)).await;
            Err::<u32, String>("x".into())
        }
    });
    for par in [true, false] {
        calls.store(0, Ordering::SeqCst);
        let limited = tower::limit::ConcurrencyLimit::new(base.clone(), 1);
        let b = HedgeLayer::builder().max_hedged_attempts(3);
        let l = if par { b.no_delay().build() } else { b.delay(Duration::from_millis(1)).build() };
        let mut svc = l.layer(limited);
        let r = tokio::time::timeout(Duration::from_secs(3), svc.ready().await.unwrap().call(1)).await.expect("hang over ConcurrencyLimit(1)");
        assert!(matches!(r, Err(HedgeError::AllAttemptsFailed(_))));
        assert_eq!(calls.load(Ordering::SeqCst), 3);
        // and the handle is usable again
        let r = tokio::time::timeout(Duration::from_secs(3), svc.ready().await.unwrap().call(1)).await.expect("hang 2");
        assert!(r.is_err());
    }
    // (Hedge over tower::buffer::Buffer does not type-check: BoxError is not Clone)
}

/// Hedge::new with HedgeConfig::default(); dropping the call future at odd moments
#[tokio::test(flavor = "multi_thread", worker_threads = 2)]
async fn f_direct_construction_and_drop() {
    let s = Arc::new(Script::default());
    s.plans.lock().unwrap().insert(1, vec![(5, true)]);
    let mut h = Hedge::new(inner(s.clone()), HedgeConfig::default());
    assert_eq!(h.ready().await.unwrap().call(1).await.unwrap(), (1, 0));
    let mut h2 = h.clone();
    s.plans.lock().unwrap().insert(2, vec![(50, false), (50, false), (50, false)]);
    let l = HedgeLayer::builder().max_hedged_attempts(3).delay(Duration::from_millis(5)).build();
    let mut svc = l.layer(inner(s.clone()));
    let fut = svc.ready().await.unwrap().call(2);
    let _ = tokio::time::timeout(Duration::from_millis(8), fut).await; // dropped after the first hedge
    tokio::time::sleep(Duration::from_millis(100)).await;
    let n = s.starts.lock().unwrap().get(&2).map_or(0, |v| v.len());
    println!("PROBE hedge: call future dropped at 8 ms (delay 5 ms, max 3): {n} inner calls were made in total");
    assert!(n <= 3);
    // never polled
    let fut = h2.ready().await.unwrap().call(3);
    drop(fut);
    tokio::time::sleep(Duration::from_millis(20)).await;
    assert!(s.starts.lock().unwrap().get(&3).is_none());
}

/// paused clock (test-util): delays in virtual time, sub-ms and huge delays
#[tokio::test(start_paused = true)]
async fn g_paused_clock() {
    for (d, plan, want_ok) in [
        (Duration::from_micros(1), vec![(10u64, true), (1, false)], true),
        (Duration::from_secs(86_400 * 365 * 100), vec![(1_000_000, true)], true),
        (Duration::from_millis(10), vec![(100, true), (0, false)], true),
        (Duration::from_millis(10), vec![(100, false), (200, false)], false),
    ] {
        let s = Arc::new(Script::default());
        s.plans.lock().unwrap().insert(1, plan.clone());
        let mut svc = HedgeLayer::builder().delay(d).max_hedged_attempts(2).build().layer(inner(s.clone()));
        let r = svc.ready().await.unwrap().call(1).await;
        assert_eq!(r.is_ok(), want_ok, "{d:?} {plan:?} {r:?}");
    }
}
