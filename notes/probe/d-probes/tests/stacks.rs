//! C20 for the four layers stacked in unusual orders, non-triggering configuration, strict inner service,
//! panicking listeners everywhere. Run: cargo test --offline --test stacks -- --nocapture
use probe_d::*;
use std::sync::atomic::Ordering;
use std::task::Poll;
use std::time::Duration;
use tower::{Layer, Service, ServiceExt};
use tower_resilience_cache::{CacheError, CacheLayer};
use tower_resilience_coalesce::{CoalesceError, CoalesceLayer};
use tower_resilience_core::FnListener;
use tower_resilience_fallback::{FallbackError, FallbackLayer};
use tower_resilience_hedge::{HedgeError, HedgeEvent, HedgeLayer};

fn strict() -> Strict<(u32, String), (u32, String, usize), String> {
    Strict::with_ready(
        |id, (k, body): (u32, String)| async move {
            tokio::task::yield_now().await;
            if k % 5 == 4 { Err(format!("app-error {k}")) } else { Ok((k, body, id)) }
        },
        |_id, n| if n == 0 { Poll::Pending } else { Poll::Ready(Ok(())) },
    )
}

#[tokio::test(flavor = "multi_thread", worker_threads = 2)]
async fn cache_coalesce_fallback_hedge() {
    quiet_panics();
    let inner = strict();
    let shared = inner.shared.clone();
    let hedge = HedgeLayer::builder().delay(Duration::from_secs(30)).max_hedged_attempts(1)
        .on_event(FnListener::new(|_: &HedgeEvent| panic_bomb())).build();
    let fb = FallbackLayer::<(u32, String), (u32, String, usize), HedgeError<String>>::builder()
        .value((0, "fallback".into(), 0)).handle(|_| false).on_event(|_| panic_string()).build();
    let co = CoalesceLayer::new(|r: &(u32, String)| r.0);
    let ca = CacheLayer::builder().max_size(2).key_extractor(|r: &(u32, String)| r.0).on_miss(|| panic_bomb()).on_eviction(|| panic_string()).build();
    let mut svc = ca.layer(co.layer(fb.layer(hedge.layer(inner))));
    for k in 0..20u32 {
        let body = format!("body-{k}");
        let r = tokio::time::timeout(Duration::from_secs(3), svc.ready().await.unwrap().call((k, body.clone()))).await.expect("hang");
        match r {
            Ok((rk, rb, _)) => assert!(k % 5 != 4 && rk == k && rb == body),
            // hedge relabels a pass-through error as AllAttemptsFailed (known, DESIGN 3.1)
            Err(CacheError::Inner(CoalesceError::Service(FallbackError::Inner(HedgeError::AllAttemptsFailed(e))))) => assert!(k % 5 == 4 && e == format!("app-error {k}")),
            other => panic!("{other:?}"),
        }
    }
    assert_eq!(shared.calls.load(Ordering::SeqCst), 20);
    assert_eq!(shared.violations.load(Ordering::SeqCst), 0, "{:?}", shared.log.lock().unwrap());
}

#[tokio::test(flavor = "multi_thread", worker_threads = 2)]
async fn cache_hedge_coalesce_fallback() {
    quiet_panics();
    let inner = strict();
    let shared = inner.shared.clone();
    let fb = FallbackLayer::<(u32, String), (u32, String, usize), String>::builder()
        .exception(|e| format!("transformed {e}")).handle(|_| false).on_event(|_| panic_bomb()).build();
    let co = CoalesceLayer::builder(|r: &(u32, String)| r.0).name("c").build();
    let hedge = HedgeLayer::builder().delay(Duration::from_secs(30)).max_hedged_attempts(3).build();
    let ca = CacheLayer::builder().max_size(1).ttl(Duration::ZERO).key_extractor(|r: &(u32, String)| r.0).build();
    let mut svc = ca.layer(hedge.layer(co.layer(fb.layer(inner))));
    for k in 0..20u32 {
        if k % 5 == 4 { continue; } // an error would trigger the hedge (wait 30 s): its protective condition
        let body = format!("body-{k}");
        let r = tokio::time::timeout(Duration::from_secs(3), svc.ready().await.unwrap().call((k, body.clone()))).await.expect("hang");
        let (rk, rb, _) = r.unwrap();
        assert!(rk == k && rb == body);
    }
    assert_eq!(shared.calls.load(Ordering::SeqCst), 16);
    assert_eq!(shared.violations.load(Ordering::SeqCst), 0, "{:?}", shared.log.lock().unwrap());
}
