//! C10 "all max_size >= 1": construction with large max_size. One value per process, since some abort.
//! Run: for m in 1000000 4294967296 1099511627776 281474976710656 9223372036854775807 18446744073709551615; do
//!        for p in lru lfu fifo; do MAXSZ=$m POL=$p cargo test --offline --test cache_construct -- --nocapture; done; done
use std::sync::atomic::{AtomicUsize, Ordering};
use std::sync::Arc;
use tower::{Layer, Service, ServiceExt};
use tower_resilience_cache::{CacheLayer, EvictionPolicy};

#[tokio::test]
async fn construct_with_max_size() {
    let max: usize = std::env::var("MAXSZ").map(|s| s.parse().unwrap()).unwrap_or(1000);
    let pol = match std::env::var("POL").as_deref() {
        Ok("lfu") => EvictionPolicy::Lfu,
        Ok("fifo") => EvictionPolicy::Fifo,
        _ => EvictionPolicy::Lru,
    };
    let n = Arc::new(AtomicUsize::new(0));
    let n2 = n.clone();
    println!("PROBE begin max_size={max} {pol:?}");
    let layer = CacheLayer::builder().max_size(max).eviction_policy(pol).key_extractor(|r: &u32| *r).build();
    println!("PROBE build() ok");
    let t = std::time::Instant::now();
    let mut svc = layer.layer(tower::service_fn(move |k: u32| {
        let n = n2.clone();
        async move { Ok::<_, String>((k, n.fetch_add(1, Ordering::SeqCst))) }
    }));
    println!("PROBE layer() ok after {:?}", t.elapsed());
    assert_eq!(svc.ready().await.unwrap().call(1).await.unwrap(), (1, 0));
    assert_eq!(svc.ready().await.unwrap().call(1).await.unwrap(), (1, 0));
    println!("PROBE calls ok");
}
