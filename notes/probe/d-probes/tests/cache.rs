//! C10 (+ C20 for cache) probes. Run: cargo test --offline --test cache -- --test-threads=1 --nocapture
use probe_d::*;
use std::panic::{catch_unwind, AssertUnwindSafe};
use std::sync::atomic::{AtomicBool, AtomicIsize, AtomicUsize, Ordering};
use std::sync::Arc;
use std::task::Poll;
use std::time::Duration;
use tower::{Layer, Service, ServiceExt};
use tower_resilience_cache::{CacheError, CacheLayer, EvictionPolicy, SharedCacheLayer};

const POLICIES: [EvictionPolicy; 3] = [EvictionPolicy::Lru, EvictionPolicy::Lfu, EvictionPolicy::Fifo];

/// inner service: response = (key, serial); serial fresh per inner call
fn serial_svc(
    serial: Arc<AtomicUsize>,
) -> impl Service<u32, Response = (u32, usize), Error = String, Future = impl Send> + Clone {
    tower::service_fn(move |k: u32| {
        let s = serial.clone();
        async move {
            let n = s.fetch_add(1, Ordering::SeqCst);
            if k >= 1000 {
                Err(format!("err{k}"))
            } else {
                Ok((k, n))
            }
        }
    })
}

#[tokio::test]
async fn a_extreme_sizes_and_ttls() {
    for pol in POLICIES {
        for ttl in [None, Some(Duration::ZERO), Some(Duration::from_nanos(1)), Some(Duration::MAX), Some(Duration::from_secs(3600))] {
            for max in [1usize, 2, 3] {
                let serial = Arc::new(AtomicUsize::new(0));
                let mut b = CacheLayer::builder().max_size(max).eviction_policy(pol).key_extractor(|r: &u32| *r);
                if let Some(t) = ttl {
                    b = b.ttl(t);
                }
                let mut svc = b.build().layer(serial_svc(serial.clone()));
                // a miss calls once
                let (k, n0) = svc.ready().await.unwrap().call(7).await.unwrap();
                assert_eq!((k, n0), (7, 0));
                let before = serial.load(Ordering::SeqCst);
                let (k, n1) = svc.ready().await.unwrap().call(7).await.unwrap();
                let after = serial.load(Ordering::SeqCst);
                assert_eq!(k, 7);
                let long = matches!(ttl, None) || ttl.unwrap() >= Duration::from_secs(3600);
                if long {
                    assert_eq!((n1, after), (n0, before), "{pol:?} {ttl:?} {max}: must hit");
                } else {
                    // either a hit of the stored value without inner call, or exactly one inner call
                    assert!((n1 == n0 && after == before) || (n1 == before && after == before + 1), "{pol:?} {ttl:?}");
                }
                // errors are never cached
                for _ in 0..2 {
                    let b4 = serial.load(Ordering::SeqCst);
                    let e = svc.ready().await.unwrap().call(1000).await.unwrap_err();
                    assert!(matches!(e, CacheError::Inner(ref s) if s == "err1000"));
                    assert_eq!(serial.load(Ordering::SeqCst), b4 + 1);
                }
                if long {
                    // size bound: insert max more distinct keys; key 7 must then be gone for max==1.. (FIFO/LRU/LFU all evict 7 only if needed)
                    for k in 10..10 + max as u32 {
                        svc.ready().await.unwrap().call(k).await.unwrap();
                    }
                    // now at most max of the max+1 keys {7,10..} can hit
                    let mut hits = 0;
                    let keys: Vec<u32> = std::iter::once(7).chain(10..10 + max as u32).collect();
                    // probe in an order that cannot itself create hits: check via serial delta, each probe may insert, so count first-pass only those present BEFORE any probing -> probe newest first
                    let mut present = vec![];
                    for &k in keys.iter().rev() {
                        let b4 = serial.load(Ordering::SeqCst);
                        let r = svc.ready().await.unwrap().call(k).await.unwrap();
                        assert_eq!(r.0, k, "crossed key");
                        if serial.load(Ordering::SeqCst) == b4 {
                            hits += 1;
                            present.push(k);
                        }
                    }
                    assert!(hits <= max, "{pol:?} max {max}: {hits} keys hit: {present:?}");
                }
            }
        }
    }
}

// b_*: see tests/cache_construct.rs (runs one value per process: large values abort)

#[tokio::test]
async fn c_panicking_listeners_do_not_change_outcomes() {
    quiet_panics();
    for pol in POLICIES {
        for style in 0..2 {
            let counts = Arc::new([AtomicUsize::new(0), AtomicUsize::new(0), AtomicUsize::new(0)]);
            let (c1, c2, c3) = (counts.clone(), counts.clone(), counts.clone());
            let p = move || if style == 0 { panic_string() } else { panic_bomb() };
            let layer = CacheLayer::builder()
                .max_size(1)
                .eviction_policy(pol)
                .key_extractor(|r: &u32| *r)
                .on_hit(p)
                .on_miss(p)
                .on_eviction(p)
                .on_hit(move || { c1[0].fetch_add(1, Ordering::SeqCst); })
                .on_miss(move || { c2[1].fetch_add(1, Ordering::SeqCst); })
                .on_eviction(move || { c3[2].fetch_add(1, Ordering::SeqCst); })
                .build();
            let serial = Arc::new(AtomicUsize::new(0));
            let mut svc = layer.layer(serial_svc(serial.clone()));
            assert_eq!(svc.ready().await.unwrap().call(1).await.unwrap(), (1, 0)); // miss
            assert_eq!(svc.ready().await.unwrap().call(1).await.unwrap(), (1, 0)); // hit
            assert_eq!(svc.ready().await.unwrap().call(2).await.unwrap(), (2, 1)); // miss + eviction
            assert_eq!(svc.ready().await.unwrap().call(1).await.unwrap(), (1, 2)); // miss + eviction
            assert!(svc.ready().await.unwrap().call(1000).await.is_err()); // miss
            let got: Vec<usize> = counts.iter().map(|c| c.load(Ordering::SeqCst)).collect();
            assert_eq!(got, vec![1, 4, 2], "{pol:?} style {style}");
        }
    }
}

#[tokio::test]
async fn d_panicking_key_extractor_and_inner_panics() {
    quiet_panics();
    for pol in POLICIES {
        let serial = Arc::new(AtomicUsize::new(0));
        let layer = CacheLayer::builder()
            .max_size(2)
            .eviction_policy(pol)
            .key_extractor(|r: &u32| if *r == 99 { panic!("key extractor") } else { *r % 500 })
            .build();
        let s2 = serial.clone();
        let inner = Strict::new(move |_id, k: u32| {
            let s = s2.clone();
            async move {
                if k == 501 {
                    panic!("inner future panics");
                }
                Ok::<_, String>((k, s.fetch_add(1, Ordering::SeqCst)))
            }
        });
        let shared = inner.shared.clone();
        let mut svc = layer.layer(inner);
        svc.ready().await.unwrap();
        assert!(catch_unwind(AssertUnwindSafe(|| { let _ = svc.call(99); })).is_err());
        // inner future panics
        svc.ready().await.unwrap();
        let fut = svc.call(501);
        assert!(tokio::spawn(fut).await.unwrap_err().is_panic());
        // inner.call panics synchronously
        shared.sync_panic.store(true, Ordering::SeqCst);
        svc.ready().await.unwrap();
        assert!(catch_unwind(AssertUnwindSafe(|| { let _ = svc.call(3); })).is_err());
        shared.sync_panic.store(false, Ordering::SeqCst);
        // the cache still works, nothing was stored for 1 (=501 % 500) or 3
        let b4 = shared.calls.load(Ordering::SeqCst);
        assert_eq!(svc.ready().await.unwrap().call(1).await.unwrap().0, 1);
        assert_eq!(svc.ready().await.unwrap().call(3).await.unwrap().0, 3);
        assert_eq!(shared.calls.load(Ordering::SeqCst), b4 + 2);
        assert_eq!(svc.ready().await.unwrap().call(3).await.unwrap().0, 3);
        assert_eq!(shared.calls.load(Ordering::SeqCst), b4 + 2);
        assert_eq!(shared.violations.load(Ordering::SeqCst), 0, "{:?}", shared.log.lock().unwrap());
    }
}

/// Response whose Clone panics when armed.
#[derive(Debug)]
struct Resp {
    key: u32,
    serial: usize,
    armed: Arc<AtomicBool>,
}
impl Clone for Resp {
    fn clone(&self) -> Self {
        if self.armed.swap(false, Ordering::SeqCst) {
            panic!("Resp::clone panics (once)");
        }
        Resp { key: self.key, serial: self.serial, armed: self.armed.clone() }
    }
}

#[tokio::test]
async fn e_response_clone_panics_once() {
    quiet_panics();
    for (where_, shared_store) in [("insert", false), ("hit", false), ("insert", true)] {
        let armed = Arc::new(AtomicBool::new(false));
        let serial = Arc::new(AtomicUsize::new(0));
        let mk = |armed: Arc<AtomicBool>, serial: Arc<AtomicUsize>| {
            tower::service_fn(move |k: u32| {
                let (a, s) = (armed.clone(), serial.clone());
                async move { Ok::<_, String>(Resp { key: k, serial: s.fetch_add(1, Ordering::SeqCst), armed: a }) }
            })
        };
        let layer: SharedCacheLayer<u32, u32, Resp> = SharedCacheLayer::builder().max_size(4).key_extractor(|r: &u32| *r).build();
        let mut svc = layer.layer(mk(armed.clone(), serial.clone()));
        let mut other = layer.layer(mk(armed.clone(), serial.clone()));
        let _ = shared_store;
        svc.ready().await.unwrap().call(1).await.unwrap();
        if where_ == "insert" {
            armed.store(true, Ordering::SeqCst);
            let fut = svc.ready().await.unwrap().call(2);
            assert!(tokio::spawn(fut).await.unwrap_err().is_panic());
        } else {
            armed.store(true, Ordering::SeqCst);
            svc.ready().await.unwrap();
            assert!(catch_unwind(AssertUnwindSafe(|| { let _ = svc.call(1); })).is_err());
        }
        assert!(!armed.load(Ordering::SeqCst));
        // one Clone panicked once. What happens to later requests (other keys, other service on the same store)?
        for (name, s) in [("same service", &mut svc), ("other service, same store", &mut other)] {
            s.ready().await.unwrap();
            let r = catch_unwind(AssertUnwindSafe(|| s.call(3)));
            match r {
                Ok(f) => {
                    let r = f.await.unwrap();
                    assert_eq!(r.key, 3);
                    println!("PROBE cache clone-panic at {where_}: later call on {name}: ok");
                }
                Err(p) => {
                    let msg = p.downcast_ref::<String>().cloned().unwrap_or_default();
                    println!("PROBE cache clone-panic at {where_}: later call on {name}: call() PANICKED: {msg}");
                }
            }
        }
    }
}

#[tokio::test]
async fn g_readiness() {
    // pending then ready; readiness error surfaces as CacheError::Inner and nothing is called
    let inner = Strict::with_ready(
        |_id, k: u32| async move { Ok::<_, String>(k) },
        |_id, n| match n {
            0 | 1 => Poll::Pending,
            3 => Poll::Ready(Err("not ready".to_string())),
            _ => Poll::Ready(Ok(())),
        },
    );
    let shared = inner.shared.clone();
    let layer = CacheLayer::builder().max_size(2).key_extractor(|r: &u32| *r).build();
    let mut svc = layer.layer(inner);
    assert_eq!(svc.ready().await.unwrap().call(5).await.unwrap(), 5);
    let e = svc.ready().await.err().unwrap();
    assert!(matches!(e, CacheError::Inner(ref s) if s == "not ready"));
    assert_eq!(svc.ready().await.unwrap().call(5).await.unwrap(), 5);
    assert_eq!(shared.calls.load(Ordering::SeqCst), 1);
    assert_eq!(shared.violations.load(Ordering::SeqCst), 0);
}

#[tokio::test]
async fn h_builder_routes_and_sharing() {
    let serial = Arc::new(AtomicUsize::new(0));
    // setters twice, unusual order: last wins
    let layer = CacheLayer::builder()
        .ttl(Duration::ZERO)
        .max_size(0)
        .eviction_policy(EvictionPolicy::Fifo)
        .key_extractor(|_: &u32| 0u32)
        .name("a")
        .key_extractor(|r: &u32| *r)
        .eviction_policy(EvictionPolicy::Lfu)
        .max_size(1)
        .ttl(Duration::from_secs(1000))
        .name("b")
        .build();
    // two layer() products of a plain CacheLayer: private stores
    let mut a = layer.layer(serial_svc(serial.clone()));
    let mut b = layer.clone().layer(serial_svc(serial.clone()));
    assert_eq!(a.ready().await.unwrap().call(1).await.unwrap(), (1, 0));
    assert_eq!(b.ready().await.unwrap().call(1).await.unwrap(), (1, 1));
    assert_eq!(a.ready().await.unwrap().call(1).await.unwrap(), (1, 0));
    let mut a2 = a.clone(); // a clone shares
    assert_eq!(a2.ready().await.unwrap().call(1).await.unwrap(), (1, 0));
    assert_eq!(a2.ready().await.unwrap().call(2).await.unwrap(), (2, 2)); // max_size 1: evicts 1
    assert_eq!(a.ready().await.unwrap().call(1).await.unwrap(), (1, 3));
    // shared(): one store for all
    let sh = layer.shared::<(u32, usize)>();
    let mut c = sh.layer(serial_svc(serial.clone()));
    let mut d = sh.clone().layer(serial_svc(serial.clone()));
    let r = c.ready().await.unwrap().call(9).await.unwrap();
    assert_eq!(d.ready().await.unwrap().call(9).await.unwrap(), r);
}

// ---- real threads: size bound and key identity under a multi-thread runtime
static LIVE: AtomicIsize = AtomicIsize::new(0);
#[derive(Debug)]
struct Counted {
    key: u32,
}
impl Counted {
    fn new(key: u32) -> Self {
        LIVE.fetch_add(1, Ordering::SeqCst);
        Counted { key }
    }
}
impl Clone for Counted {
    fn clone(&self) -> Self {
        Counted::new(self.key)
    }
}
impl Drop for Counted {
    fn drop(&mut self) {
        LIVE.fetch_sub(1, Ordering::SeqCst);
    }
}

#[test]
fn i_threads_size_bound() {
    for pol in POLICIES {
        for max in [1usize, 3] {
            let rt = tokio::runtime::Builder::new_multi_thread().worker_threads(8).enable_all().build().unwrap();
            LIVE.store(0, Ordering::SeqCst);
            let layer = CacheLayer::builder().max_size(max).eviction_policy(pol).ttl(Duration::from_micros(300)).key_extractor(|r: &u32| *r).build();
            let svc = layer.layer(tower::service_fn(|k: u32| async move {
                if k % 3 == 0 {
                    tokio::task::yield_now().await;
                }
                Ok::<_, String>(Counted::new(k))
            }));
            rt.block_on(async {
                let mut hs = vec![];
                for t in 0..16u32 {
                    let mut s = svc.clone();
                    hs.push(tokio::spawn(async move {
                        for i in 0..3000u32 {
                            let k = (i.wrapping_mul(2654435761).wrapping_add(t * 7)) % 6;
                            let r = s.ready().await.unwrap().call(k).await.unwrap();
                            assert_eq!(r.key, k, "crossed key");
                        }
                    }));
                }
                for h in hs {
                    h.await.unwrap();
                }
            });
            let live = LIVE.load(Ordering::SeqCst);
            assert!(live as usize <= max && live >= 1, "{pol:?} max {max}: store holds {live} responses");
            drop(svc);
            assert_eq!(LIVE.load(Ordering::SeqCst), 0);
        }
    }
}

/// paused tokio clock: TTL follows std::time::Instant (real clock), so nothing here may hang or panic
#[tokio::test(start_paused = true)]
async fn j_paused_clock() {
    let serial = Arc::new(AtomicUsize::new(0));
    let layer = CacheLayer::builder().max_size(2).ttl(Duration::from_secs(3600)).key_extractor(|r: &u32| *r).build();
    let mut svc = layer.layer(serial_svc(serial.clone()));
    assert_eq!(svc.ready().await.unwrap().call(1).await.unwrap(), (1, 0));
    tokio::time::advance(Duration::from_secs(10)).await;
    assert_eq!(svc.ready().await.unwrap().call(1).await.unwrap(), (1, 0));
}

/// max_size(0) is outside C10's quantifier (max_size >= 1); recorded for the report only
#[tokio::test]
async fn k_max_size_zero_observation() {
    for pol in POLICIES {
        let serial = Arc::new(AtomicUsize::new(0));
        let mut svc = CacheLayer::builder().max_size(0).eviction_policy(pol).key_extractor(|r: &u32| *r).build().layer(serial_svc(serial.clone()));
        for k in 0..150u32 {
            svc.ready().await.unwrap().call(k).await.unwrap();
        }
        let mut held = 0;
        for k in (0..150u32).rev() {
            let b4 = serial.load(Ordering::SeqCst);
            svc.ready().await.unwrap().call(k).await.unwrap();
            if serial.load(Ordering::SeqCst) == b4 {
                held += 1;
            } else {
                break;
            }
        }
        println!("PROBE cache max_size(0) {pol:?}: holds {held} entries");
    }
}
